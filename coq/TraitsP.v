(* TraitsP.v -- proofs about the model of Traits.v (property C19).
   No Axiom / Parameter / Admitted.  The laws of the payload order and hash are Section
   hypotheses; after the Section closes they are ordinary premises of every theorem (they are
   the obligations Rust's `Ord` / `Hash` contracts put on the USER's type T). *)
From Coq Require Import ZArith List Bool Lia.
Import ListNotations.
Require Import Traits.
Local Open Scope Z_scope.

(* The payload laws, as one record-free bundle of propositions. *)
Definition cmp_refl_law {T} (cmpT : T -> T -> comparison) := forall x, cmpT x x = Eq.
Definition cmp_sym_law {T} (cmpT : T -> T -> comparison) :=
  forall x y, cmpT y x = CompOpp (cmpT x y).
Definition cmp_trans_law {T} (cmpT : T -> T -> comparison) :=
  forall c x y z, cmpT x y = c -> cmpT y z = c -> cmpT x z = c.
Definition hash_law {T} (cmpT : T -> T -> comparison) (hashT : T -> Z) :=
  forall x y, cmpT x y = Eq -> hashT x = hashT y.

Section Laws.
  Variable T : Type.
  Variable cmpT : T -> T -> comparison.
  Variable hashT : T -> Z.
  Hypothesis Hrefl : cmp_refl_law cmpT.
  Hypothesis Hsym : cmp_sym_law cmpT.
  Hypothesis Htrans : cmp_trans_law cmpT.
  Hypothesis Hhash : hash_law cmpT hashT.

  Notation heap := (heap T).
  Notation eq := (Traits.eq T cmpT).
  Notation cmp := (Traits.cmp T cmpT).
  Notation partial_cmp := (Traits.partial_cmp T cmpT).
  Notation hash := (Traits.hash T hashT).
  Notation as_ref := (Traits.as_ref T).
  Notation le := (Traits.le T cmpT).
  Notation valid := (Traits.valid T).
  Notation opt_eq := (Traits.opt_eq T cmpT).
  Notation opt_cmp := (Traits.opt_cmp T cmpT).
  Notation opt_hash := (Traits.opt_hash T hashT).

  (* ---------- payload level: consequences of the three laws ---------- *)
  Lemma cmpT_eq_l : forall x y z, cmpT x y = Eq -> cmpT x z = cmpT y z.
  Proof.
    intros x y z Hxy.
    assert (Hyx : cmpT y x = Eq) by (rewrite Hsym, Hxy; reflexivity).
    destruct (cmpT y z) eqn:Hyz.
    - eapply Htrans; eauto.
    - destruct (cmpT x z) eqn:Hxz; auto.
      + assert (cmpT y z = Eq) by (eapply Htrans; eauto). congruence.
      + assert (Hzx : cmpT z x = Lt) by (rewrite Hsym, Hxz; reflexivity).
        assert (cmpT y x = Lt) by (eapply Htrans; eauto). congruence.
    - destruct (cmpT x z) eqn:Hxz; auto.
      + assert (cmpT y z = Eq) by (eapply Htrans; eauto). congruence.
      + assert (Hzy : cmpT z y = Lt) by (rewrite Hsym, Hyz; reflexivity).
        assert (cmpT x y = Lt) by (eapply Htrans; eauto). congruence.
  Qed.

  Lemma cmpT_eq_r : forall x y z, cmpT y z = Eq -> cmpT x y = cmpT x z.
  Proof.
    intros x y z Hyz.
    rewrite (Hsym y x), (Hsym z x). f_equal. apply cmpT_eq_l; assumption.
  Qed.

  Lemma cmpT_le_trans : forall x y z, cmpT x y <> Gt -> cmpT y z <> Gt -> cmpT x z <> Gt.
  Proof.
    intros x y z Hxy Hyz.
    destruct (cmpT x y) eqn:E1; try congruence.
    - rewrite (cmpT_eq_l x y z E1). assumption.
    - destruct (cmpT y z) eqn:E2; try congruence.
      + rewrite <- (cmpT_eq_r x y z E2). congruence.
      + rewrite (Htrans Lt x y z E1 E2). congruence.
  Qed.

  (* ---------- Option<&T> level ---------- *)
  Lemma opt_eq_cmp : forall a b, opt_eq a b = true <-> opt_cmp a b = Eq.
  Proof.
    intros [x|] [y|]; simpl; unfold eqT; try (split; congruence).
    destruct (cmpT x y); split; congruence.
  Qed.

  Lemma opt_cmp_refl : forall a, opt_cmp a a = Eq.
  Proof. intros [x|]; simpl; auto. Qed.

  Lemma opt_cmp_sym : forall a b, opt_cmp b a = CompOpp (opt_cmp a b).
  Proof. intros [x|] [y|]; simpl; auto. Qed.

  Lemma opt_cmp_trans : forall c a b d, opt_cmp a b = c -> opt_cmp b d = c -> opt_cmp a d = c.
  Proof.
    intros c [x|] [y|] [z|]; simpl; intros; subst; try congruence.
    eapply Htrans; eauto.
  Qed.

  Lemma opt_cmp_eq_l : forall a b d, opt_cmp a b = Eq -> opt_cmp a d = opt_cmp b d.
  Proof.
    intros [x|] [y|] [z|]; simpl; intros; try congruence.
    apply cmpT_eq_l; assumption.
  Qed.

  Lemma opt_cmp_le_trans : forall a b d,
    opt_cmp a b <> Gt -> opt_cmp b d <> Gt -> opt_cmp a d <> Gt.
  Proof.
    intros [x|] [y|] [z|]; simpl; intros; try congruence.
    eapply cmpT_le_trans; eauto.
  Qed.

  Lemma opt_eq_hash : forall a b, opt_eq a b = true -> opt_hash a = opt_hash b.
  Proof.
    intros [x|] [y|]; simpl; try congruence.
    unfold eqT. destruct (cmpT x y) eqn:E; try congruence.
    intros _. rewrite (Hhash x y E). reflexivity.
  Qed.

  (* ---------- pointer level ---------- *)

  (* The impls are, by definition, the Option<&T> operations on the referents. *)
  Theorem agree_with_option : forall (h : heap) p q,
    eq h p q = opt_eq (as_ref h p) (as_ref h q) /\
    cmp h p q = opt_cmp (as_ref h p) (as_ref h q) /\
    partial_cmp h p q = Some (opt_cmp (as_ref h p) (as_ref h q)) /\
    hash h p = opt_hash (as_ref h p).
  Proof. intros; repeat split. Qed.

  Theorem as_ref_null : forall (h : heap) p, is_null p = true -> as_ref h p = None.
  Proof. intros h p H. unfold Traits.as_ref. rewrite H. reflexivity. Qed.

  Theorem as_ref_nonnull : forall (h : heap) p, is_null p = false -> as_ref h p = h (obj p).
  Proof. intros h p H. unfold Traits.as_ref. rewrite H. reflexivity. Qed.

  (* eq is an equivalence *)
  Theorem eq_reflexive : forall (h : heap) p, eq h p p = true.
  Proof. intros. unfold Traits.eq. apply opt_eq_cmp. apply opt_cmp_refl. Qed.

  Theorem eq_symmetric : forall (h : heap) p q, eq h p q = true -> eq h q p = true.
  Proof.
    intros h p q H. unfold Traits.eq in *. apply opt_eq_cmp. apply opt_eq_cmp in H.
    rewrite opt_cmp_sym, H. reflexivity.
  Qed.

  Theorem eq_transitive : forall (h : heap) p q r,
    eq h p q = true -> eq h q r = true -> eq h p r = true.
  Proof.
    intros h p q r H1 H2. unfold Traits.eq in *.
    apply opt_eq_cmp. apply opt_eq_cmp in H1. apply opt_eq_cmp in H2.
    eapply opt_cmp_trans; eauto.
  Qed.

  (* cmp is consistent with eq *)
  Theorem eq_iff_cmp_Eq : forall (h : heap) p q, eq h p q = true <-> cmp h p q = Eq.
  Proof. intros. apply opt_eq_cmp. Qed.

  Theorem cmp_reflexive : forall (h : heap) p, cmp h p p = Eq.
  Proof. intros. apply opt_cmp_refl. Qed.

  (* cmp q p is the reverse of cmp p q (Rust: a.cmp(b) == b.cmp(a).reverse()) *)
  Theorem cmp_reverse : forall (h : heap) p q, cmp h q p = CompOpp (cmp h p q).
  Proof. intros. apply opt_cmp_sym. Qed.

  (* antisymmetry of <= up to eq *)
  Theorem cmp_antisymmetric : forall (h : heap) p q,
    le h p q = true -> le h q p = true -> eq h p q = true.
  Proof.
    intros h p q. unfold Traits.le. rewrite (cmp_reverse h p q), eq_iff_cmp_Eq.
    destruct (cmp h p q); simpl; congruence.
  Qed.

  (* transitivity, for each of <, ==, > *)
  Theorem cmp_transitive : forall (h : heap) c p q r,
    cmp h p q = c -> cmp h q r = c -> cmp h p r = c.
  Proof. intros h c p q r. apply opt_cmp_trans. Qed.

  (* transitivity of <= *)
  Theorem le_transitive : forall (h : heap) p q r,
    le h p q = true -> le h q r = true -> le h p r = true.
  Proof.
    intros h p q r. unfold Traits.le.
    pose proof (opt_cmp_le_trans (as_ref h p) (as_ref h q) (as_ref h r)) as H.
    fold (cmp h p q) (cmp h q r) (cmp h p r) in H.
    destruct (cmp h p q), (cmp h q r), (cmp h p r); intros; try reflexivity; try discriminate;
      exfalso; apply H; congruence.
  Qed.

  (* totality *)
  Theorem le_total : forall (h : heap) p q, le h p q = true \/ le h q p = true.
  Proof.
    intros h p q. unfold Traits.le. rewrite (cmp_reverse h p q).
    destruct (cmp h p q); simpl; auto.
  Qed.

  (* eq is a congruence for cmp: equal pointers compare alike against everything *)
  Theorem eq_cmp_compat : forall (h : heap) p p' q,
    eq h p p' = true -> cmp h p q = cmp h p' q /\ cmp h q p = cmp h q p'.
  Proof.
    intros h p p' q H. apply eq_iff_cmp_Eq in H.
    assert (E : cmp h p q = cmp h p' q) by (apply opt_cmp_eq_l; exact H).
    split; [exact E|]. rewrite (cmp_reverse h p q), (cmp_reverse h p' q), E. reflexivity.
  Qed.

  (* PartialOrd agrees with Ord *)
  Theorem partial_cmp_is_cmp : forall (h : heap) p q, partial_cmp h p q = Some (cmp h p q).
  Proof. reflexivity. Qed.

  (* Hash agrees with Eq *)
  Theorem eq_hash : forall (h : heap) p q, eq h p q = true -> hash h p = hash h q.
  Proof. intros h p q. apply opt_eq_hash. Qed.

  (* null equals only null *)
  Theorem null_eq_iff : forall (h : heap) p q,
    is_null p = true -> valid h q -> (eq h p q = true <-> is_null q = true).
  Proof.
    intros h p q Hp Hv. unfold Traits.eq. rewrite (as_ref_null h p Hp).
    destruct (is_null q) eqn:Hq.
    - rewrite (as_ref_null h q Hq). simpl. tauto.
    - rewrite (as_ref_nonnull h q Hq). destruct Hv as [Hv|[x Hx]]; [congruence|].
      rewrite Hx. simpl. split; congruence.
  Qed.

  Theorem null_eq_null : forall (h : heap) p q,
    is_null p = true -> is_null q = true -> eq h p q = true.
  Proof.
    intros h p q Hp Hq. unfold Traits.eq.
    rewrite (as_ref_null h p Hp), (as_ref_null h q Hq). reflexivity.
  Qed.

  (* null is the smallest element *)
  Theorem null_smallest : forall (h : heap) p q, is_null p = true -> cmp h p q <> Gt.
  Proof.
    intros h p q Hp. unfold Traits.cmp. rewrite (as_ref_null h p Hp).
    destruct (as_ref h q); simpl; congruence.
  Qed.

  Theorem null_lt_nonnull : forall (h : heap) p q x,
    is_null p = true -> is_null q = false -> h (obj q) = Some x -> cmp h p q = Lt.
  Proof.
    intros h p q x Hp Hq Hx. unfold Traits.cmp.
    rewrite (as_ref_null h p Hp), (as_ref_nonnull h q Hq), Hx. reflexivity.
  Qed.

  (* two pointers to (possibly distinct) live objects are compared by contents *)
  Theorem nonnull_by_contents : forall (h : heap) p q x y,
    is_null p = false -> is_null q = false -> h (obj p) = Some x -> h (obj q) = Some y ->
    cmp h p q = cmpT x y /\ eq h p q = eqT T cmpT x y /\
    (hashT x = hashT y -> hash h p = hash h q).
  Proof.
    intros h p q x y Hp Hq Hx Hy. unfold Traits.cmp, Traits.eq, Traits.hash.
    rewrite (as_ref_nonnull h p Hp), (as_ref_nonnull h q Hq), Hx, Hy. simpl.
    repeat split. intros ->. reflexivity.
  Qed.

  Corollary distinct_objects_equal_contents : forall (h : heap) p q x y,
    is_null p = false -> is_null q = false -> h (obj p) = Some x -> h (obj q) = Some y ->
    cmpT x y = Eq -> eq h p q = true /\ cmp h p q = Eq /\ hash h p = hash h q.
  Proof.
    intros h p q x y Hp Hq Hx Hy E.
    destruct (nonnull_by_contents h p q x y Hp Hq Hx Hy) as (Hc & He & Hh).
    rewrite Hc, He. unfold eqT. rewrite E. repeat split. apply Hh. apply Hhash. exact E.
  Qed.

  (* tag and timestamp never influence as_ref / eq / cmp / partial_cmp / hash / is_null *)
  Theorem as_ref_obj_only : forall (h : heap) p p', obj p = obj p' -> as_ref h p = as_ref h p'.
  Proof. intros h p p' H. unfold Traits.as_ref, is_null. rewrite H. reflexivity. Qed.

  Theorem tag_ts_irrelevant : forall (h : heap) p q t1 s1 t2 s2,
    let p' := mkptr (obj p) t1 s1 in
    let q' := mkptr (obj q) t2 s2 in
    eq h p' q' = eq h p q /\ cmp h p' q' = cmp h p q /\
    partial_cmp h p' q' = partial_cmp h p q /\ hash h p' = hash h p /\
    is_null p' = is_null p.
  Proof.
    intros h p q t1 s1 t2 s2 p' q'.
    assert (Ep : as_ref h p' = as_ref h p) by (apply as_ref_obj_only; reflexivity).
    assert (Eq' : as_ref h q' = as_ref h q) by (apply as_ref_obj_only; reflexivity).
    unfold Traits.eq, Traits.cmp, Traits.partial_cmp, Traits.hash.
    rewrite Ep, Eq'. repeat split.
  Qed.

  Corollary with_tag_irrelevant : forall (h : heap) p q t,
    eq h (with_tag p t) q = eq h p q /\ cmp h (with_tag p t) q = cmp h p q /\
    hash h (with_tag p t) = hash h p /\ is_null (with_tag p t) = is_null p.
  Proof.
    intros h p q t.
    assert (Ep : as_ref h (with_tag p t) = as_ref h p) by (apply as_ref_obj_only; reflexivity).
    unfold Traits.eq, Traits.cmp, Traits.hash. rewrite Ep. repeat split.
  Qed.

  Corollary with_timestamp_irrelevant : forall (h : heap) p q e,
    eq h (with_timestamp p e) q = eq h p q /\ cmp h (with_timestamp p e) q = cmp h p q /\
    hash h (with_timestamp p e) = hash h p /\ is_null (with_timestamp p e) = is_null p /\
    ptr_eq (with_timestamp p e) p = true.
  Proof.
    intros h p q e.
    assert (Eo : obj (with_timestamp p e) = obj p /\ tag (with_timestamp p e) = tag p)
      by (unfold with_timestamp; destruct (is_null p); split; reflexivity).
    destruct Eo as [Eo Et].
    assert (Ep : as_ref h (with_timestamp p e) = as_ref h p) by (apply as_ref_obj_only; exact Eo).
    unfold Traits.eq, Traits.cmp, Traits.hash, is_null, ptr_eq.
    rewrite Ep, Eo, Et, !Z.eqb_refl. repeat split.
  Qed.

  (* ptr_eq: identity plus tag, timestamp ignored *)
  Theorem ptr_eq_iff : forall p q, ptr_eq p q = true <-> (obj p = obj q /\ tag p = tag q).
  Proof.
    intros p q. unfold ptr_eq. rewrite andb_true_iff, !Z.eqb_eq. tauto.
  Qed.

  Theorem ptr_eq_ts_irrelevant : forall p q s1 s2,
    ptr_eq (mkptr (obj p) (tag p) s1) (mkptr (obj q) (tag q) s2) = ptr_eq p q.
  Proof. reflexivity. Qed.

  (* ptr_eq implies eq (both pointers are interpreted in the same heap h) *)
  Theorem ptr_eq_eq : forall (h : heap) p q, ptr_eq p q = true -> eq h p q = true.
  Proof.
    intros h p q H. apply ptr_eq_iff in H. destruct H as [Ho _].
    unfold Traits.eq. rewrite (as_ref_obj_only h p q Ho).
    apply opt_eq_cmp. apply opt_cmp_refl.
  Qed.

  (* same object, whatever the tags / timestamps: equal *)
  Theorem same_object_eq : forall (h : heap) p q, obj p = obj q -> eq h p q = true.
  Proof.
    intros h p q Ho. unfold Traits.eq. rewrite (as_ref_obj_only h p q Ho).
    apply opt_eq_cmp. apply opt_cmp_refl.
  Qed.
End Laws.

(* ---------- the concrete instance satisfies the laws (the hypotheses are not vacuous) ---------- *)
Lemma Z_refl_law : cmp_refl_law cmpZ.
Proof. intro x. apply Z.compare_refl. Qed.

Lemma Z_sym_law : cmp_sym_law cmpZ.
Proof. intros x y. unfold cmpZ. apply Z.compare_antisym. Qed.

Lemma Z_trans_law : cmp_trans_law cmpZ.
Proof.
  intros c x y z H1 H2. unfold cmpZ in *. destruct c.
  - apply Z.compare_eq_iff in H1, H2. apply Z.compare_eq_iff. lia.
  - rewrite Z.compare_lt_iff in *. lia.
  - rewrite Z.compare_gt_iff in *. lia.
Qed.

Lemma Z_hash_law : hash_law cmpZ hashZ.
Proof. intros x y H. apply Z.compare_eq_iff in H. exact H. Qed.

(* ---------- examples ---------- *)
(* two distinct objects with equal contents: eq holds, ptr_eq does not *)
Example ptr_eq_converse_fails :
  let h := heap_of_list [(1, 5); (2, 5)] in
  let p := mkptr 1 0 0 in
  let q := mkptr 2 0 0 in
  eqZ h p q = true /\ ptr_eq p q = false /\ cmpPZ h p q = Eq /\ hashPZ h p = hashPZ h q.
Proof. repeat split. Qed.

(* same object, different tags: eq holds, ptr_eq does not *)
Example ptr_eq_sees_tag :
  let h := heap_of_list [(1, 5)] in
  eqZ h (mkptr 1 0 0) (mkptr 1 1 0) = true /\ ptr_eq (mkptr 1 0 0) (mkptr 1 1 0) = false.
Proof. repeat split. Qed.

(* same object, same tag, different timestamps: ptr_eq holds *)
Example ptr_eq_ignores_ts : ptr_eq (mkptr 1 1 3) (mkptr 1 1 9) = true.
Proof. reflexivity. Qed.

(* a tagged null is null, equals null, is below every object, but is not ptr_eq to null *)
Example tagged_null_is_null :
  let h := heap_of_list [(1, 5)] in
  let n1 := with_tag null 1 in
  is_null n1 = true /\ as_ref Z h n1 = None /\ eqZ h n1 null = true /\
  ptr_eq n1 null = false /\ cmpPZ h n1 (mkptr 1 0 0) = Lt /\ hashPZ h n1 = [0].
Proof. repeat split. Qed.

(* different contents: ordered by contents, not by identity *)
Example ordered_by_contents :
  let h := heap_of_list [(1, 9); (2, 3)] in
  cmpPZ h (mkptr 1 0 0) (mkptr 2 0 0) = Gt /\ eqZ h (mkptr 1 0 0) (mkptr 2 0 0) = false.
Proof. repeat split. Qed.
