(* The reference table of count operations per entry point of strong.rs / weak.rs that Rc.v (start_op) and the api stream
   were written against.  Gen/ApiCallsW.v is regenerated from the source on every run (calls to private helpers are
   replaced by the helper's own calls, so the table does not depend on how the file is cut into functions);
   ApiCallsP.v proves that it equals this table and that the entries Rc.v models are the frames start_op pushes. *)
From Coq Require Import ZArith List String.
Import ListNotations.
Require Import ApiCallsW.
Local Open Scope Z_scope.
Local Open Scope string_scope.

Definition api_calls_ref : list (string * list acall) :=
  [ ("strong.rs AtomicRc::store", [(ADecS (CNum 1) GSome)]);
    ("strong.rs Clone for Rc::clone", [AIncS]);
    ("strong.rs Drop for AtomicRc::drop", [(ADecS (CNum 1) GNone)]);
    ("strong.rs Drop for NewRcIter::drop", [(ADecS (CVar "remain") GNone)]);
    ("strong.rs Drop for Rc::drop", [(ADecS (CNum 1) GNone)]);
    ("strong.rs NewRcIter::abort", [(ADecS (CVar "remain") GSome)]);
    ("strong.rs Rc::downgrade", [(AIncW (CNum 1))]);
    ("strong.rs Rc::finalize", [(ADecS (CNum 1) GSome)]);
    ("strong.rs Rc::new", [(AAlloc (CNum 1))]);
    ("strong.rs Rc::new_many", [(AAlloc (CVar "N"))]);
    ("strong.rs Rc::new_many_iter", [(AAlloc (CVar "count"))]);
    ("strong.rs Rc::weak_many", [(AIncW (CVar "N"))]);
    ("strong.rs Snapshot::counted", [AIncS]);
    ("weak.rs AtomicWeak::store", [(ADecW GSome)]);
    ("weak.rs Clone for Weak::clone", [(AIncW (CNum 1))]);
    ("weak.rs Drop for AtomicWeak::drop", [(ADecW GNone)]);
    ("weak.rs Drop for Weak::drop", [(ADecW GNone)]);
    ("weak.rs Weak::upgrade", [AIncS]);
    ("weak.rs WeakSnapshot::counted", [(AIncW (CNum 1))]);
    ("weak.rs WeakSnapshot::upgrade", [AIsND]) ].
