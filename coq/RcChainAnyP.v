(* C06 for chains of ANY length: the number of deferred-function executions (= grace periods that have to
   elapse one after the other) needed to reclaim a chain of n nodes is exactly (n - 1) / DEPTH_CAP + 1
   = ceil (n / DEPTH_CAP): it depends on n only through that quotient.

   One PASS of thread t (frames FMay :: K, not inside a deferred function):
       FMay      (oracle [])               -> FAwait :: FMay :: K
       FAwait    (oracle [113; h; _])      -> the pending entry (KDestruct, h, pG) is taken, the abstract epoch layer
                                              raises G to max G (pG + EXPIRE_AFTER)  (the grace period: [closure_grace]),
                                              frames FTD113 h :: FEndClosure :: FMay :: K
       FTD113 / FTD114                     -> try_destruct publishes DESTRUCTED, frames FDispEnter h 0 :: ...
       the cascade of RcCascadeP.v         -> at most DEPTH_CAP nodes destructed; at the cap the next node is re-deferred
       FEndClosure                         -> frames FMay :: K again.

   STAMPS.  A pass runs at a fixed epoch g.  The node re-deferred at the cap gets the stamp
       child_stamp g ne ts e  mod 16  =  the most recent (in the window of g) of  ne (stamp of its predecessor, itself
       the running maximum of the stamps before it), ts (timestamp of the link to it) and e (its own stamp);
   all three are old at g (decoded value <= g - RECLAIM_AGE), hence so is the result.  The pending entry carries pG = g, so
   the next pass runs at g + EXPIRE_AFTER = g + 3.  Growing older is harmless; the only danger is the 4-bit window: a
   stamp whose decoded value is <= g - 11 would be read as a FUTURE epoch at g + 3.  Hence the hypothesis (in [chn]) that
   the own stamp of the node at a block boundary is old at g AND at g + 3: then the maximum is in [g - 10, g - 3] and
   is old at g + 3 as well (lemma [old_next]).  The nodes of block j (and their links) have to be old at the epoch
   g + 3 * j of the pass that destructs them: this is what "all stamps are old w.r.t. the epochs the oracle supplies"
   means for a chain of more than DEPTH_CAP nodes. *)
From Coq Require Import ZArith List Bool Lia Arith.
Import ListNotations.
Require Import Params StateW ModularW DisposeW Bits StateP ModularP Rc RcSpec RcEpochP RcCascadeP.
Local Open Scope Z_scope.

(* ---- runs with an oracle: RcSpec.mrun; the silent runs of RcCascadeP are runs with the empty oracle *)
Lemma mrun_app a : forall s b, mrun s (a ++ b) = mrun (mrun s a) b.
Proof.
  induction a as [|[t rec] a IH]; intros s b; [reflexivity|].
  cbn [app mrun]. destruct (micro s t rec) as [[s1 o]|]; apply IH.
Qed.

Lemma mrun_step s t rec s1 o r s2 : micro s t rec = Some (s1, o) -> mrun s1 r = s2 -> mrun s ((t, rec) :: r) = s2.
Proof. intros H <-. cbn [mrun]. rewrite H. reflexivity. Qed.

Lemma iter_mrun t n : forall s, iter_micro n s t = mrun s (repeat (t, []) n).
Proof.
  induction n as [|n IH]; intros s; [reflexivity|].
  cbn [iter_micro repeat mrun]. destruct (micro s t []) as [[s1 o]|] eqn:E; [apply IH|].
  rewrite <- IH. symmetry. apply iter_stuck. exact E.
Qed.

(* the records on which the FAwait frame of [micro] starts a deferred function *)
Definition starts_rec (rec : list Z) : bool :=
  match rec with
  | 113 :: _ :: _ => true
  | 102 :: _ :: _ => true
  | _ => false
  end.

(* number of deferred functions started along a run *)
Fixpoint starts (s : state) (sched : list (nat * list Z)) : nat :=
  match sched with
  | [] => O
  | (t, rec) :: r =>
      match micro s t rec with
      | Some (s', _) => ((if top_is_await s t && starts_rec rec then 1 else 0) + starts s' r)%nat
      | None => starts s r
      end
  end.

Lemma starts_app a : forall s b, starts s (a ++ b) = (starts s a + starts (mrun s a) b)%nat.
Proof.
  induction a as [|[t rec] a IH]; intros s b; [reflexivity|].
  cbn [app mrun starts]. destruct (micro s t rec) as [[s1 o]|]; rewrite IH; lia.
Qed.

Lemma starts_silent t n : forall s, starts s (repeat (t, []) n) = O.
Proof.
  induction n as [|n IH]; intros s; [reflexivity|].
  cbn [repeat starts]. destruct (micro s t []) as [[s1 o]|]; [|apply IH].
  rewrite IH. cbn [starts_rec]. rewrite andb_false_r. reflexivity.
Qed.

Lemma starts_step s t rec s1 o r :
  micro s t rec = Some (s1, o) ->
  starts s ((t, rec) :: r) = ((if top_is_await s t && starts_rec rec then 1 else 0) + starts s1 r)%nat.
Proof. intros H. cbn [starts]. rewrite H. reflexivity. Qed.

(* ---- the abstract epoch layer when no thread is inside a critical section: every advance is legal *)
Definition unpinned (s : state) : Prop := forall t y, gett s t = Some y -> incs y = false.

Lemma unpinned_can_advance s : unpinned s -> can_advance s = true.
Proof.
  intros H. unfold can_advance. apply forallb_forall. intros y Hy.
  destruct (In_nth_error _ _ Hy) as (t & Ht). rewrite (H t y Ht). reflexivity.
Qed.

Lemma advance_unpinned fuel : forall s g, unpinned s ->
  let s1 := advance_to fuel s g in
  G s1 = Z.min (Z.max (G s) g) (G s + Z.of_nat fuel) /\ objs s1 = objs s /\ cells s1 = cells s /\ threads s1 = threads s /\
  pending s1 = pending s /\ err s1 = err s.
Proof.
  induction fuel as [|n IH]; intros s g Hu; cbn [advance_to].
  - cbv zeta. repeat split; try reflexivity. cbn [Z.of_nat]. lia.
  - cbv zeta. destruct (G s <? g) eqn:E.
    + rewrite (unpinned_can_advance s Hu).
      assert (Hu' : unpinned (set_G s (G s + 1))) by exact Hu.
      destruct (IH (set_G s (G s + 1)) g Hu') as (A1 & A2 & A3 & A4 & A5 & A6).
      cbn [G objs cells threads pending err set_G] in A1, A2, A3, A4, A5, A6.
      repeat split; try assumption. rewrite A1. rewrite Nat2Z.inj_succ. lia.
    + repeat split; try reflexivity. rewrite Nat2Z.inj_succ. lia.
Qed.

Lemma see_epoch_unpinned s g : unpinned s ->
  let s1 := see_epoch s g in
  G s1 = Z.max (G s) g /\ objs s1 = objs s /\ cells s1 = cells s /\ threads s1 = threads s /\
  pending s1 = pending s /\ err s1 = err s.
Proof.
  intros Hu. unfold see_epoch. destruct (advance_unpinned (Z.to_nat (g - G s)) s g Hu) as (A1 & A2).
  split; [|exact A2]. rewrite A1. lia.
Qed.

(* ---- stamps across a grace period *)
Lemma old_decode g e : epoch_ok g -> old g e -> g - 13 <= decode g e <= g - RECLAIM_AGE.
Proof.
  intros Hg (R & L & O). rewrite reclaim_now_threshold in O by assumption. apply Z.leb_le in O.
  pose proof (decode_window g e). lia.
Qed.

(* the stamp written into the re-deferred node is old at the next pass too, provided one input (here: the node's own
   stamp) is old at both epochs, i.e. is not about to leave the 4-bit window *)
Lemma old_next g a1 a2 a3 : epoch_ok g -> epoch_ok (g + EXPIRE_AFTER) ->
  old g a1 -> old g a2 -> old g a3 -> old (g + EXPIRE_AFTER) a3 ->
  old (g + EXPIRE_AFTER) (child_stamp g a1 a2 a3 mod 16).
Proof.
  intros Hg Hg' O1 O2 O3 O3'.
  pose proof (old_child_stamp g a1 a2 a3 Hg O1 O2 O3) as (Rm & Lm & Om).
  pose proof (old_decode g a1 Hg O1) as D1. pose proof (old_decode g a2 Hg O2) as D2.
  pose proof (old_decode g a3 Hg O3) as D3. pose proof (old_decode _ a3 Hg' O3') as D3'.
  pose proof (old_merged g a1 a2 a3 Hg O1 O2 O3) as (_ & _ & Omm).
  destruct O1 as (R1 & L1 & _), O2 as (R2 & L2 & _), O3 as (R3 & L3 & _).
  assert (Hcs : child_stamp g a1 a2 a3 mod 16 = merged g a1 a2 a3 mod 16).
  { apply child_stamp_of_old; try assumption; try reflexivity.
    pose proof (merged_decode g a1 a2 a3 Hg R1 R2 R3 L1 L2 L3) as HD. rewrite HD. unfold RECLAIM_AGE in *. lia. }
  pose proof (fold_max3 g a1 a2 a3 Hg R1 R2 R3 L1 L2 L3) as HM.
  rewrite Hcs in *. rewrite HM in *.
  set (M := Z.max (decode g a1) (Z.max (decode g a2) (decode g a3))) in *.
  assert (E3 : decode (g + EXPIRE_AFTER) a3 = decode g a3).
  { unfold decode, EXPIRE_AFTER, RECLAIM_AGE in *. lia. }
  assert (HMr : g - 10 <= M <= g - 3).
  { subst M. unfold EXPIRE_AFTER, RECLAIM_AGE in *. lia. }
  split; [exact Rm|]. split; [unfold EXPIRE_AFTER; lia|].
  rewrite reclaim_now_threshold by (try assumption; unfold EXPIRE_AFTER; lia).
  apply Z.leb_le. rewrite decode_exact by (unfold EXPIRE_AFTER; lia). unfold EXPIRE_AFTER, RECLAIM_AGE. lia.
Qed.

(* ---- (C) of RcCascadeP.v again, this time saying WHICH word is written into the re-deferred node *)
Theorem cascade_cap_stamp t s x a pre h ts d K oa lk oh :
  gett s t = Some x -> frames x = FDispEnter a d :: K ->
  0 <= d -> d + Z.of_nat (length pre) + 1 = DEPTH_CAP -> epoch_ok (G s) ->
  geto s a = Some oa -> head_ok (G s) d (oword oa) -> links oa = [lk; null_link] ->
  seg s lk pre (h, ts) -> NoDup (a :: pre ++ [h]) ->
  h <> O -> old (G s) ts -> geto s h = Some oh -> wordp (oword oh) -> strong (oword oh) = 1 ->
  exists n s' ne, iter_micro n s t = s' /\
    (forall o, In o (a :: pre) -> exists ob, geto s' o = Some ob /\ gone ob) /\
    old (G s) ne /\
    geto s' h = Some (with_word oh (dec_word (G s) ne ts (oword oh))) /\
    pending s' = pending s ++ [{| pk := KDestruct; po := h; pG := G s; pwit := witnesses s |}] /\
    footprint s s' t x K (a :: pre ++ [h]).
Proof.
  intros Hg Hf Hd0 Hd Hep Ho Hh Hl Hseg Hnd Hh0 Hts Hoh Hwh Hsh.
  destruct (NoDup_snoc (a :: pre) h Hnd) as [Hnd1 Hhn].
  destruct (down t pre s x a d K oa lk (h, ts) Hg Hf Hd0 ltac:(lia) Hep Ho Hh Hl Hseg Hnd1)
    as (n1 & s1 & U & ne & Hn1 & Hrun1 & Hu1 & HU & HlU & Hne & Hgone).
  pose proof (upd_gett _ _ _ _ _ _ Hu1 Hg) as Hg1.
  assert (Hoh1 : geto s1 h = Some oh) by (rewrite (u_objs _ _ _ _ _ _ Hu1); assumption).
  destruct (child_dec s1 t _ h ts _ ne (G s) [null_link] (U ++ K) oh Hg1 eq_refl Hh0 Hoh1 Hwh ltac:(lia))
    as (s2 & Hrun2 & Hu2 & Hh2).
  rewrite Hsh in Hu2. cbn [Z.eqb Pos.eqb] in Hu2.
  rewrite (u_G _ _ _ _ _ _ Hu1) in Hu2, Hh2.
  pose proof (upd_gett _ _ _ _ _ _ Hu2 Hg1) as Hg2. rewrite with_frames_idem in Hg2.
  set (f := FKids (d + Z.of_nat (length pre)) ne (G s) [null_link]) in *.
  assert (Hu12 : upd s s2 t x (FDispEnter h (d + Z.of_nat (length pre) + 1) :: f :: U ++ K) (a :: pre ++ [h])).
  { eapply upd_trans with (L2 := [h]); [exact Hu1|exact Hu2| |].
    - intros o Hi. change (a :: pre ++ [h]) with ((a :: pre) ++ [h]). apply in_or_app. left. exact Hi.
    - intros o Hi. change (a :: pre ++ [h]) with ((a :: pre) ++ [h]). apply in_or_app. right. exact Hi. }
  set (x2 := with_frames x (FDispEnter h (d + Z.of_nat (length pre) + 1) :: f :: U ++ K)) in *.
  set (s3 := sett (defer s2 KDestruct h) t (with_frames x2 (f :: U ++ K))).
  assert (Hrun3 : iter_micro 1 s2 t = s3).
  { eapply run_step; [|reflexivity]. rewrite (micro_enter s2 t x2 h _ (f :: U ++ K) Hg2 eq_refl).
    replace (d + Z.of_nat (length pre) + 1 >=? DEPTH_CAP) with true by lia. reflexivity. }
  assert (Hg3 : gett s3 t = Some (with_frames x2 (f :: U ++ K))).
  { unfold s3. eapply gett_sett_same. change (gett (defer s2 KDestruct h) t) with (gett s2 t). exact Hg2. }
  assert (HU' : Forall unwind (f :: U)) by (constructor; [do 3 eexists; reflexivity|exact HU]).
  destruct (up t (f :: U) s3 _ K Hg3 eq_refl HU') as (s4 & Hrun4 & Hu4).
  assert (Hobj : forall o, geto s4 o = geto s2 o).
  { intros o. rewrite (u_objs _ _ _ _ _ _ Hu4) by (intros []). reflexivity. }
  exists (n1 + 3 + 1 + 2 * length (f :: U))%nat, s4, ne.
  split.
  { rewrite !iter_add, Hrun1, Hrun2, Hrun3. exact Hrun4. }
  split.
  { intros o Hi. destruct (Hgone o Hi) as (ob & Hob & Hgo). exists ob. split; [|exact Hgo].
    rewrite Hobj. rewrite (u_objs _ _ _ _ _ _ Hu2); [exact Hob|]. intros [<-|[]]. contradiction. }
  split; [exact Hne|].
  split. { rewrite Hobj. exact Hh2. }
  split.
  { rewrite (u_pending _ _ _ _ _ _ Hu4). unfold s3, defer. cbn [pending sett set_pending].
    rewrite (u_pending _ _ _ _ _ _ Hu12), (u_G _ _ _ _ _ _ Hu12), (upd_witnesses _ _ _ _ _ _ Hg Hu12). reflexivity. }
  split. { rewrite (upd_gett _ _ _ _ _ _ Hu4 Hg3). reflexivity. }
  split. { rewrite (u_G _ _ _ _ _ _ Hu4). apply (u_G _ _ _ _ _ _ Hu12). }
  split. { rewrite (u_err _ _ _ _ _ _ Hu4). apply (u_err _ _ _ _ _ _ Hu12). }
  split. { rewrite (u_cells _ _ _ _ _ _ Hu4). apply (u_cells _ _ _ _ _ _ Hu12). }
  split. { intros o Hn. rewrite Hobj. apply (u_objs _ _ _ _ _ _ Hu12). exact Hn. }
  intros t' Hn. rewrite (upd_gett_other _ _ _ _ _ _ _ Hu4 Hn). unfold s3.
  rewrite gett_sett_other by congruence. change (gett (defer s2 KDestruct h) t') with (gett s2 t').
  apply (upd_gett_other _ _ _ _ _ _ _ Hu12 Hn).
Qed.

(* ---- the frames around the cascade: one micro step each *)
Lemma micro_may s t x K : gett s t = Some x -> frames x = FMay :: K -> inclosure x = false ->
  micro s t [] = Some (sett s t (with_frames x (FAwait :: FMay :: K)), []).
Proof. intros Hg Hf Hi. unfold micro. rewrite Hg, Hf, Hi. reflexivity. Qed.

(* the deferred try_destruct of h starts: the oracle record is [113; h; _]; the model takes the pending entry and lets the
   epoch layer reach pG + EXPIRE_AFTER *)
Lemma micro_await s t x K h p rest z : gett s t = Some x -> frames x = FAwait :: K ->
  take_pending (pending s) KDestruct h = Some (p, rest) ->
  micro s t [113; zo h; z] =
    Some (sett (see_epoch (set_pending s rest) (pG p + EXPIRE_AFTER)) t
            (with_frames (with_inclosure x true) (FTD113 h :: FEndClosure :: K)), []).
Proof.
  intros Hg Hf Ht. unfold micro. rewrite Hg, Hf. cbv beta iota zeta.
  unfold nat_of, zo. rewrite Nat2Z.id, Ht. reflexivity.
Qed.

Lemma micro_td113 s t x h K ob : gett s t = Some x -> frames x = FTD113 h :: K -> geto s h = Some ob ->
  strong (oword ob) = 0 ->
  micro s t [] = Some (sett s t (with_frames x (FTD114 h (oword ob) :: K)), [113; zo h; 0; 1013; zo h; oword ob]).
Proof. intros Hg Hf Ho Hs. unfold micro. rewrite Hg, Hf, Ho. cbv beta iota zeta. rewrite Hs. reflexivity. Qed.

Lemma micro_td114 s t x h w K ob : gett s t = Some x -> frames x = FTD114 h w :: K -> geto s h = Some ob ->
  oword ob = w ->
  micro s t [] = Some (sett (seto s h (with_word ob (with_destructed w true))) t (with_frames x (FDispEnter h 0 :: K)),
                       [114; zo h; w]).
Proof. intros Hg Hf Ho Hw. unfold micro. rewrite Hg, Hf, Ho. cbv beta iota zeta. rewrite Hw, Z.eqb_refl. reflexivity. Qed.

Lemma micro_endclosure s t x K : gett s t = Some x -> frames x = FEndClosure :: K ->
  micro s t [] = Some (sett s t (with_frames (with_inclosure x false) K), []).
Proof. intros Hg Hf. unfold micro. rewrite Hg, Hf. reflexivity. Qed.

(* ---- chains of any length *)
Definition capn : nat := Z.to_nat DEPTH_CAP.
Lemma capn_Z : Z.of_nat capn = DEPTH_CAP.
Proof. unfold capn. apply Z2Nat.id. unfold DEPTH_CAP. lia. Qed.
Lemma capn_pos : (0 < capn)%nat.
Proof. pose proof capn_Z as H. unfold DEPTH_CAP in H. lia. Qed.

(* [chn s g d lk l]: following link [lk] one meets the nodes [l], each owned only by its predecessor's link, links
   [next; null], the last link null.  The pass that reaches the first node of [l] runs at epoch [g] and can destruct [d]
   more nodes before it hits DEPTH_CAP; these nodes and the links to them are old at [g].  The node met with d = 0 is the
   one that pass re-defers: it is old at [g] and at [g + EXPIRE_AFTER] (the epoch of the next pass), and what follows it is a
   chain for that next pass, which destructs it at depth 0 and DEPTH_CAP - 1 nodes after it. *)
Fixpoint chn (s : state) (g : Z) (d : nat) (lk : link) (l : list nat) : Prop :=
  match l with
  | [] => lk = null_link
  | b :: r =>
      fst lk = b /\ b <> O /\ old g (snd lk) /\
      exists ob lk', geto s b = Some ob /\ nodeok g ob 1 /\ links ob = [lk'; null_link] /\
        match d with
        | S d' => chn s g d' lk' r
        | O => epoch_ok (g + EXPIRE_AFTER) /\ old (g + EXPIRE_AFTER) (epoch (oword ob)) /\
               chn s (g + EXPIRE_AFTER) (pred capn) lk' r
        end
  end.

Lemma chn_upd s s' : forall l g d lk, (forall o, In o l -> geto s' o = geto s o) -> chn s g d lk l -> chn s' g d lk l.
Proof.
  induction l as [|b r IH]; intros g d lk Hgo H; [exact H|].
  destruct H as (H1 & H2 & H3 & ob & lk' & H4 & H5 & H6 & H7).
  cbn [chn]. split; [exact H1|]. split; [exact H2|]. split; [exact H3|].
  exists ob, lk'. split; [rewrite Hgo; [exact H4 | left; reflexivity]|]. split; [exact H5|]. split; [exact H6|].
  assert (Hgo' : forall o, In o r -> geto s' o = geto s o) by (intros o Ho; apply Hgo; right; exact Ho).
  destruct d as [|d'].
  - destruct H7 as (E1 & E2 & E3). split; [exact E1|]. split; [exact E2|]. apply IH; assumption.
  - apply IH; assumption.
Qed.

(* at most d nodes: the pass destructs them all *)
Lemma chn_short s : forall l d lk, (length l <= d)%nat -> chn s (G s) d lk l -> seg s lk l null_link.
Proof.
  induction l as [|b r IH]; intros d lk Hlen H; [exact H|].
  destruct H as (H1 & H2 & H3 & ob & lk' & H4 & H5 & H6 & H7).
  cbn [length] in Hlen. destruct d as [|d']; [lia|].
  cbn [seg]. split; [exact H1|]. split; [exact H2|]. split; [exact H3|].
  exists ob, lk'. split; [exact H4|]. split; [exact H5|]. split; [exact H6|]. apply (IH d'); [lia|exact H7].
Qed.

(* more than d nodes: d of them are destructed, the next is re-deferred *)
Lemma chn_long s : forall d l lk, (d < length l)%nat -> chn s (G s) d lk l ->
  exists pre h post ts oh lk',
    l = pre ++ h :: post /\ length pre = d /\ seg s lk pre (h, ts) /\ h <> O /\ old (G s) ts /\
    geto s h = Some oh /\ nodeok (G s) oh 1 /\ links oh = [lk'; null_link] /\
    epoch_ok (G s + EXPIRE_AFTER) /\ old (G s + EXPIRE_AFTER) (epoch (oword oh)) /\
    chn s (G s + EXPIRE_AFTER) (pred capn) lk' post.
Proof.
  induction d as [|d IH]; intros l lk Hlen H.
  - destruct l as [|b r]; [cbn [length] in Hlen; lia|].
    destruct H as (H1 & H2 & H3 & ob & lk' & H4 & H5 & H6 & E1 & E2 & E3).
    exists [], b, r, (snd lk), ob, lk'. cbn [app length seg].
    split; [reflexivity|]. split; [reflexivity|]. split; [destruct lk; cbn [fst snd] in *; subst; reflexivity|].
    repeat (split; [assumption|]). assumption.
  - destruct l as [|b r]; [cbn [length] in Hlen; lia|].
    destruct H as (H1 & H2 & H3 & ob & lk' & H4 & H5 & H6 & H7).
    cbn [length] in Hlen.
    destruct (IH r lk' ltac:(lia) H7) as (pre & h & post & ts & oh & lk2 & A1 & A2 & A3 & A4).
    exists (b :: pre), h, post, ts, oh, lk2. cbn [app length seg].
    split; [rewrite A1; reflexivity|]. split; [rewrite A2; reflexivity|].
    split; [|exact A4].
    split; [exact H1|]. split; [exact H2|]. split; [exact H3|].
    exists ob, lk'. split; [exact H4|]. split; [exact H5|]. split; [exact H6|]. exact A3.
Qed.

(* ---- what a pass leaves alone *)
Definition sim (s s' : state) (t : nat) (L : list nat) : Prop :=
  err s' = err s /\ cells s' = cells s /\ (forall o, ~ In o L -> geto s' o = geto s o) /\
  (forall t', t' <> t -> gett s' t' = gett s t').

Lemma sim_trans s s1 s2 t L1 L2 L : sim s s1 t L1 -> sim s1 s2 t L2 -> incl L1 L -> incl L2 L -> sim s s2 t L.
Proof.
  intros (A1 & A2 & A3 & A4) (B1 & B2 & B3 & B4) I1 I2. split; [congruence|]. split; [congruence|]. split.
  - intros o Hn. rewrite B3, A3; auto.
  - intros t' Hn. rewrite B4, A4; auto.
Qed.

Lemma footprint_sim s s' t x K L : footprint s s' t x K L -> sim s s' t L.
Proof. intros (_ & _ & A2 & A3 & A4 & A5). split; [exact A2|]. split; [exact A3|]. split; assumption. Qed.

Lemma unpinned_sett s t x x' : unpinned s -> gett s t = Some x -> incs x' = false -> unpinned (sett s t x').
Proof.
  intros Hu Hg Hi q y Hy. unfold gett, sett in Hy. cbn [threads] in Hy.
  destruct (nth_set_nth_inv _ _ _ _ _ Hy) as [[_ ->]|[_ Hq]]; [exact Hi | exact (Hu q y Hq)].
Qed.

Lemma unpinned_sim s s' t x x' : unpinned s -> gett s t = Some x -> gett s' t = Some x' -> incs x' = false ->
  (forall t', t' <> t -> gett s' t' = gett s t') -> unpinned s'.
Proof.
  intros Hu Hg Hg' Hi Ho q y Hy. destruct (Nat.eq_dec q t) as [->|Hn].
  - rewrite Hg' in Hy. inversion Hy; subst. exact Hi.
  - rewrite (Ho q Hn) in Hy. exact (Hu q y Hy).
Qed.

(* ---- the beginning of a pass: FMay, FAwait (the grace period), FTD113, FTD114 *)
Definition pass_head (t h : nat) : list (nat * list Z) := [(t, []); (t, [113; zo h; 0]); (t, []); (t, [])].

Lemma pass_prefix t s x K h p rest oh :
  gett s t = Some x -> frames x = FMay :: K -> inclosure x = false -> unpinned s ->
  take_pending (pending s) KDestruct h = Some (p, rest) ->
  geto s h = Some oh -> strong (oword oh) = 0 ->
  exists s3, mrun s (pass_head t h) = s3 /\ starts s (pass_head t h) = 1%nat /\
    G s3 = Z.max (G s) (pG p + EXPIRE_AFTER) /\
    gett s3 t = Some (with_frames (with_inclosure x true) (FDispEnter h 0 :: FEndClosure :: FMay :: K)) /\
    geto s3 h = Some (with_word oh (with_destructed (oword oh) true)) /\
    pending s3 = rest /\ sim s s3 t [h].
Proof.
  intros Hg Hf Hinc Hu Htp Ho Hs.
  (* FMay *)
  set (x1 := with_frames x (FAwait :: FMay :: K)).
  set (s1 := sett s t x1).
  assert (M1 : micro s t [] = Some (s1, [])) by (apply micro_may; assumption).
  assert (Hg1 : gett s1 t = Some x1) by (eapply gett_sett_same; exact Hg).
  (* FAwait *)
  set (se := see_epoch (set_pending s1 rest) (pG p + EXPIRE_AFTER)).
  set (x2 := with_frames (with_inclosure x1 true) (FTD113 h :: FEndClosure :: FMay :: K)).
  set (s2 := sett se t x2).
  assert (M2 : micro s1 t [113; zo h; 0] = Some (s2, [])).
  { apply (micro_await s1 t x1 (FMay :: K) h p rest 0 Hg1 eq_refl). exact Htp. }
  assert (Hu1 : unpinned (set_pending s1 rest)).
  { apply (unpinned_sett s t x x1 Hu Hg). exact (Hu t x Hg). }
  destruct (see_epoch_unpinned (set_pending s1 rest) (pG p + EXPIRE_AFTER) Hu1) as (E1 & E2 & E3 & E4 & E5 & E6).
  fold se in E1, E2, E3, E4, E5, E6. cbn [G objs cells threads pending err set_pending sett s1] in E1, E2, E3, E4, E5, E6.
  assert (Hge : gett se t = Some x1).
  { unfold gett. rewrite E4. eapply nth_error_set_nth_same. exact Hg. }
  assert (Hoe : forall o, geto se o = geto s o).
  { intros [|i]; [reflexivity|]. unfold geto. rewrite E2. reflexivity. }
  assert (Hg2 : gett s2 t = Some x2) by (eapply gett_sett_same; exact Hge).
  (* FTD113 *)
  set (x3 := with_frames x2 (FTD114 h (oword oh) :: FEndClosure :: FMay :: K)).
  set (s3 := sett s2 t x3).
  assert (M3 : micro s2 t [] = Some (s3, [113; zo h; 0; 1013; zo h; oword oh])).
  { apply (micro_td113 s2 t x2 h (FEndClosure :: FMay :: K) oh Hg2 eq_refl); [|exact Hs].
    unfold s2. rewrite geto_sett, Hoe. exact Ho. }
  assert (Hg3 : gett s3 t = Some x3) by (eapply gett_sett_same; exact Hg2).
  (* FTD114 *)
  set (oh' := with_word oh (with_destructed (oword oh) true)).
  set (x4 := with_frames x3 (FDispEnter h 0 :: FEndClosure :: FMay :: K)).
  set (s4 := sett (seto s3 h oh') t x4).
  assert (Ho3 : geto s3 h = Some oh).
  { unfold s3, s2. rewrite !geto_sett, Hoe. exact Ho. }
  assert (M4 : micro s3 t [] = Some (s4, [114; zo h; oword oh])).
  { apply (micro_td114 s3 t x3 h (oword oh) (FEndClosure :: FMay :: K) oh Hg3 eq_refl Ho3 eq_refl). }
  exists s4. split.
  { unfold pass_head. eapply mrun_step; [exact M1|]. eapply mrun_step; [exact M2|].
    eapply mrun_step; [exact M3|]. eapply mrun_step; [exact M4|]. reflexivity. }
  split.
  { unfold pass_head. rewrite (starts_step _ _ _ _ _ _ M1), (starts_step _ _ _ _ _ _ M2),
      (starts_step _ _ _ _ _ _ M3), (starts_step _ _ _ _ _ _ M4).
    unfold top_is_await. rewrite Hg, Hf, Hg1. cbn [starts_rec frames x1 with_frames andb starts].
    rewrite !andb_false_r. reflexivity. }
  split.
  { unfold s4. rewrite G_sett, G_seto. unfold s3, s2. rewrite !G_sett. exact E1. }
  split.
  { unfold s4. erewrite gett_sett_same; [reflexivity|]. rewrite gett_seto. exact Hg3. }
  split.
  { unfold s4. rewrite geto_sett. eapply geto_seto_same. exact Ho3. }
  split.
  { unfold s4. destruct h; exact E5. }
  split; [|split; [|split]].
  - unfold s4. destruct h; exact E6.
  - unfold s4. destruct h; exact E3.
  - intros o Hn. unfold s4. rewrite geto_sett. rewrite geto_seto_other by (intros ->; apply Hn; left; reflexivity).
    unfold s3, s2. rewrite !geto_sett. apply Hoe.
  - intros t' Hn. unfold s4. rewrite gett_sett_other by congruence. rewrite gett_seto.
    unfold s3. rewrite gett_sett_other by congruence. unfold s2. rewrite gett_sett_other by congruence.
    unfold gett. rewrite E4. apply nth_error_set_nth_other. congruence.
Qed.

(* ---- the end of a pass: FEndClosure *)
Lemma pass_suffix t s y K' : gett s t = Some y -> frames y = FEndClosure :: K' ->
  exists s', mrun s [(t, [])] = s' /\ starts s [(t, [])] = O /\ G s' = G s /\ pending s' = pending s /\
    gett s' t = Some (with_frames (with_inclosure y false) K') /\ (forall o, geto s' o = geto s o) /\ sim s s' t [].
Proof.
  intros Hg Hf. pose proof (micro_endclosure s t y K' Hg Hf) as M.
  eexists. split; [eapply mrun_step; [exact M|reflexivity]|].
  split. { rewrite (starts_step _ _ _ _ _ _ M). cbn [starts_rec starts]. rewrite andb_false_r. reflexivity. }
  split; [reflexivity|]. split; [reflexivity|].
  split; [eapply gett_sett_same; exact Hg|]. split; [reflexivity|].
  split; [reflexivity|]. split; [reflexivity|]. split; [reflexivity|].
  intros t' Hn. apply gett_sett_other. congruence.
Qed.

Lemma thr_back x K A B : frames x = FMay :: K -> inclosure x = false ->
  with_frames (with_inclosure (with_frames (with_frames (with_inclosure x true) A) B) false) (FMay :: K) = x.
Proof. intros Hf Hi. destruct x. cbn in Hf, Hi. subst. reflexivity. Qed.

Definition only (t : nat) (sched : list (nat * list Z)) : Prop := Forall (fun e => fst e = t) sched.

Lemma only_pass t h n : only t (pass_head t h ++ repeat (t, []) n ++ [(t, [])]).
Proof.
  unfold only. rewrite !Forall_app. split; [repeat constructor|]. split; [|repeat constructor].
  apply Forall_forall. intros e He. apply repeat_spec in He. subst e. reflexivity.
Qed.

(* ---- a whole pass on a chain of at most DEPTH_CAP nodes: everything is destructed, nothing is deferred *)
Lemma pass_full t s x K h p rest oh lk l :
  gett s t = Some x -> frames x = FMay :: K -> inclosure x = false -> unpinned s ->
  take_pending (pending s) KDestruct h = Some (p, rest) ->
  let g := Z.max (G s) (pG p + EXPIRE_AFTER) in
  epoch_ok g ->
  geto s h = Some oh -> wordp (oword oh) -> strong (oword oh) = 0 -> weaked (oword oh) = false ->
  old g (epoch (oword oh)) -> links oh = [lk; null_link] ->
  chn s g (pred capn) lk l -> (length l <= pred capn)%nat -> NoDup (h :: l) ->
  exists sched s', mrun s sched = s' /\ only t sched /\ starts s sched = 1%nat /\
    (forall o, In o (h :: l) -> exists ob, geto s' o = Some ob /\ gone ob) /\
    pending s' = rest /\ G s' = g /\ gett s' t = Some x /\ sim s s' t (h :: l).
Proof.
  intros Hg Hf Hinc Hu Htp g Hep Ho Hw Hs Hwk Hold Hl Hch Hlen Hnd.
  destruct (pass_prefix t s x K h p rest oh Hg Hf Hinc Hu Htp Ho Hs) as (s3 & R3 & S3 & G3 & T3 & O3 & P3 & Sim3).
  fold g in G3.
  assert (Hhl : ~ In h l) by (inversion Hnd; assumption).
  assert (Hch3 : chn s3 (G s3) (pred capn) lk l).
  { rewrite G3. apply (chn_upd s); [|exact Hch]. intros o Hi. destruct Sim3 as (_ & _ & Hob & _). apply Hob.
    intros [<-|[]]. contradiction. }
  pose proof (chn_short s3 l (pred capn) lk Hlen Hch3) as Hseg.
  destruct (destr_fields (oword oh) Hw) as (Hw' & Hd' & Hwk' & He' & Hs').
  set (x3 := with_frames (with_inclosure x true) (FDispEnter h 0 :: FEndClosure :: FMay :: K)) in *.
  assert (HlenZ : Z.of_nat (length (h :: l)) <= DEPTH_CAP).
  { rewrite <- capn_Z. pose proof capn_pos. cbn [length]. lia. }
  destruct (cascade_full t s3 x3 h l (FEndClosure :: FMay :: K) _ lk T3 eq_refl HlenZ ltac:(rewrite G3; exact Hep) O3
              Hw' Hd' ltac:(cbn [with_word oword]; congruence) ltac:(cbn [with_word oword]; rewrite G3, He'; exact Hold) Hl Hseg Hnd)
    as (n & s4 & _ & R4 & Gone4 & P4 & F4).
  pose proof F4 as (T4 & G4 & _).
  destruct (pass_suffix t s4 _ (FMay :: K) T4 eq_refl) as (s5 & R5 & S5 & G5 & P5 & T5 & O5 & Sim5).
  exists (pass_head t h ++ repeat (t, []) n ++ [(t, [])]), s5.
  split. { rewrite !mrun_app, R3, <- iter_mrun, R4. exact R5. }
  split; [apply only_pass|].
  split. { rewrite !starts_app, S3, R3, starts_silent, <- iter_mrun, R4, S5. reflexivity. }
  split. { intros o Hi. destruct (Gone4 o Hi) as (ob & Hob & Hgo). exists ob. rewrite O5. split; assumption. }
  split; [congruence|]. split; [congruence|].
  split. { rewrite T5. f_equal. unfold x3. apply thr_back; assumption. }
  eapply sim_trans; [exact Sim3| |intros o [<-|[]]; left; reflexivity|apply incl_refl].
  eapply sim_trans; [apply (footprint_sim _ _ _ _ _ _ F4)|exact Sim5|apply incl_refl|intros o []].
Qed.

Lemma take_pending_snoc rest q h : pk q = KDestruct -> po q = h ->
  (forall r, In r rest -> pk r = KDestruct -> po r <> h) ->
  take_pending (rest ++ [q]) KDestruct h = Some (q, rest).
Proof.
  intros Hk Hp. induction rest as [|a rest IH]; intros Hno; cbn [app take_pending].
  - rewrite Hk, Hp, Nat.eqb_refl. reflexivity.
  - assert (Ha : pkind_eqb (pk a) KDestruct && Nat.eqb (po a) h = false).
    { destruct (pk a) eqn:Ek; [|reflexivity]. cbn [pkind_eqb andb]. apply Nat.eqb_neq.
      apply Hno; [left; reflexivity|exact Ek]. }
    rewrite Ha, IH; [reflexivity|]. intros r Hr. apply Hno. right. exact Hr.
Qed.

(* ---- a whole pass on a chain of more than DEPTH_CAP nodes: DEPTH_CAP nodes are destructed, the next one is
   re-deferred at epoch g with a stamp that is old at g + EXPIRE_AFTER, and what remains is a chain for the next pass *)
Lemma pass_cap t s x K h p rest oh lk l :
  gett s t = Some x -> frames x = FMay :: K -> inclosure x = false -> unpinned s ->
  take_pending (pending s) KDestruct h = Some (p, rest) ->
  (forall r, In r rest -> pk r = KDestruct -> ~ In (po r) l) ->
  let g := Z.max (G s) (pG p + EXPIRE_AFTER) in
  epoch_ok g ->
  geto s h = Some oh -> wordp (oword oh) -> strong (oword oh) = 0 -> weaked (oword oh) = false ->
  old g (epoch (oword oh)) -> links oh = [lk; null_link] ->
  chn s g (pred capn) lk l -> (pred capn < length l)%nat -> NoDup (h :: l) ->
  exists sched s' pre h' post p' oh' lk',
    l = pre ++ h' :: post /\ length pre = pred capn /\
    mrun s sched = s' /\ only t sched /\ starts s sched = 1%nat /\
    (forall o, In o (h :: pre) -> exists ob, geto s' o = Some ob /\ gone ob) /\
    take_pending (pending s') KDestruct h' = Some (p', rest) /\ pG p' = g /\ G s' = g /\
    gett s' t = Some x /\ sim s s' t (h :: pre ++ [h']) /\
    epoch_ok (g + EXPIRE_AFTER) /\
    geto s' h' = Some oh' /\ wordp (oword oh') /\ strong (oword oh') = 0 /\ weaked (oword oh') = false /\
    old (g + EXPIRE_AFTER) (epoch (oword oh')) /\ links oh' = [lk'; null_link] /\
    chn s' (g + EXPIRE_AFTER) (pred capn) lk' post.
Proof.
  intros Hg Hf Hinc Hu Htp Hrest g Hep Ho Hw Hs Hwk Hold Hl Hch Hlen Hnd.
  destruct (pass_prefix t s x K h p rest oh Hg Hf Hinc Hu Htp Ho Hs) as (s3 & R3 & S3 & G3 & T3 & O3 & P3 & Sim3).
  fold g in G3.
  assert (Hhl : ~ In h l) by (inversion Hnd; assumption).
  assert (Hch3 : chn s3 (G s3) (pred capn) lk l).
  { rewrite G3. apply (chn_upd s); [|exact Hch]. intros o Hi. destruct Sim3 as (_ & _ & Hob & _). apply Hob.
    intros [<-|[]]. contradiction. }
  destruct (chn_long s3 (pred capn) l lk Hlen Hch3)
    as (pre & h' & post & ts & oh1 & lk' & El & Lpre & Hseg & Hh0 & Hts & Oh1 & (Hw1 & Hs1 & Hwk1 & Hold1) & Hl1 & Hep' & Hold1' & Hch').
  rewrite G3 in Hts, Hold1, Hep', Hold1', Hch'.
  destruct (destr_fields (oword oh) Hw) as (Hw' & Hd' & Hwk' & He' & Hs').
  set (x3 := with_frames (with_inclosure x true) (FDispEnter h 0 :: FEndClosure :: FMay :: K)) in *.
  set (oh3 := with_word oh (with_destructed (oword oh) true)) in *.
  assert (HlenZ : 0 + Z.of_nat (length pre) + 1 = DEPTH_CAP).
  { rewrite <- capn_Z. pose proof capn_pos. lia. }
  assert (Hh3 : head_ok (G s3) 0 (oword oh3)).
  { unfold oh3. cbn [with_word oword]. rewrite G3. split; [exact Hw'|]. split; [congruence|].
    split; [rewrite He'; exact Hold|]. left. split; [reflexivity|exact Hd']. }
  assert (Hnd' : NoDup ((h :: pre ++ [h']) ++ post)).
  { cbn [app]. rewrite <- app_assoc. cbn [app]. rewrite <- El. exact Hnd. }
  destruct (NoDup_app_l _ _ Hnd') as [Hnd1 Hpost].
  destruct (cascade_cap_stamp t s3 x3 h pre h' ts 0 (FEndClosure :: FMay :: K) oh3 lk oh1 T3 eq_refl ltac:(lia) HlenZ
              ltac:(rewrite G3; exact Hep) O3 Hh3 Hl Hseg Hnd1 Hh0 ltac:(rewrite G3; exact Hts) Oh1 Hw1 Hs1)
    as (n & s4 & ne & R4 & Gone4 & Hne & Oh4 & P4 & F4).
  rewrite G3 in Hne, Oh4, P4.
  pose proof F4 as (T4 & G4 & _ & _ & Hobj4 & _).
  destruct (pass_suffix t s4 _ (FMay :: K) T4 eq_refl) as (s5 & R5 & S5 & G5 & P5 & T5 & O5 & Sim5).
  destruct (dec_fields (oword oh1) (child_stamp g ne ts (epoch (oword oh1))) Hw1 ltac:(lia)) as (A1 & A2 & A3 & A4 & A5).
  fold (dec_word g ne ts (oword oh1)) in A1, A2, A3, A4, A5.
  set (q := {| pk := KDestruct; po := h'; pG := g; pwit := witnesses s3 |}) in *.
  exists (pass_head t h ++ repeat (t, []) n ++ [(t, [])]), s5, pre, h', post, q,
    (with_word oh1 (dec_word g ne ts (oword oh1))), lk'.
  split; [exact El|]. split; [exact Lpre|].
  split. { rewrite !mrun_app, R3, <- iter_mrun, R4. exact R5. }
  split; [apply only_pass|].
  split. { rewrite !starts_app, S3, R3, starts_silent, <- iter_mrun, R4, S5. reflexivity. }
  split. { intros o Hi. destruct (Gone4 o Hi) as (ob & Hob & Hgo). exists ob. rewrite O5. split; assumption. }
  split.
  { rewrite P5, P4, P3. apply take_pending_snoc; [reflexivity|reflexivity|].
    intros r Hr Hk E. apply (Hrest r Hr Hk). rewrite E, El. apply in_or_app. right. left. reflexivity. }
  split; [reflexivity|]. split; [congruence|].
  split. { rewrite T5. f_equal. unfold x3. apply thr_back; assumption. }
  split.
  { eapply sim_trans; [exact Sim3| |intros o [<-|[]]; left; reflexivity|apply incl_refl].
    eapply sim_trans; [apply (footprint_sim _ _ _ _ _ _ F4)|exact Sim5|apply incl_refl|intros o []]. }
  split; [exact Hep'|].
  split; [rewrite O5; exact Oh4|]. cbn [with_word oword links].
  split; [exact A1|]. split; [lia|]. split; [congruence|].
  split. { rewrite A5. apply old_next; assumption. }
  split; [exact Hl1|].
  apply (chn_upd s3); [|exact Hch']. intros o Hi. rewrite O5. apply Hobj4. apply Hpost. exact Hi.
Qed.

Lemma NoDup_app_r {A} (l1 l2 : list A) : NoDup (l1 ++ l2) -> NoDup l2.
Proof. induction l1 as [|a l1 IH]; cbn [app]; intros H; [exact H|]. inversion H; subst. apply IH. assumption. Qed.

(* ---- any length: induction over the passes *)
Theorem chain_any_gen t : forall m l s x K h p rest oh lk,
  (length l <= m)%nat ->
  gett s t = Some x -> frames x = FMay :: K -> inclosure x = false -> unpinned s ->
  take_pending (pending s) KDestruct h = Some (p, rest) ->
  (forall r, In r rest -> pk r = KDestruct -> ~ In (po r) l) ->
  let g := Z.max (G s) (pG p + EXPIRE_AFTER) in
  epoch_ok g ->
  geto s h = Some oh -> wordp (oword oh) -> strong (oword oh) = 0 -> weaked (oword oh) = false ->
  old g (epoch (oword oh)) -> links oh = [lk; null_link] ->
  chn s g (pred capn) lk l -> NoDup (h :: l) ->
  exists sched s', mrun s sched = s' /\ only t sched /\ starts s sched = S (length l / capn) /\
    (forall o, In o (h :: l) -> exists ob, geto s' o = Some ob /\ gone ob) /\
    pending s' = rest /\ G s' = g + EXPIRE_AFTER * Z.of_nat (length l / capn) /\
    gett s' t = Some x /\ sim s s' t (h :: l).
Proof.
  induction m as [|m IH]; intros l s x K h p rest oh lk Hm Hg Hf Hinc Hu Htp Hrest g Hep Ho Hw Hs Hwk Hold Hl Hch Hnd.
  - (* at most one node after the head: one pass *)
    pose proof capn_pos as Hc.
    destruct (pass_full t s x K h p rest oh lk l Hg Hf Hinc Hu Htp Hep Ho Hw Hs Hwk Hold Hl Hch ltac:(lia) Hnd)
      as (sched & s' & R & On & S1 & Gone & P & HG & T & Sim).
    exists sched, s'. rewrite Nat.div_small by lia. fold g in HG.
    repeat (split; [assumption|]). split; [|split; assumption]. rewrite HG. cbn [Z.of_nat]. lia.
  - pose proof capn_pos as Hc.
    destruct (le_lt_dec (length l) (pred capn)) as [Hshort|Hlong].
    + destruct (pass_full t s x K h p rest oh lk l Hg Hf Hinc Hu Htp Hep Ho Hw Hs Hwk Hold Hl Hch Hshort Hnd)
        as (sched & s' & R & On & S1 & Gone & P & HG & T & Sim).
      exists sched, s'. rewrite Nat.div_small by lia. fold g in HG.
      repeat (split; [assumption|]). split; [|split; assumption]. rewrite HG. cbn [Z.of_nat]. lia.
    + destruct (pass_cap t s x K h p rest oh lk l Hg Hf Hinc Hu Htp Hrest Hep Ho Hw Hs Hwk Hold Hl Hch Hlong Hnd)
        as (sched1 & s1 & pre & h' & post & p' & oh' & lk' & El & Lpre & R1 & On1 & S1 & Gone1 & Tp1 & HpG & HG1 & T1 & Sim1 &
            Hep1 & Oh1 & Hw1 & Hs1 & Hwk1 & Hold1 & Hl1 & Hch1).
      fold g in HpG, HG1, Hep1, Hold1, Hch1.
      assert (Hlen : length l = (1 * capn + length post)%nat).
      { rewrite El, app_length. cbn [length]. lia. }
      assert (Eg : Z.max (G s1) (pG p' + EXPIRE_AFTER) = g + EXPIRE_AFTER).
      { rewrite HG1, HpG. unfold EXPIRE_AFTER. lia. }
      assert (Hu1 : unpinned s1).
      { apply (unpinned_sim s s1 t x x Hu Hg T1 (Hu t x Hg)). apply Sim1. }
      assert (Hrest1 : forall r, In r rest -> pk r = KDestruct -> ~ In (po r) post).
      { intros r Hr Hk Hi. apply (Hrest r Hr Hk). rewrite El. apply in_or_app. right. right. exact Hi. }
      assert (Hnd2 : NoDup ((h :: pre) ++ h' :: post)) by (cbn [app]; rewrite <- El; exact Hnd).
      pose proof (NoDup_app_r _ _ Hnd2) as Hnd1.
      destruct (NoDup_app_l _ _ Hnd2) as [_ Hdisj].
      pose proof (IH post s1 x K h' p' rest oh' lk' ltac:(lia) T1 Hf Hinc Hu1 Tp1 Hrest1) as IH1.
      cbv zeta in IH1. rewrite Eg in IH1.
      destruct (IH1 Hep1 Oh1 Hw1 Hs1 Hwk1 Hold1 Hl1 Hch1 Hnd1)
        as (sched2 & s2 & R2 & On2 & S2 & Gone2 & P2 & HG2 & T2 & Sim2).
      exists (sched1 ++ sched2), s2.
      rewrite Hlen, Nat.div_add_l by lia.
      split. { rewrite mrun_app, R1. exact R2. }
      split. { unfold only. rewrite Forall_app. split; assumption. }
      split. { rewrite starts_app, S1, R1, S2. lia. }
      split.
      { intros o Hi. rewrite El in Hi. change (h :: pre ++ h' :: post) with ((h :: pre) ++ h' :: post) in Hi.
        apply in_app_or in Hi. destruct Hi as [Hi|Hi]; [|apply Gone2; exact Hi].
        destruct (Gone1 o Hi) as (ob & Hob & Hgo). exists ob. split; [|exact Hgo].
        destruct Sim2 as (_ & _ & Hobj & _). rewrite Hobj; [exact Hob|]. intros Hi2. exact (Hdisj o Hi2 Hi). }
      split; [exact P2|].
      split. { rewrite HG2. rewrite Nat2Z.inj_add. unfold EXPIRE_AFTER. cbn [Z.of_nat Pos.of_succ_nat]. lia. }
      split; [exact T2|].
      eapply sim_trans; [exact Sim1|exact Sim2| |].
      * intros o Hi. rewrite El. change (h :: pre ++ h' :: post) with ((h :: pre) ++ h' :: post).
        change (h :: pre ++ [h']) with ((h :: pre) ++ [h']) in Hi. apply in_app_or in Hi. apply in_or_app.
        destruct Hi as [Hi|[<-|[]]]; [left; exact Hi|right; left; reflexivity].
      * intros o Hi. rewrite El. right. apply in_or_app. right. exact Hi.
Qed.
Print Assumptions chain_any_gen.

(* the abstract EBR invariants of RcEpochP.v survive every run; in particular every deferred function started above
   obeys [closure_grace] *)
Lemma mrun_eok sched : forall s, EOK s -> EOK (mrun s sched).
Proof.
  induction sched as [|[t rec] r IH]; intros s HI; cbn [mrun]; [exact HI|].
  destruct (micro s t rec) as [[s1 o1]|] eqn:Hm; [apply IH; eapply micro_eok; eauto | apply IH; exact HI].
Qed.

Lemma passes_ceil n : 1 <= n -> (n - 1) / DEPTH_CAP + 1 = (n + DEPTH_CAP - 1) / DEPTH_CAP.
Proof.
  intros _. replace (n + DEPTH_CAP - 1) with (n - 1 + 1 * DEPTH_CAP) by lia.
  rewrite Z.div_add by (unfold DEPTH_CAP; lia). reflexivity.
Qed.

(* ---- THE STATEMENT.  Thread t is at the point where deferred functions may start (FMay), outside any deferred function;
   no thread is inside a critical section; the try_destruct of the head h of a chain h :: l of n nodes is pending (entry p,
   deferred at epoch pG p).  g = the epoch at which its grace period is over.  The chain is in the shape of cascade_full /
   cascade_cap, block j (nodes j * DEPTH_CAP + 1 ... (j + 1) * DEPTH_CAP) being old w.r.t. g + j * EXPIRE_AFTER ([chn]).
   Then there is a schedule of thread t alone (with its oracle records) whose run destructs all n nodes and starts
   EXACTLY (n - 1) / DEPTH_CAP + 1 = ceil (n / DEPTH_CAP) deferred functions (one grace period each, one after the other:
   the entry of pass j + 1 is created during pass j), ends at epoch g + EXPIRE_AFTER * ((n - 1) / DEPTH_CAP), with the same
   pending list minus p, thread t back where it was, and nothing else touched. *)
Theorem chain_any_length t s x K h l p rest oh lk :
  gett s t = Some x -> frames x = FMay :: K -> inclosure x = false -> unpinned s ->
  take_pending (pending s) KDestruct h = Some (p, rest) ->
  (forall r, In r rest -> pk r = KDestruct -> ~ In (po r) l) ->
  let g := Z.max (G s) (pG p + EXPIRE_AFTER) in
  let n := Z.of_nat (length (h :: l)) in
  epoch_ok g ->
  geto s h = Some oh -> wordp (oword oh) -> strong (oword oh) = 0 -> weaked (oword oh) = false ->
  old g (epoch (oword oh)) -> links oh = [lk; null_link] ->
  chn s g (pred capn) lk l -> NoDup (h :: l) ->
  exists sched s',
    mrun s sched = s' /\ only t sched /\
    Z.of_nat (starts s sched) = (n - 1) / DEPTH_CAP + 1 /\
    (forall o, In o (h :: l) -> exists ob, geto s' o = Some ob /\ gone ob) /\
    pending s' = rest /\ G s' = g + EXPIRE_AFTER * ((n - 1) / DEPTH_CAP) /\
    gett s' t = Some x /\ err s' = err s /\ cells s' = cells s /\
    (forall o, ~ In o (h :: l) -> geto s' o = geto s o) /\ (forall t', t' <> t -> gett s' t' = gett s t') /\
    (EOK s -> EOK s').
Proof.
  intros Hg Hf Hinc Hu Htp Hrest g n Hep Ho Hw Hs Hwk Hold Hl Hch Hnd.
  destruct (chain_any_gen t (length l) l s x K h p rest oh lk (le_n _) Hg Hf Hinc Hu Htp Hrest Hep Ho Hw Hs Hwk Hold Hl Hch Hnd)
    as (sched & s' & R & On & S1 & Gone & P & HG & T & (Se & Sc & So & St)).
  assert (En : (n - 1) / DEPTH_CAP = Z.of_nat (length l / capn)).
  { rewrite Nat2Z.inj_div, capn_Z. f_equal. unfold n. cbn [length]. lia. }
  exists sched, s'. rewrite En.
  split; [exact R|]. split; [exact On|]. split; [rewrite S1; lia|].
  repeat (split; [assumption|]). intros HI. rewrite <- R. apply mrun_eok. exact HI.
Qed.
Print Assumptions chain_any_length.

(* ---- a decision procedure for the hypothesis [chn] (used for the non-vacuity example below) *)
Definition oldb (g e : Z) : bool := (0 <=? e) && (e <? 16) && (e <=? g + 2) && reclaim_now g e.
Definition wordpb (w : Z) : bool := (0 <=? w) && (w <? 2 ^ 64).
Definition epoch_okb (c : Z) : bool := (0 <=? c) && (c <? 2 ^ 62).
Definition link_eqb (a b : link) : bool := Nat.eqb (fst a) (fst b) && (snd a =? snd b).
Definition nodeokb (g : Z) (ob : obj) : bool :=
  wordpb (oword ob) && (strong (oword ob) =? 1) && negb (weaked (oword ob)) && oldb g (epoch (oword ob)).

Lemma oldb_ok g e : oldb g e = true -> old g e.
Proof.
  unfold oldb. intros H. apply andb_prop in H. destruct H as [H H4]. apply andb_prop in H. destruct H as [H H3].
  apply andb_prop in H. destruct H as [H1 H2]. apply Z.leb_le in H1, H3. apply Z.ltb_lt in H2.
  split; [lia|]. split; [exact H3|exact H4].
Qed.
Lemma wordpb_ok w : wordpb w = true -> wordp w.
Proof. unfold wordpb. intros H. apply andb_prop in H. destruct H as [H1 H2]. apply Z.leb_le in H1. apply Z.ltb_lt in H2. split; assumption. Qed.
Lemma epoch_okb_ok c : epoch_okb c = true -> epoch_ok c.
Proof. unfold epoch_okb. intros H. apply andb_prop in H. destruct H as [H1 H2]. apply Z.leb_le in H1. apply Z.ltb_lt in H2. split; assumption. Qed.
Lemma link_eqb_ok a b : link_eqb a b = true -> a = b.
Proof.
  unfold link_eqb. intros H. apply andb_prop in H. destruct H as [H1 H2]. apply Nat.eqb_eq in H1. apply Z.eqb_eq in H2.
  destruct a, b. cbn [fst snd] in *. subst. reflexivity.
Qed.
Lemma nodeokb_ok g ob : nodeokb g ob = true -> nodeok g ob 1.
Proof.
  unfold nodeokb. intros H. apply andb_prop in H. destruct H as [H H4]. apply andb_prop in H. destruct H as [H H3].
  apply andb_prop in H. destruct H as [H1 H2]. apply Z.eqb_eq in H2. apply negb_true_iff in H3.
  split; [apply wordpb_ok; exact H1|]. split; [exact H2|]. split; [exact H3|apply oldb_ok; exact H4].
Qed.

Fixpoint chnb (s : state) (g : Z) (d : nat) (lk : link) (l : list nat) : bool :=
  match l with
  | [] => link_eqb lk null_link
  | b :: r =>
      Nat.eqb (fst lk) b && negb (Nat.eqb b 0) && oldb g (snd lk) &&
      match geto s b with
      | Some ob =>
          nodeokb g ob &&
          match links ob with
          | [lk'; l2] =>
              link_eqb l2 null_link &&
              match d with
              | S d' => chnb s g d' lk' r
              | O => epoch_okb (g + EXPIRE_AFTER) && oldb (g + EXPIRE_AFTER) (epoch (oword ob)) &&
                     chnb s (g + EXPIRE_AFTER) (pred capn) lk' r
              end
          | _ => false
          end
      | None => false
      end
  end.

Lemma chnb_ok s : forall l g d lk, chnb s g d lk l = true -> chn s g d lk l.
Proof.
  induction l as [|b r IH]; intros g d lk H; cbn [chnb chn] in *.
  - apply link_eqb_ok. exact H.
  - apply andb_prop in H. destruct H as [H H4]. apply andb_prop in H. destruct H as [H H3].
    apply andb_prop in H. destruct H as [H1 H2]. apply Nat.eqb_eq in H1. apply negb_true_iff in H2. apply Nat.eqb_neq in H2.
    split; [exact H1|]. split; [exact H2|]. split; [apply oldb_ok; exact H3|].
    destruct (geto s b) as [ob|]; [|discriminate].
    apply andb_prop in H4. destruct H4 as [H5 H6].
    destruct (links ob) as [|lk' [|l2 [|]]] eqn:El; try discriminate.
    apply andb_prop in H6. destruct H6 as [H7 H8]. apply link_eqb_ok in H7. subst l2.
    exists ob, lk'. split; [reflexivity|]. split; [apply nodeokb_ok; exact H5|]. split; [exact El|].
    destruct d as [|d'].
    + apply andb_prop in H8. destruct H8 as [H8 H11]. apply andb_prop in H8. destruct H8 as [H9 H10].
      split; [apply epoch_okb_ok; exact H9|]. split; [apply oldb_ok; exact H10|]. apply IH. exact H11.
    + apply IH. exact H8.
Qed.

(* ---- non-vacuity: a chain of 1030 nodes (DEPTH_CAP + 6), built at epoch residues 95 (links) / 0 (stamps as allocated) /
   94 (the head, whose last owner went away at epoch 94: count 0, try_destruct deferred at epoch 97), global epoch 100.
   Pass 1 runs at epoch 100, pass 2 at epoch 103. *)
Require Import RcChain.

Definition any_thread : thr :=
  {| vars := []; gdepth := 0; ann := 0; serial := 0; inclosure := false; frames := [FMay]; prog := []; res := 0; resw := 0 |}.

Definition any_head (n : nat) (stl sth : Z) : obj :=
  with_word (chain_obj n 1 0 stl) (sub_strong (with_epoch (alloc_word 1) sth) 1).

Definition any_entry (g : Z) : pend := {| pk := KDestruct; po := 1; pG := g - EXPIRE_AFTER; pwit := [] |}.

Definition any_state (n : nat) (g stl sth : Z) : state :=
  {| G := g;
     objs := any_head n stl sth :: map (fun i => chain_obj n i 0 stl) (seq 2 (pred n));
     cells := []; threads := [any_thread]; pending := [any_entry g]; err := 0 |}.

Definition ex_n : nat := 1030.
Definition ex_state : state := any_state ex_n 100 95 94.
Definition ex_tail : list nat := seq 2 (pred ex_n).

Example ex_hyps :
  let s := ex_state in
  let g := Z.max (G s) (pG (any_entry 100) + EXPIRE_AFTER) in
  g = 100 /\
  gett s 0 = Some any_thread /\ frames any_thread = FMay :: [] /\ inclosure any_thread = false /\ unpinned s /\
  take_pending (pending s) KDestruct 1 = Some (any_entry 100, []) /\
  epoch_ok g /\
  geto s 1 = Some (any_head ex_n 95 94) /\ wordp (oword (any_head ex_n 95 94)) /\ strong (oword (any_head ex_n 95 94)) = 0 /\
  weaked (oword (any_head ex_n 95 94)) = false /\ old g (epoch (oword (any_head ex_n 95 94))) /\
  links (any_head ex_n 95 94) = [(2%nat, 15); null_link] /\
  chn s g (pred capn) (2%nat, 15) ex_tail /\ NoDup (1%nat :: ex_tail) /\
  Z.of_nat (length (1%nat :: ex_tail)) = 1030.
Proof.
  intros s g.
  split; [reflexivity|]. split; [reflexivity|]. split; [reflexivity|]. split; [reflexivity|].
  split. { intros t y Hy. destruct t as [|[|t]]; cbn in Hy; inversion Hy; reflexivity. }
  split; [reflexivity|].
  split; [apply epoch_okb_ok; vm_compute; reflexivity|].
  split; [vm_compute; reflexivity|].
  split; [apply wordpb_ok; vm_compute; reflexivity|].
  split; [vm_compute; reflexivity|]. split; [vm_compute; reflexivity|].
  split; [apply oldb_ok; vm_compute; reflexivity|].
  split; [vm_compute; reflexivity|].
  split; [apply chnb_ok; vm_compute; reflexivity|].
  split; [apply (seq_NoDup ex_n 1)|].
  vm_compute. reflexivity.
Qed.

(* the theorem applied to the example: 1030 nodes, (1030 - 1) / 1024 + 1 = 2 deferred functions *)
Example ex_two_passes :
  exists sched s', mrun ex_state sched = s' /\ starts ex_state sched = 2%nat /\
    (forall o, In o (1%nat :: ex_tail) -> exists ob, geto s' o = Some ob /\ gone ob) /\
    pending s' = [] /\ G s' = 103 /\ err s' = 0.
Proof.
  destruct ex_hyps as (Eg & H1 & H2 & H3 & H4 & H5 & H6 & H7 & H8 & H9 & H10 & H11 & H12 & H13 & H14 & H15).
  assert (Hrest : forall r, In r [] -> pk r = KDestruct -> ~ In (po r) ex_tail) by (intros r []).
  destruct (chain_any_length 0 ex_state any_thread [] 1%nat ex_tail (any_entry 100) [] _ _ H1 H2 H3 H4 H5 Hrest H6 H7 H8 H9 H10 H11 H12 H13 H14)
    as (sched & s' & R & _ & S & Gone & P & HG & _ & He & _).
  rewrite H15, Eg in *.
  exists sched, s'. split; [exact R|]. split; [|split; [exact Gone|split; [exact P|split]]].
  - change ((1030 - 1) / DEPTH_CAP + 1) with 2 in S. lia.
  - rewrite HG. reflexivity.
  - rewrite He. reflexivity.
Qed.

(* an independent cross-check by execution of an explicit schedule (11 * 1024 and 63 silent steps for the two cascades) *)
Definition ex_sched : list (nat * list Z) :=
  pass_head 0 1 ++ repeat (0%nat, []) (11 * 1024) ++ [(0%nat, [])] ++
  pass_head 0 1025 ++ repeat (0%nat, []) 63 ++ [(0%nat, [])].

Example ex_exec :
  let s' := mrun ex_state ex_sched in
  starts ex_state ex_sched = 2%nat /\
  count_dropped s' = 1030 /\ forallb (fun ob => dropped ob && freed ob && destructed (oword ob)) (objs s') = true /\
  pending s' = [] /\ err s' = 0 /\ G s' = 103 /\ option_map frames (gett s' 0) = Some [FMay].
Proof. vm_compute. repeat split; reflexivity. Qed.

(* after the first pass alone: exactly DEPTH_CAP nodes destructed, node 1025 re-deferred at epoch 100 with count 0 *)
Example ex_exec_pass1 :
  let s' := mrun ex_state (pass_head 0 1 ++ repeat (0%nat, []) (11 * 1024) ++ [(0%nat, [])]) in
  count_dropped s' = DEPTH_CAP /\ map (fun q => (po q, pG q)) (pending s') = [(1025%nat, 100)] /\ G s' = 100 /\
  option_map (fun ob => (strong (oword ob), destructed (oword ob))) (geto s' 1025) = Some (0, false) /\
  option_map frames (gett s' 0) = Some [FMay].
Proof. vm_compute. repeat split; reflexivity. Qed.

(* the number of passes against the quotient n / DEPTH_CAP of property C06 *)
Lemma passes_bounds n : 1 <= n -> n / DEPTH_CAP <= (n - 1) / DEPTH_CAP + 1 <= n / DEPTH_CAP + 1.
Proof. intros H. unfold DEPTH_CAP. Z.div_mod_to_equations. lia. Qed.

Print Assumptions old_next.
Print Assumptions cascade_cap_stamp.
Print Assumptions pass_full.
Print Assumptions pass_cap.
Print Assumptions chain_any_gen.
Print Assumptions chain_any_length.
Print Assumptions chnb_ok.
Print Assumptions ex_hyps.
Print Assumptions ex_two_passes.
Print Assumptions ex_exec.
Print Assumptions ex_exec_pass1.
Print Assumptions passes_bounds.
