(** * Proofs about the Michael-Scott queue model of Queue.v *)
From Coq Require Import ZArith List Bool Lia.
Require Import Queue.
Import ListNotations.
Open Scope Z_scope.

Set Implicit Arguments.

(** ** Heap lemmas *)

Lemma upd_length : forall h i nx, length (upd h i nx) = length h.
Proof.
  induction h as [|n r IH]; intros [|j] nx; cbn [upd length]; auto.
Qed.

Lemma nth_upd_same : forall h i nx, (i < length h)%nat ->
  nth i (upd h i nx) dummy = mkNode (value (nth i h dummy)) nx.
Proof.
  induction h as [|n r IH]; intros [|j] nx Hlt; cbn [length] in Hlt; try lia; cbn [upd nth].
  - reflexivity.
  - apply IH. lia.
Qed.

Lemma nth_upd_other : forall h i j nx, i <> j ->
  nth j (upd h i nx) dummy = nth j h dummy.
Proof.
  induction h as [|n r IH]; intros [|i] [|j] nx Hne; cbn [upd nth]; try reflexivity; try lia.
  apply IH. lia.
Qed.

Lemma nth_upd_value : forall h i j nx,
  value (nth j (upd h i nx) dummy) = value (nth j h dummy).
Proof.
  induction h as [|n r IH]; intros [|i] [|j] nx; cbn [upd nth value]; try reflexivity.
  apply IH.
Qed.

Lemma valof_set_next : forall h a nx x, valof (set_next h a nx) x = valof h x.
Proof. intros. unfold valof, getn, set_next. apply nth_upd_value. Qed.

Lemma nextof_set_next_same : forall h a nx, 0 <= a < Z.of_nat (length h) ->
  nextof (set_next h a nx) a = nx.
Proof.
  intros h a nx Ha. unfold nextof, getn, set_next.
  rewrite nth_upd_same by lia. reflexivity.
Qed.

Lemma nextof_set_next_other : forall h a nx x, 0 <= a -> 0 <= x -> x <> a ->
  nextof (set_next h a nx) x = nextof h x.
Proof.
  intros h a nx x Ha Hx Hne. unfold nextof, getn, set_next.
  rewrite nth_upd_other by lia. reflexivity.
Qed.

Lemma getn_app_old : forall h n x, 0 <= x < Z.of_nat (length h) ->
  getn (h ++ [n]) x = getn h x.
Proof. intros h n x Hx. unfold getn. apply app_nth1. lia. Qed.

Lemma getn_app_new : forall h n, getn (h ++ [n]) (Z.of_nat (length h)) = n.
Proof.
  intros h n. unfold getn. rewrite Nat2Z.id, app_nth2 by lia.
  rewrite Nat.sub_diag. reflexivity.
Qed.

Lemma getn_oob : forall h x, Z.of_nat (length h) <= x -> getn h x = dummy.
Proof. intros h x Hx. unfold getn. apply nth_overflow. lia. Qed.

Lemma nextof_oob : forall h x, Z.of_nat (length h) <= x -> nextof h x = 0.
Proof. intros h x Hx. unfold nextof. rewrite getn_oob by assumption. reflexivity. Qed.

(** ** Chains *)

(** [seg h x A y]: following [next] from [x] visits exactly the nodes [A] and arrives at [y]. *)
Fixpoint seg (h : list node) (x : Z) (A : list Z) (y : Z) : Prop :=
  match A with
  | [] => x = y
  | a :: A' => x = a /\ seg h (nextof h a) A' y
  end.

Lemma seg_app : forall h A B x y,
  seg h x (A ++ B) y <-> exists m, seg h x A m /\ seg h m B y.
Proof.
  induction A as [|a A IH]; intros B x y; cbn [app seg].
  - split.
    + intros H. exists x. auto.
    + intros [m [-> H]]. exact H.
  - split.
    + intros [-> H]. apply IH in H. destruct H as [m [H1 H2]]. exists m. auto.
    + intros [m [[-> H1] H2]]. split; [reflexivity|]. apply IH. exists m. auto.
Qed.

Lemma seg_frame : forall h h' A x y,
  (forall a, In a A -> nextof h' a = nextof h a) ->
  seg h x A y -> seg h' x A y.
Proof.
  induction A as [|a A IH]; intros x y Hf H; cbn [seg] in *; auto.
  destruct H as [-> H]. split; [reflexivity|].
  rewrite Hf by (left; reflexivity). apply IH; auto.
  intros b Hb. apply Hf. right. exact Hb.
Qed.

(** bounded traversal, used to *define* the abstract queue *)
Fixpoint walk (h : list node) (fuel : nat) (x : Z) : list Z :=
  match fuel with
  | O => []
  | S f => if x =? 0 then [] else x :: walk h f (nextof h x)
  end.

Lemma walk_seg : forall h A fuel x,
  seg h x A 0 -> (forall a, In a A -> a <> 0) -> (length A <= fuel)%nat ->
  walk h fuel x = A.
Proof.
  induction A as [|a A IH]; intros fuel x Hs Hnz Hlen; cbn [seg] in Hs.
  - subst x. destruct fuel; reflexivity.
  - destruct Hs as [-> Hs]. destruct fuel as [|f]; cbn [length] in Hlen; [lia|].
    cbn [walk]. destruct (Z.eqb_spec a 0) as [E|E].
    + exfalso. apply (Hnz a); [left; reflexivity | exact E].
    + f_equal. apply IH; auto.
      * intros b Hb. apply Hnz. right. exact Hb.
      * lia.
Qed.

(** ids / values of the nodes strictly after [head] *)
Definition absq_ids (s : state) : list Z :=
  walk (heap s) (length (heap s)) (nextof (heap s) (head s)).
Definition absq (s : state) : list Z := map (valof (heap s)) (absq_ids s).

(** ** The invariant on the shared state.
    [Lp] = nodes that were head before (in order), [Lq] = nodes strictly after
    the current head; the full chain from the sentinel is [Lp ++ head :: Lq]. *)
Definition fullL (s : state) (Lp Lq : list Z) : list Z := Lp ++ head s :: Lq.

Record sinv (s : state) (Lp Lq : list Z) : Prop := {
  si_fresh : fresh s = Z.of_nat (length (heap s));
  si_chain : seg (heap s) 1 (fullL s Lp Lq) 0;
  si_nodup : NoDup (fullL s Lp Lq);
  si_range : forall x, In x (fullL s Lp Lq) -> 0 < x < fresh s;
  si_tail  : In (tail s) (fullL s Lp Lq);
  si_unl   : forall x, 0 < x -> ~ In x (fullL s Lp Lq) -> nextof (heap s) x = 0
}.

Section Facts.
  Variables (s : state) (Lp Lq : list Z).
  Hypothesis HI : sinv s Lp Lq.

  Lemma chain_split : forall A x B, fullL s Lp Lq = A ++ x :: B ->
    seg (heap s) (nextof (heap s) x) B 0.
  Proof.
    intros A x B E. pose proof (si_chain HI) as Hc. rewrite E in Hc.
    apply seg_app in Hc. destruct Hc as [m [_ Hc]]. cbn [seg] in Hc. tauto.
  Qed.

  Lemma chain_split_cases : forall A x B, fullL s Lp Lq = A ++ x :: B ->
    (B = [] /\ nextof (heap s) x = 0) \/
    (exists B', B = nextof (heap s) x :: B' /\ nextof (heap s) x <> 0).
  Proof.
    intros A x B E. pose proof (chain_split _ _ _ E) as Hs.
    destruct B as [|b B']; cbn [seg] in Hs.
    - left. auto.
    - right. destruct Hs as [Hb _]. exists B'. split; [congruence|].
      assert (Hin : In b (fullL s Lp Lq)).
      { rewrite E. apply in_or_app. right. right. left. reflexivity. }
      apply (si_range HI) in Hin. lia.
  Qed.

  Lemma chain_next_in : forall x, In x (fullL s Lp Lq) -> nextof (heap s) x <> 0 ->
    In (nextof (heap s) x) (fullL s Lp Lq).
  Proof.
    intros x Hin Hnz. apply in_split in Hin. destruct Hin as [A [B E]].
    destruct (chain_split_cases _ _ _ E) as [[_ H0]|[B' [EB _]]]; [contradiction|].
    rewrite E, EB. apply in_or_app. right. right. left. reflexivity.
  Qed.

  Lemma chain_last : forall x, In x (fullL s Lp Lq) -> nextof (heap s) x = 0 ->
    exists A, fullL s Lp Lq = A ++ [x].
  Proof.
    intros x Hin H0. apply in_split in Hin. destruct Hin as [A [B E]].
    destruct (chain_split_cases _ _ _ E) as [[EB _]|[B' [_ Hnz]]]; [|contradiction].
    exists A. rewrite E, EB. reflexivity.
  Qed.

  Lemma chain_pre_next : forall x, In x Lp -> nextof (heap s) x <> 0.
  Proof.
    intros x Hin. apply in_split in Hin. destruct Hin as [A [B E]].
    assert (E' : fullL s Lp Lq = A ++ x :: (B ++ head s :: Lq)).
    { unfold fullL. rewrite E, <- app_assoc. reflexivity. }
    destruct (chain_split_cases _ _ _ E') as [[EB _]|[B' [_ Hnz]]]; [|exact Hnz].
    destruct B; discriminate EB.
  Qed.

  Lemma head_next_cases :
    (Lq = [] /\ nextof (heap s) (head s) = 0) \/
    (exists Lq', Lq = nextof (heap s) (head s) :: Lq' /\ nextof (heap s) (head s) <> 0).
  Proof. apply (chain_split_cases Lp (head s) Lq). reflexivity. Qed.

  Lemma in_full_head : In (head s) (fullL s Lp Lq).
  Proof. unfold fullL. apply in_or_app. right. left. reflexivity. Qed.

  Lemma in_full_pre : forall x, In x Lp \/ x = head s -> In x (fullL s Lp Lq).
  Proof.
    intros x [H|H]; unfold fullL; apply in_or_app; [left; exact H|right; left; auto].
  Qed.

  Lemma in_full_q : forall x, In x Lq -> In x (fullL s Lp Lq).
  Proof. intros x H. unfold fullL. apply in_or_app. right. right. exact H. Qed.

  Lemma full_length : (length (fullL s Lp Lq) <= length (heap s))%nat.
  Proof.
    rewrite <- (seq_length (length (heap s)) 0).
    rewrite <- (map_length Z.of_nat (seq 0 (length (heap s)))).
    apply NoDup_incl_length; [exact (si_nodup HI)|].
    intros x Hx. apply (si_range HI) in Hx. rewrite (si_fresh HI) in Hx.
    apply in_map_iff. exists (Z.to_nat x). split; [lia|].
    apply in_seq. lia.
  Qed.

  Lemma absq_ids_inv : absq_ids s = Lq.
  Proof.
    unfold absq_ids. apply walk_seg.
    - apply (chain_split Lp (head s) Lq). reflexivity.
    - intros a Ha. apply in_full_q in Ha. apply (si_range HI) in Ha. lia.
    - pose proof full_length as Hl. unfold fullL in Hl.
      rewrite app_length in Hl. cbn [length] in Hl. lia.
  Qed.

  Lemma absq_inv : absq s = map (valof (heap s)) Lq.
  Proof. unfold absq. rewrite absq_ids_inv. reflexivity. Qed.
End Facts.

(** ** Per-thread invariant *)
Definition pre (s : state) (Lp : list Z) (x : Z) : Prop := In x Lp \/ x = head s.
Definition unl (s : state) (Lp Lq : list Z) (x : Z) : Prop :=
  0 < x < fresh s /\ ~ In x (fullL s Lp Lq).

Definition pc_ok (s : state) (Lp Lq : list Z) (p : pc) : Prop :=
  match p with
  | PStart | PDone | POp | P35 | P40 _ => True
  | P30 new => unl s Lp Lq new
  | P31 onto new => In onto (fullL s Lp Lq) /\ unl s Lp Lq new
  | P32 onto n new => In n (fullL s Lp Lq) /\ unl s Lp Lq new
  | P33 onto new => In onto (fullL s Lp Lq) /\ unl s Lp Lq new
  | P34 onto new => In new (fullL s Lp Lq)
  | P36 h => pre s Lp h
  | P37 h n => pre s Lp h /\ n <> 0 /\ nextof (heap s) h = n
  | P38 h n => In n (fullL s Lp Lq)
  | P39 h n t => In n (fullL s Lp Lq)
  | P41 c h => pre s Lp h
  | P42 c h n => pre s Lp h /\ n <> 0 /\ nextof (heap s) h = n
  | P43 c h n => In n (fullL s Lp Lq)
  | P44 c h n t => In n (fullL s Lp Lq)
  end.

(** the not-yet-linked node owned by a pushing thread *)
Definition new_of (p : pc) : option Z :=
  match p with
  | P30 new | P31 _ new | P32 _ _ new | P33 _ new => Some new
  | _ => None
  end.

(** ** Relation between the shared state before and after a step.
    [lk] is the node linked into the chain by the step, if any. *)
Record rel (s : state) (Lp Lq : list Z) (s1 : state) (Lp' Lq' : list Z) (lk : option Z) : Prop := {
  r_fresh : fresh s <= fresh s1;
  r_incl : forall x, In x (fullL s Lp Lq) -> In x (fullL s1 Lp' Lq');
  r_rev : forall x, In x (fullL s1 Lp' Lq') -> In x (fullL s Lp Lq) \/ lk = Some x;
  r_pre : forall x, pre s Lp x -> pre s1 Lp' x;
  r_next : forall x, nextof (heap s) x <> 0 -> nextof (heap s1) x = nextof (heap s) x;
  r_val : forall x, 0 < x < fresh s -> valof (heap s1) x = valof (heap s) x;
  r_threads : threads s1 = threads s;
  r_front : forall h, pre s Lp h -> nextof (heap s) h = 0 -> nextof (heap s1) h <> 0 ->
            firstn 1 Lq' = [nextof (heap s1) h]
}.

Lemma rel_refl : forall s Lp Lq, rel s Lp Lq s Lp Lq None.
Proof.
  intros. constructor; auto; try lia; try (intros h _ H0 H1; contradiction).
Qed.

Lemma unl_mono : forall s Lp Lq s1 Lp' Lq' lk x,
  rel s Lp Lq s1 Lp' Lq' lk -> lk <> Some x -> unl s Lp Lq x -> unl s1 Lp' Lq' x.
Proof.
  intros s Lp Lq s1 Lp' Lq' lk x R Hlk [Hr Hn]. split.
  - pose proof (r_fresh R). lia.
  - intros Hin. apply (r_rev R) in Hin. destruct Hin as [Hin|Hin]; auto.
Qed.

Lemma pc_ok_mono : forall s Lp Lq s1 Lp' Lq' lk p,
  rel s Lp Lq s1 Lp' Lq' lk ->
  (forall x, new_of p = Some x -> lk <> Some x) ->
  pc_ok s Lp Lq p -> pc_ok s1 Lp' Lq' p.
Proof.
  intros s Lp Lq s1 Lp' Lq' lk p R Hlk Hok.
  assert (Hnx : forall h n, n <> 0 -> nextof (heap s) h = n -> nextof (heap s1) h = n).
  { intros h n Hn E. rewrite (r_next R); congruence. }
  destruct p; cbn [pc_ok new_of] in *; auto;
    repeat match goal with H : _ /\ _ |- _ => destruct H end;
    repeat split;
    try (eapply unl_mono; [exact R | apply Hlk; reflexivity | assumption]);
    try (apply (r_incl R); assumption);
    try (apply (r_pre R); assumption);
    try assumption; try (apply Hnx; assumption).
Qed.

(** ** Effect lemmas, one per kind of shared-memory update *)

Lemma sinv_threads : forall s Lp Lq ts, sinv s Lp Lq -> sinv (set_threads s ts) Lp Lq.
Proof. intros s Lp Lq ts [H1 H2 H3 H4 H5 H6]. constructor; assumption. Qed.

Lemma eff_tail : forall s Lp Lq a b, sinv s Lp Lq -> In b (fullL s Lp Lq) ->
  sinv (cas_tail s a b) Lp Lq /\ rel s Lp Lq (cas_tail s a b) Lp Lq None.
Proof.
  intros s Lp Lq a b HI Hb. unfold cas_tail. destruct (tail s =? a).
  - split.
    + destruct HI as [H1 H2 H3 H4 H5 H6]. constructor; assumption.
    + constructor; cbn [set_tail fresh heap head threads]; auto; try lia;
        try (intros h _ H0 H1; contradiction).
  - split; [assumption|apply rel_refl].
Qed.

Lemma eff_alloc : forall s Lp Lq v, sinv s Lp Lq ->
  let s1 := set_heap s (heap s ++ [mkNode v 0]) (fresh s + 1) in
  sinv s1 Lp Lq /\ rel s Lp Lq s1 Lp Lq None /\ unl s1 Lp Lq (fresh s) /\
  valof (heap s1) (fresh s) = v.
Proof.
  intros s Lp Lq v HI s1.
  pose proof (si_fresh HI) as Hf.
  pose proof (si_range HI _ (in_full_head s Lp Lq)) as Hpos.
  assert (Hold : forall x, 0 <= x < fresh s -> getn (heap s1) x = getn (heap s) x).
  { intros x Hx. unfold s1. cbn [set_heap heap]. apply getn_app_old. lia. }
  assert (Hnew : getn (heap s1) (fresh s) = mkNode v 0).
  { unfold s1. cbn [set_heap heap]. rewrite Hf. apply getn_app_new. }
  assert (Hnx : forall x, nextof (heap s1) x = nextof (heap s) x).
  { intros x. destruct (Z_lt_dec x 0) as [Hneg|Hnn].
    - unfold nextof, getn. replace (Z.to_nat x) with (Z.to_nat 0) by lia.
      fold (getn (heap s1) 0). fold (getn (heap s) 0). rewrite Hold by lia. reflexivity.
    - destruct (Z_lt_dec x (fresh s)) as [Hlt|Hge].
      + unfold nextof. rewrite Hold by lia. reflexivity.
      + destruct (Z.eq_dec x (fresh s)) as [->|Hne].
        * unfold nextof at 1. rewrite Hnew. cbn [next].
          symmetry. apply nextof_oob. lia.
        * rewrite !nextof_oob; auto; unfold s1; cbn [set_heap heap];
            try rewrite app_length; cbn [length]; lia. }
  split; [|split; [|split]].
  - constructor; unfold s1; cbn [set_heap fresh heap head tail].
    + rewrite app_length. cbn [length]. lia.
    + eapply seg_frame; [|exact (si_chain HI)]. intros a _. apply Hnx.
    + exact (si_nodup HI).
    + intros x Hx. apply (si_range HI) in Hx. lia.
    + exact (si_tail HI).
    + intros x Hx Hn. fold s1. rewrite Hnx. apply (si_unl HI); assumption.
  - constructor.
    + unfold s1. cbn [set_heap fresh]. lia.
    + auto.
    + auto.
    + auto.
    + intros x _. apply Hnx.
    + intros x Hx. unfold valof. rewrite Hold by lia. reflexivity.
    + reflexivity.
    + intros h _ H0 H1. rewrite Hnx in H1. contradiction.
  - split.
    + unfold s1. cbn [set_heap fresh]. pose proof (si_range HI _ (in_full_head s Lp Lq)). lia.
    + intros Hin. apply (si_range HI) in Hin. lia.
  - unfold valof. rewrite Hnew. reflexivity.
Qed.

Lemma nextof_set_next_other' : forall h a nx x, Z.to_nat x <> Z.to_nat a ->
  nextof (set_next h a nx) x = nextof h x.
Proof.
  intros h a nx x Hne. unfold nextof, getn, set_next.
  rewrite nth_upd_other by auto. reflexivity.
Qed.

Lemma NoDup_snoc : forall (L : list Z) x, NoDup L -> ~ In x L -> NoDup (L ++ [x]).
Proof.
  induction L as [|a L IH]; intros x Hnd Hn; cbn [app].
  - constructor; [intros []|constructor].
  - inversion Hnd as [|a' L' Ha HL]; subst. constructor.
    + intros Hin. apply in_app_or in Hin. destruct Hin as [Hin|[Hin|[]]]; [auto|].
      apply Hn. left. symmetry; exact Hin.
    + apply IH; auto. intros Hin. apply Hn. right. exact Hin.
Qed.

Lemma full_snoc : forall s Lp Lq x h f,
  fullL (set_heap s h f) Lp (Lq ++ [x]) = fullL s Lp Lq ++ [x].
Proof. intros. unfold fullL. cbn [set_heap head]. rewrite <- app_assoc. reflexivity. Qed.

Lemma eff_link : forall s Lp Lq onto new, sinv s Lp Lq -> In onto (fullL s Lp Lq) ->
  nextof (heap s) onto = 0 -> unl s Lp Lq new ->
  let s1 := set_heap s (set_next (heap s) onto new) (fresh s) in
  sinv s1 Lp (Lq ++ [new]) /\ rel s Lp Lq s1 Lp (Lq ++ [new]) (Some new).
Proof.
  intros s Lp Lq onto new HI Honto H0 [Hnr Hnn] s1.
  pose proof (si_fresh HI) as Hf.
  pose proof (si_range HI _ Honto) as Hor.
  destruct (chain_last HI _ Honto H0) as [A EA].
  assert (Hne : new <> onto) by (intros ->; auto).
  assert (HoA : ~ In onto A).
  { pose proof (si_nodup HI) as Hnd. rewrite EA in Hnd.
    apply NoDup_remove_2 in Hnd. rewrite app_nil_r in Hnd. exact Hnd. }
  assert (Hsame : nextof (heap s1) onto = new).
  { unfold s1. cbn [set_heap heap]. apply nextof_set_next_same. lia. }
  assert (Hoth : forall x, x <> onto -> nextof (heap s1) x = nextof (heap s) x).
  { intros x Hx. unfold s1. cbn [set_heap heap].
    apply nextof_set_next_other'. lia. }
  assert (EL : fullL s1 Lp (Lq ++ [new]) = fullL s Lp Lq ++ [new]).
  { unfold s1. apply full_snoc. }
  split.
  - constructor; rewrite ?EL.
    + unfold s1. cbn [set_heap fresh heap]. unfold set_next. rewrite upd_length. exact Hf.
    + pose proof (si_chain HI) as Hc. rewrite EA in Hc |- *.
      apply seg_app in Hc. destruct Hc as [m [Hc1 Hc2]]. cbn [seg] in Hc2.
      destruct Hc2 as [-> _].
      rewrite <- app_assoc. apply seg_app. exists onto. split.
      * eapply seg_frame; [|exact Hc1]. intros a Ha. apply Hoth. intros ->. auto.
      * cbn [app seg]. split; [reflexivity|]. rewrite Hsame. split; [reflexivity|].
        rewrite Hoth by exact Hne. apply (si_unl HI); [lia|exact Hnn].
    + apply NoDup_snoc; [exact (si_nodup HI)|exact Hnn].
    + intros x Hx. unfold s1. cbn [set_heap fresh]. apply in_app_or in Hx.
      destruct Hx as [Hx|[<-|[]]]; [apply (si_range HI); exact Hx|lia].
    + unfold s1. cbn [set_heap tail]. apply in_or_app. left. exact (si_tail HI).
    + intros x Hx Hn.
      assert (Hxo : x <> onto).
      { intros ->. apply Hn. apply in_or_app. left. exact Honto. }
      rewrite Hoth by exact Hxo. apply (si_unl HI); [exact Hx|].
      intros Hin. apply Hn. apply in_or_app. left. exact Hin.
  - constructor; rewrite ?EL.
    + unfold s1. cbn [set_heap fresh]. lia.
    + intros x Hx. apply in_or_app. left. exact Hx.
    + intros x Hx. apply in_app_or in Hx. destruct Hx as [Hx|[<-|[]]]; auto.
    + unfold pre, s1. cbn [set_heap head]. auto.
    + intros x Hx. apply Hoth. intros ->. contradiction.
    + intros x _. unfold s1. cbn [set_heap heap]. apply valof_set_next.
    + reflexivity.
    + intros h Hpre Hh0 Hh1.
      assert (Eh : h = onto).
      { destruct (Z.eq_dec h onto) as [E|E]; [exact E|]. rewrite Hoth in Hh1 by exact E. contradiction. }
      subst h. rewrite Hsame.
      destruct Hpre as [Hp|Hp].
      * exfalso. exact (chain_pre_next HI _ Hp H0).
      * destruct (head_next_cases HI) as [[-> _]|[Lq' [_ Hnz]]]; [reflexivity|].
        rewrite <- Hp in Hnz. contradiction.
Qed.

Lemma eff_head : forall s Lp Lq n, sinv s Lp Lq ->
  nextof (heap s) (head s) = n -> n <> 0 ->
  exists Lq', Lq = n :: Lq' /\
    sinv (set_head s n) (Lp ++ [head s]) Lq' /\
    rel s Lp Lq (set_head s n) (Lp ++ [head s]) Lq' None.
Proof.
  intros s Lp Lq n HI En Hn.
  destruct (head_next_cases HI) as [[_ H0]|[Lq' [ELq _]]]; [congruence|].
  rewrite En in ELq. exists Lq'. split; [exact ELq|].
  assert (EL : fullL (set_head s n) (Lp ++ [head s]) Lq' = fullL s Lp Lq).
  { unfold fullL. cbn [set_head head]. rewrite <- app_assoc, ELq. reflexivity. }
  destruct HI as [H1 H2 H3 H4 H5 H6].
  split.
  - constructor; rewrite ?EL; assumption.
  - constructor; rewrite ?EL; cbn [set_head fresh heap threads]; auto; try lia;
      try (intros h _ Ha Hb; contradiction).
    intros x [Hx|Hx]; left; apply in_or_app; [left; exact Hx|right; left; auto].
Qed.

(** ** History (ghost) variables.
    They are computed by a monitor from observable things only: the
    observations of each step, the shared words [head] / [next] (to decide
    whether a CAS succeeds) and the abstract queue [absq] before/after the step.
    They never look at program counters or registers. *)

Record gth := mkG {
  g_op : option (Z * Z);      (* (opcode, arg) of the last [1 opcode arg] observation *)
  g_lp : option Z;            (* element removed from [absq] by this operation's successful head CAS *)
  g_pred : option Z;          (* value of the last [2001 value 1] observation of this operation *)
  g_fronts : list Z           (* every first element of [absq] seen since this operation's last head load *)
}.

Record ghost := mkGhost {
  gt : nat -> gth;
  g_pushed : list Z;          (* values appended to [absq], in order of the successful site-33 CASes *)
  g_popped : list Z;          (* values removed from [absq], in order of the successful head CASes *)
  g_popped_ids : list Z       (* the corresponding node ids ([nxt] of the [37/42 hd nxt] observation) *)
}.

Definition g0 : gth := mkG None None None [].
Definition ghost0 : ghost := mkGhost (fun _ => g0) [] [] [].

Definition site_of (o : list obs) : Z := match o with (a, _, _) :: _ => a | [] => 0 end.
Definition arg1_of (o : list obs) : Z := match o with (_, b, _) :: _ => b | [] => 0 end.
Definition arg2_of (o : list obs) : Z := match o with (_, _, c) :: _ => c | [] => 0 end.

(** kind of a step, decided from its first observation and the shared state before it *)
Inductive kind := KPush (onto new : Z) | KPop (h n : Z) | KOther.

Definition kind_of (s : state) (o : list obs) : kind :=
  let a := site_of o in
  if a =? 33 then
    if nextof (heap s) (arg1_of o) =? 0 then KPush (arg1_of o) (arg2_of o) else KOther
  else if (a =? 37) || (a =? 42) then
    if head s =? arg1_of o then KPop (arg1_of o) (arg2_of o) else KOther
  else KOther.

(** value of a [2001 value 1] observation *)
Fixpoint find_pred (o : list obs) : option Z :=
  match o with
  | [] => None
  | (a, b, c) :: r => if (a =? 2001) && (c =? 1) then Some b else find_pred r
  end.

Definition set_fronts (x : gth) (f : list Z) : gth := mkG (g_op x) (g_lp x) (g_pred x) f.
Definition add_fronts (x : gth) (f : list Z) : gth := set_fronts x (g_fronts x ++ f).

Definition mon_self (s : state) (o : list obs) (x : gth) : gth :=
  let a := site_of o in
  if a =? 1 then mkG (Some (arg1_of o, arg2_of o)) None None []
  else if (a =? 35) || (a =? 40) then set_fronts x []
  else if a =? 41 then
    match find_pred o with
    | Some v => mkG (g_op x) (g_lp x) (Some v) (g_fronts x)
    | None => x
    end
  else
    match kind_of s o with
    | KPop _ _ => mkG (g_op x) (Some (hd 0 (absq s))) (g_pred x) (g_fronts x)
    | _ => x
    end.

Definition mon (s : state) (t : nat) (o : list obs) (s' : state) (g : ghost) : ghost :=
  mkGhost
    (fun u => add_fronts (if Nat.eqb u t then mon_self s o (gt g u) else gt g u)
                         (firstn 1 (absq s')))
    (match kind_of s o with
     | KPush _ _ => g_pushed g ++ match g_op (gt g t) with Some (_, v) => [v] | None => [] end
     | _ => g_pushed g
     end)
    (match kind_of s o with
     | KPop _ _ => g_popped g ++ firstn 1 (absq s)
     | _ => g_popped g
     end)
    (match kind_of s o with
     | KPop _ n => g_popped_ids g ++ [n]
     | _ => g_popped_ids g
     end).

(** ** Reachable instrumented states *)
Inductive greach (prog : list Z) : state -> ghost -> Prop :=
| gr_init : greach prog (init prog) ghost0
| gr_step : forall s g t s' o,
    greach prog s g -> stepT s t = Some (s', o) ->
    greach prog s' (mon s t o s' g).

(** ** Ghost part of the invariant *)
Definition gpc_ok (s : state) (p : pc) (x : gth) : Prop :=
  match p with
  | P30 new | P31 _ new | P32 _ _ new | P33 _ new =>
      g_op x = Some (0, valof (heap s) new) /\ g_lp x = None
  | P34 _ _ => g_lp x = None
  | P35 | P36 _ | P37 _ _ => g_op x = Some (1, 0) /\ g_lp x = None
  | P38 _ n | P39 _ n _ =>
      g_op x = Some (1, 0) /\ g_lp x = Some (valof (heap s) n)
  | P40 c => g_op x = Some (2, c) /\ g_lp x = None
  | P41 c h =>
      g_op x = Some (2, c) /\ g_lp x = None /\
      (nextof (heap s) h <> 0 -> In (valof (heap s) (nextof (heap s) h)) (g_fronts x))
  | P42 c _ n =>
      g_op x = Some (2, c) /\ g_lp x = None /\
      g_pred x = Some (valof (heap s) n) /\ valof (heap s) n < c
  | P43 c _ n | P44 c _ n _ =>
      g_op x = Some (2, c) /\ g_pred x = Some (valof (heap s) n) /\ valof (heap s) n < c /\
      g_lp x = Some (valof (heap s) n)
  | _ => True
  end.

Record ginv (s : state) (Lp Lq : list Z) (g : ghost) : Prop := {
  gi_ids : 1 :: g_popped_ids g = Lp ++ [head s];
  gi_popped : g_popped g = map (valof (heap s)) (g_popped_ids g);
  gi_pushed : g_pushed g = map (valof (heap s)) (g_popped_ids g ++ Lq)
}.

Definition distinct_new (ts : list thread) : Prop :=
  forall i j a b x, i <> j -> nth_error ts i = Some a -> nth_error ts j = Some b ->
    new_of (tpc a) = Some x -> new_of (tpc b) <> Some x.

Record Inv (s : state) (g : ghost) (Lp Lq : list Z) : Prop := {
  I_sh : sinv s Lp Lq;
  I_pc : forall t th, nth_error (threads s) t = Some th -> pc_ok s Lp Lq (tpc th);
  I_gpc : forall t th, nth_error (threads s) t = Some th -> gpc_ok s (tpc th) (gt g t);
  I_new : distinct_new (threads s);
  I_g : ginv s Lp Lq g
}.

Lemma gpc_ok_mono : forall s Lp Lq s1 Lp' Lq' lk p x,
  sinv s Lp Lq -> rel s Lp Lq s1 Lp' Lq' lk -> sinv s1 Lp' Lq' ->
  pc_ok s Lp Lq p -> gpc_ok s p x ->
  gpc_ok s1 p (add_fronts x (firstn 1 (absq s1))).
Proof.
  intros s Lp Lq s1 Lp' Lq' lk p x HI R HI1 Hok Hg.
  assert (Hv : forall n, In n (fullL s Lp Lq) -> valof (heap s1) n = valof (heap s) n).
  { intros n Hn. apply (r_val R). apply (si_range HI). exact Hn. }
  assert (Hvn : forall h n, pre s Lp h -> n <> 0 -> nextof (heap s) h = n ->
                       valof (heap s1) n = valof (heap s) n).
  { intros h n Hp Hn E. apply Hv. subst n. apply (chain_next_in HI); [|exact Hn].
    apply in_full_pre. exact Hp. }
  destruct p; cbn [gpc_ok pc_ok add_fronts set_fronts g_op g_lp g_pred g_fronts] in *; auto;
    repeat match goal with H : _ /\ _ |- _ => destruct H end;
    try match goal with H : unl _ _ _ _ |- _ => destruct H as [Hur Hun] end;
    repeat split;
    try (rewrite (r_val R) by assumption; assumption);
    try (rewrite Hv by assumption; assumption);
    try (erewrite Hvn by eassumption; assumption);
    try assumption.
  (* P41 *)
  match goal with H : pre s Lp ?hh |- _ => rename H into Hpre end.
  intros Hnz.
  destruct (Z.eq_dec (nextof (heap s) hd) 0) as [E0|E0].
  - apply in_or_app. right.
    rewrite (absq_inv HI1), firstn_map, (r_front R Hpre E0 Hnz).
    left. reflexivity.
  - apply in_or_app. left. rewrite (r_next R) by exact E0.
    rewrite Hv; [auto|]. apply (chain_next_in HI); [|exact E0].
    apply in_full_pre. exact Hpre.
Qed.

(** ** Soundness of one thread step w.r.t. the invariant *)
Definition trans (s : state) (o : list obs) (x : gth) (Lp Lq : list Z)
    (s1 : state) (Lp' Lq' : list Z) (lk : option Z) : Prop :=
  match kind_of s o with
  | KPush onto new =>
      Lp' = Lp /\ Lq' = Lq ++ [new] /\ lk = Some new /\
      g_op x = Some (0, valof (heap s) new) /\ 0 < new < fresh s /\ head s1 = head s
  | KPop h n =>
      Lp' = Lp ++ [h] /\ Lq = n :: Lq' /\ h = head s /\ lk = None /\ head s1 = n
  | KOther => Lp' = Lp /\ Lq' = Lq /\ lk = None /\ head s1 = head s
  end.

Arguments absq : simpl never.
Arguments nextof : simpl never.
Arguments valof : simpl never.
Arguments firstn : simpl never.
Arguments cas_tail : simpl never.

Lemma heap_cas_tail : forall s a b, heap (cas_tail s a b) = heap s.
Proof. intros. unfold cas_tail. destruct (tail s =? a); reflexivity. Qed.
Lemma head_cas_tail : forall s a b, head (cas_tail s a b) = head s.
Proof. intros. unfold cas_tail. destruct (tail s =? a); reflexivity. Qed.

Ltac local_step :=
  match goal with HI : sinv ?s ?Lp ?Lq |- _ =>
    exists Lp, Lq, (@None Z); split; [exact HI|split; [apply rel_refl|]] end.
Ltac fin :=
  repeat match goal with H : gpc_ok _ _ _ |- _ => cbn [gpc_ok] in H end;
  repeat match goal with H : _ /\ _ |- _ => destruct H end;
  unfold trans, kind_of, mon_self; cbn; rewrite ?head_cas_tail, ?heap_cas_tail;
  repeat split; auto; try discriminate; try (intros; discriminate);
  try (let E := fresh in intros ? E; inversion E; subst; auto; fail).


Lemma step_th_sound : forall s Lp Lq p ops x s1 p' ops' o,
  sinv s Lp Lq -> pc_ok s Lp Lq p -> gpc_ok s p x ->
  step_th s p ops = Some (s1, p', ops', o) ->
  exists Lp' Lq' lk,
    sinv s1 Lp' Lq' /\ rel s Lp Lq s1 Lp' Lq' lk /\
    pc_ok s1 Lp' Lq' p' /\
    gpc_ok s1 p' (add_fronts (mon_self s o x) (firstn 1 (absq s1))) /\
    (forall y, lk = Some y -> new_of p = Some y) /\
    (forall y, new_of p' = Some y -> new_of p = Some y \/ y = fresh s) /\
    trans s o x Lp Lq s1 Lp' Lq' lk.
Proof.
  intros s Lp Lq p ops x s1 p' ops' o HI Hok Hg Hst.
  destruct p; cbn [step_th] in Hst.
  - (* PStart *)
    inversion Hst; subst; clear Hst. local_step. fin.
  - discriminate Hst.
  - (* POp *)
    destruct ops as [|[v| |c] r]; inversion Hst; subst; clear Hst.
    + local_step. fin.
    + destruct (eff_alloc v HI) as [HI1 [R [Hu Hv]]].
      exists Lp, Lq, (@None Z). split; [exact HI1|split; [exact R|]].
      split; [exact Hu|]. cbn [set_heap heap] in Hv. fin. rewrite Hv. reflexivity.
    + local_step. fin.
    + local_step. fin.
  - (* P30 *)
    inversion Hst; subst; clear Hst. local_step.
    split; [split; [exact (si_tail HI)|exact Hok]|]. fin.
  - (* P31 *)
    destruct Hok as [Ho Hu].
    destruct (nextof (heap s) onto =? 0) eqn:E; inversion Hst; subst; clear Hst; local_step.
    + split; [split; assumption|]. fin.
    + apply Z.eqb_neq in E.
      split; [split; [apply (chain_next_in HI); assumption|assumption]|]. fin.
  - (* P32 *)
    destruct Hok as [Hn Hu]. inversion Hst; subst; clear Hst.
    destruct (eff_tail onto _ HI Hn) as [HI1 R].
    exists Lp, Lq, (@None Z). split; [exact HI1|split; [exact R|]].
    split; [apply (pc_ok_mono (P30 new) R); [discriminate|exact Hu]|].
    split; [cbn [gpc_ok]; rewrite heap_cas_tail; exact Hg|]. fin.
  - (* P33 *)
    destruct Hok as [Ho Hu]. cbn [gpc_ok] in Hg. destruct Hg as [Hgo Hgl].
    destruct (nextof (heap s) onto =? 0) eqn:E; inversion Hst; subst; clear Hst.
    + apply Z.eqb_eq in E.
      destruct (eff_link _ HI Ho E Hu) as [HI1 R].
      exists Lp, (Lq ++ [new]), (Some new). split; [exact HI1|split; [exact R|]].
      split.
      { cbn [pc_ok]. unfold fullL. apply in_or_app. right. right.
        apply in_or_app. right. left. reflexivity. }
      unfold trans, kind_of, mon_self; cbn. apply Z.eqb_eq in E. rewrite E.
      destruct Hu as [Hur Hun].
      repeat split; auto; try lia; try (intros y Ey; inversion Ey; reflexivity).
    + local_step. split; [exact Hu|].
      unfold trans, kind_of, mon_self; cbn. rewrite E. repeat split; auto;
        try (intros y Ey; inversion Ey; auto).
  - (* P34 *)
    inversion Hst; subst; clear Hst.
    destruct (eff_tail onto _ HI Hok) as [HI1 R].
    exists Lp, Lq, (@None Z). split; [exact HI1|split; [exact R|]]. fin.
  - (* P35 *)
    inversion Hst; subst; clear Hst. local_step.
    split; [right; reflexivity|]. fin.
  - (* P36 *)
    destruct (nextof (heap s) hd =? 0) eqn:E; inversion Hst; subst; clear Hst; local_step.
    + fin.
    + apply Z.eqb_neq in E. split; [repeat split; auto|]. fin.
  - (* P37 *)
    destruct Hok as [Hp [Hn En]]. cbn [gpc_ok] in Hg. destruct Hg as [Hgo Hgl].
    destruct (head s =? hd) eqn:E; inversion Hst; subst; clear Hst.
    + apply Z.eqb_eq in E. subst hd.
      destruct (eff_head HI eq_refl Hn) as [Lq' [ELq [HI1 R]]].
      exists (Lp ++ [head s]), Lq', (@None Z). split; [exact HI1|split; [exact R|]].
      split; [apply (in_full_head (set_head s (nextof (heap s) (head s)))) |].
      unfold trans, kind_of, mon_self; cbn. rewrite Z.eqb_refl.
      rewrite (absq_inv HI), ELq. cbn [map hd g_op g_lp].
      repeat split; auto; try discriminate.
    + local_step. split; [exact I|].
      unfold trans, kind_of, mon_self; cbn. rewrite E. repeat split; auto; discriminate.
  - (* P38 *)
    destruct (hd =? tail s) eqn:E; inversion Hst; subst; clear Hst; local_step; fin.
  - (* P39 *)
    inversion Hst; subst; clear Hst.
    destruct (eff_tail tl _ HI Hok) as [HI1 R].
    exists Lp, Lq, (@None Z). split; [exact HI1|split; [exact R|]]. fin.
  - (* P40 *)
    inversion Hst; subst; clear Hst. local_step.
    split; [right; reflexivity|].
    split.
    { cbn [gpc_ok] in Hg |- *. destruct Hg as [Hgo Hgl].
      split; [exact Hgo|split; [exact Hgl|]]. intros Hnz.
      unfold mon_self; cbn. rewrite (absq_inv HI).
      destruct (head_next_cases HI) as [[_ H0]|[Lq' [-> _]]]; [contradiction|].
      left. reflexivity. }
    fin.
  - (* P41 *)
    destruct Hg as [Hgo [Hgl Hgf]].
    destruct (nextof (heap s) hd =? 0) eqn:E; [inversion Hst; subst; clear Hst; local_step; fin|].
    apply Z.eqb_neq in E.
    destruct (valof (heap s) (nextof (heap s) hd) <? c) eqn:Ev; inversion Hst; subst; clear Hst; local_step.
    + apply Z.ltb_lt in Ev. split; [repeat split; auto|]. fin.
    + fin.
  - (* P42 *)
    destruct Hok as [Hp [Hn En]]. destruct Hg as [Hgo [Hgl [Hgp Hlt]]].
    destruct (head s =? hd) eqn:E; inversion Hst; subst; clear Hst.
    + apply Z.eqb_eq in E. subst hd.
      destruct (eff_head HI eq_refl Hn) as [Lq' [ELq [HI1 R]]].
      exists (Lp ++ [head s]), Lq', (@None Z). split; [exact HI1|split; [exact R|]].
      split; [apply (in_full_head (set_head s (nextof (heap s) (head s)))) |].
      unfold trans, kind_of, mon_self; cbn. rewrite Z.eqb_refl.
      rewrite (absq_inv HI), ELq. cbn [map hd g_op g_lp g_pred].
      repeat split; auto; try discriminate.
    + local_step. split; [exact I|].
      unfold trans, kind_of, mon_self; cbn. rewrite E. repeat split; auto; discriminate.
  - (* P43 *)
    destruct (hd =? tail s) eqn:E; inversion Hst; subst; clear Hst; local_step; fin.
  - (* P44 *)
    inversion Hst; subst; clear Hst.
    destruct (eff_tail tl _ HI Hok) as [HI1 R].
    exists Lp, Lq, (@None Z). split; [exact HI1|split; [exact R|]]. fin.
Qed.

(** ** Preservation of the invariant by [stepT] *)
Lemma nth_error_set_nth_same : forall A (l : list A) t x y,
  nth_error l t = Some y -> nth_error (set_nth l t x) t = Some x.
Proof.
  induction l as [|a l IH]; intros [|t] x y H; cbn in *; try discriminate; auto.
  eapply IH; eauto.
Qed.

Lemma nth_error_set_nth_other : forall A (l : list A) t u x,
  u <> t -> nth_error (set_nth l t x) u = nth_error l u.
Proof.
  induction l as [|a l IH]; intros [|t] [|u] x H; cbn; auto; try congruence.
Qed.

Lemma Inv_step : forall s g Lp Lq t s' o,
  Inv s g Lp Lq -> stepT s t = Some (s', o) ->
  exists Lp' Lq' lk,
    Inv s' (mon s t o s' g) Lp' Lq' /\
    trans s o (gt g t) Lp Lq s' Lp' Lq' lk /\
    (forall y, 0 < y < fresh s -> valof (heap s') y = valof (heap s) y) /\
    (forall y, nextof (heap s) y <> 0 -> nextof (heap s') y = nextof (heap s) y) /\
    fresh s <= fresh s'.
Proof.
  intros s g Lp Lq t s' o HInv Hst. unfold stepT in Hst.
  destruct (nth_error (threads s) t) as [th|] eqn:Eth; [|discriminate].
  destruct (step_th s (tpc th) (tops th)) as [[[[s1 p'] ops'] o']|] eqn:Est; [|discriminate].
  inversion Hst; subst s' o'; clear Hst.
  pose proof (I_sh HInv) as HI.
  destruct (@step_th_sound s Lp Lq _ _ (gt g t) _ _ _ _ HI (I_pc HInv _ Eth) (I_gpc HInv _ Eth) Est)
    as [Lp' [Lq' [lk [HI1 [R [Hok' [Hg' [Hlk [Hnew Htr]]]]]]]]].
  set (ts' := set_nth (threads s) t {| tpc := p'; tops := ops' |}).
  exists Lp', Lq', lk. split; [|split; [exact Htr|split; [exact (r_val R)|split; [exact (r_next R)|exact (r_fresh R)]]]].
  constructor.
  - apply sinv_threads. exact HI1.
  - intros u th' Eu. cbn [set_threads threads] in Eu.
    change (pc_ok s1 Lp' Lq' (tpc th')).
    destruct (Nat.eq_dec u t) as [->|Hne].
    + unfold ts' in Eu. erewrite nth_error_set_nth_same in Eu by exact Eth.
      inversion Eu; subst th'. exact Hok'.
    + unfold ts' in Eu. rewrite nth_error_set_nth_other in Eu by exact Hne.
      apply (pc_ok_mono _ R); [|exact (I_pc HInv _ Eu)].
      intros y Ey El. apply Hlk in El.
      assert (Hne' : t <> u) by auto.
      exact (I_new HInv Hne' Eth Eu El Ey).
  - intros u th' Eu. cbn [set_threads threads] in Eu. cbn [mon gt].
    change (absq (set_threads s1 ts')) with (absq s1).
    change (gpc_ok s1 (tpc th')
      (add_fronts (if Nat.eqb u t then mon_self s o (gt g u) else gt g u) (firstn 1 (absq s1)))).
    destruct (Nat.eq_dec u t) as [->|Hne].
    + unfold ts' in Eu. erewrite nth_error_set_nth_same in Eu by exact Eth.
      inversion Eu; subst th'. rewrite Nat.eqb_refl. exact Hg'.
    + unfold ts' in Eu. rewrite nth_error_set_nth_other in Eu by exact Hne.
      apply Nat.eqb_neq in Hne. rewrite Hne.
      eapply gpc_ok_mono; [exact HI|exact R|exact HI1|exact (I_pc HInv _ Eu)|exact (I_gpc HInv _ Eu)].
  - cbn [set_threads threads]. intros i j a b y Hij Ei Ej Ea Eb.
    assert (Hfr : forall k c z, nth_error (threads s) k = Some c -> new_of (tpc c) = Some z -> z < fresh s).
    { intros k c z Ek Ez. pose proof (I_pc HInv _ Ek) as Hk.
      destruct (tpc c); cbn [new_of] in Ez; try discriminate; inversion Ez; subst;
        cbn [pc_ok] in Hk; unfold unl in Hk; tauto. }
    unfold ts' in Ei, Ej.
    destruct (Nat.eq_dec i t) as [->|Hi]; destruct (Nat.eq_dec j t) as [->|Hj]; try congruence.
    + erewrite nth_error_set_nth_same in Ei by exact Eth. inversion Ei; subst a. cbn [tpc] in Ea.
      rewrite nth_error_set_nth_other in Ej by exact Hj.
      destruct (Hnew _ Ea) as [Hy|Hy].
      * exact (I_new HInv Hij Eth Ej Hy Eb).
      * pose proof (Hfr _ _ _ Ej Eb). lia.
    + erewrite nth_error_set_nth_same in Ej by exact Eth. inversion Ej; subst b. cbn [tpc] in Eb.
      rewrite nth_error_set_nth_other in Ei by exact Hi.
      destruct (Hnew _ Eb) as [Hy|Hy].
      * assert (Hji : t <> i) by auto. exact (I_new HInv Hji Eth Ei Hy Ea).
      * pose proof (Hfr _ _ _ Ei Ea). lia.
    + rewrite nth_error_set_nth_other in Ei by exact Hi.
      rewrite nth_error_set_nth_other in Ej by exact Hj.
      exact (I_new HInv Hij Ei Ej Ea Eb).
  - pose proof (I_g HInv) as HG.
    assert (Hst : forall l, (forall y, In y l -> 0 < y < fresh s) ->
              map (valof (heap s1)) l = map (valof (heap s)) l).
    { intros l Hl. apply map_ext_in. intros y Hy. apply (r_val R). auto. }
    assert (Hids : forall y, In y (g_popped_ids g) -> 0 < y < fresh s).
    { intros y Hy. apply (si_range HI). apply in_full_pre.
      assert (Hy' : In y (1 :: g_popped_ids g)) by (right; exact Hy).
      rewrite (gi_ids HG) in Hy'. apply in_app_or in Hy'.
      destruct Hy' as [Hy'|[Hy'|[]]]; [left; exact Hy'|right; auto]. }
    assert (HLq : forall y, In y Lq -> 0 < y < fresh s).
    { intros y Hy. apply (si_range HI). apply in_full_q. exact Hy. }
    unfold trans in Htr.
    constructor; cbn [mon g_popped_ids g_popped g_pushed set_threads heap head];
      destruct (kind_of s o) as [onto new|h n|] eqn:Ek.
    + destruct Htr as [-> [_ [_ [_ [_ ->]]]]]. exact (gi_ids HG).
    + destruct Htr as [-> [_ [-> [_ ->]]]].
      rewrite app_comm_cons, (gi_ids HG). reflexivity.
    + destruct Htr as [-> [_ [_ ->]]]. exact (gi_ids HG).
    + rewrite Hst by exact Hids. exact (gi_popped HG).
    + destruct Htr as [_ [ELq _]].
      rewrite (absq_inv HI), ELq. cbn [map firstn].
      assert (Hn : 0 < n < fresh s) by (apply HLq; rewrite ELq; left; reflexivity).
      rewrite Hst.
      * rewrite map_app, (gi_popped HG). reflexivity.
      * intros y Hy. apply in_app_or in Hy. destruct Hy as [Hy|[<-|[]]]; auto.
    + rewrite Hst by exact Hids. exact (gi_popped HG).
    + destruct Htr as [_ [-> [_ [Hop [Hr _]]]]]. rewrite Hop.
      rewrite Hst.
      * rewrite app_assoc, map_app, (gi_pushed HG). reflexivity.
      * intros y Hy. apply in_app_or in Hy. destruct Hy as [Hy|Hy]; [auto|].
        apply in_app_or in Hy. destruct Hy as [Hy|[<-|[]]]; auto.
    + destruct Htr as [_ [ELq _]]. rewrite <- app_assoc. cbn [app]. rewrite <- ELq.
      rewrite Hst; [exact (gi_pushed HG)|].
      intros y Hy. apply in_app_or in Hy. destruct Hy; auto.
    + destruct Htr as [_ [-> _]].
      rewrite Hst; [exact (gi_pushed HG)|].
      intros y Hy. apply in_app_or in Hy. destruct Hy; auto.
Qed.

(** ** Initial state and reachability *)
Lemma Inv_init : forall prog, Inv (init prog) ghost0 [] [].
Proof.
  intros prog. constructor.
  - constructor; unfold fullL; cbn [init heap head tail fresh app length].
    + reflexivity.
    + cbn [seg]. split; reflexivity.
    + constructor; [intros []|constructor].
    + intros x [<-|[]]. lia.
    + left. reflexivity.
    + intros x Hx Hn. apply nextof_oob. cbn [length].
      assert (x <> 1) by (intros ->; apply Hn; left; reflexivity). lia.
  - intros t th E. apply nth_error_In in E. cbn [init threads] in E.
    apply in_map_iff in E. destruct E as [ops [<- _]]. exact I.
  - intros t th E. apply nth_error_In in E. cbn [init threads] in E.
    apply in_map_iff in E. destruct E as [ops [<- _]]. exact I.
  - intros i j a b x _ Ei _ Ea. apply nth_error_In in Ei. cbn [init threads] in Ei.
    apply in_map_iff in Ei. destruct Ei as [ops [<- _]]. discriminate Ea.
  - constructor; reflexivity.
Qed.

Theorem Inv_reach : forall prog s g, greach prog s g -> exists Lp Lq, Inv s g Lp Lq.
Proof.
  intros prog s g H. induction H as [|s g t s' o H [Lp [Lq IH]] Hst].
  - exists [], []. apply Inv_init.
  - destruct (Inv_step _ IH Hst) as [Lp' [Lq' [lk [HI' _]]]]. exists Lp', Lq'. exact HI'.
Qed.

(** ** Facts about the monitor *)

Lemma kind_pop_site : forall s o h n, kind_of s o = KPop h n ->
  (site_of o = 37 \/ site_of o = 42) /\ arg1_of o = h /\ arg2_of o = n /\ head s = h.
Proof.
  intros s o h n. unfold kind_of.
  destruct (site_of o =? 33).
  - destruct (nextof (heap s) (arg1_of o) =? 0); discriminate.
  - destruct ((site_of o =? 37) || (site_of o =? 42)) eqn:E; [|discriminate].
    destruct (head s =? arg1_of o) eqn:E2; [|discriminate].
    intros H. inversion H; subst. apply Z.eqb_eq in E2.
    apply orb_true_iff in E. rewrite !Z.eqb_eq in E. auto.
Qed.

Lemma kind_push_site : forall s o onto new, kind_of s o = KPush onto new ->
  site_of o = 33 /\ arg1_of o = onto /\ arg2_of o = new /\ nextof (heap s) onto = 0.
Proof.
  intros s o onto new. unfold kind_of.
  destruct (site_of o =? 33) eqn:E.
  - destruct (nextof (heap s) (arg1_of o) =? 0) eqn:E2; [|discriminate].
    intros H. inversion H; subst. apply Z.eqb_eq in E. apply Z.eqb_eq in E2. auto.
  - destruct ((site_of o =? 37) || (site_of o =? 42)); [|discriminate].
    destruct (head s =? arg1_of o); discriminate.
Qed.

Lemma mon_self_pop : forall s o x h n, kind_of s o = KPop h n ->
  mon_self s o x = mkG (g_op x) (Some (hd 0 (absq s))) (g_pred x) (g_fronts x).
Proof.
  intros s o x h n Hk. destruct (kind_pop_site _ _ Hk) as [Hs _].
  unfold mon_self. rewrite Hk. destruct Hs as [-> | ->]; reflexivity.
Qed.

(** the per-thread history variables of [t] are only touched by [t]'s own steps
    (except [g_fronts], which records every front of [absq]) *)
Lemma mon_frame : forall s u o s' g t, u <> t ->
  g_op (gt (mon s u o s' g) t) = g_op (gt g t) /\
  g_lp (gt (mon s u o s' g) t) = g_lp (gt g t) /\
  g_pred (gt (mon s u o s' g) t) = g_pred (gt g t).
Proof.
  intros s u o s' g t Hne. cbn [mon gt].
  assert (E : Nat.eqb t u = false) by (apply Nat.eqb_neq; auto).
  rewrite E. cbn. auto.
Qed.

(** [g_lp] of [t] changes only at [t]'s operation starts (reset) and successful head CASes *)
Lemma mon_lp_self : forall s o s' g t,
  g_lp (gt (mon s t o s' g) t) =
    if site_of o =? 1 then None
    else match kind_of s o with KPop _ _ => Some (hd 0 (absq s)) | _ => g_lp (gt g t) end.
Proof.
  intros s o s' g t. cbn [mon gt]. rewrite Nat.eqb_refl.
  unfold add_fronts, set_fronts. cbn [g_lp]. unfold mon_self.
  destruct (site_of o =? 1) eqn:E1; [reflexivity|].
  destruct (kind_of s o) as [a b|h n|] eqn:Ek.
  - destruct (kind_push_site _ _ Ek) as [-> _]. reflexivity.
  - destruct (kind_pop_site _ _ Ek) as [[-> | ->] _]; reflexivity.
  - destruct ((site_of o =? 35) || (site_of o =? 40)); [reflexivity|].
    destruct (site_of o =? 41); [|reflexivity].
    destruct (find_pred o); reflexivity.
Qed.

Lemma stepT_inv : forall s t s' o, stepT s t = Some (s', o) ->
  exists th s1 p' ops',
    nth_error (threads s) t = Some th /\
    step_th s (tpc th) (tops th) = Some (s1, p', ops', o) /\
    s' = set_threads s1 (set_nth (threads s) t (mkThread p' ops')).
Proof.
  intros s t s' o H. unfold stepT in H.
  destruct (nth_error (threads s) t) as [th|]; [|discriminate].
  destruct (step_th s (tpc th) (tops th)) as [[[[s1 p'] ops'] o']|] eqn:E; [|discriminate].
  inversion H; subst. exists th, s1, p', ops'. auto.
Qed.

Lemma map_val_stable : forall (h h' : list node) f l,
  (forall y, 0 < y < f -> valof h' y = valof h y) ->
  (forall y, In y l -> 0 < y < f) ->
  map (valof h') l = map (valof h) l.
Proof. intros h h' f l H Hl. apply map_ext_in. intros y Hy. apply H. auto. Qed.

(** ** Linearization points *)

Theorem C17_lp : forall prog s g t s' o,
  greach prog s g -> stepT s t = Some (s', o) ->
  match kind_of s o with
  | KPush onto new =>
      exists v, g_op (gt g t) = Some (0, v) /\ valof (heap s) new = v /\
                absq s' = absq s ++ [v]
  | KPop h n =>
      exists r, absq s = valof (heap s) n :: r /\ absq s' = r /\
                g_lp (gt (mon s t o s' g) t) = Some (valof (heap s) n)
  | KOther => absq s' = absq s
  end.
Proof.
  intros prog s g t s' o Hr Hst.
  destruct (Inv_reach Hr) as [Lp [Lq HInv]].
  destruct (Inv_step _ HInv Hst) as [Lp' [Lq' [lk [HInv' [Htr [Hval _]]]]]].
  pose proof (I_sh HInv) as HI. pose proof (I_sh HInv') as HI'.
  rewrite (absq_inv HI), (absq_inv HI').
  assert (HLq : forall y, In y Lq -> 0 < y < fresh s).
  { intros y Hy. apply (si_range HI). apply in_full_q. exact Hy. }
  unfold trans in Htr. destruct (kind_of s o) as [onto new|h n|] eqn:Ek.
  - destruct Htr as [_ [-> [_ [Hop [Hr' _]]]]].
    exists (valof (heap s) new). split; [exact Hop|split; [reflexivity|]].
    rewrite (map_val_stable _ _ (Lq ++ [new]) Hval).
    + rewrite map_app. reflexivity.
    + intros y Hy. apply in_app_or in Hy. destruct Hy as [Hy|[<-|[]]]; auto.
  - destruct Htr as [_ [ELq _]]. exists (map (valof (heap s)) Lq').
    split; [rewrite ELq; reflexivity|]. split.
    + apply (map_val_stable _ _ Lq' Hval). intros y Hy. apply HLq. rewrite ELq. right. exact Hy.
    + rewrite mon_lp_self. destruct (kind_pop_site _ _ Ek) as [Hs _].
      rewrite Ek. rewrite (absq_inv HI), ELq. cbn [map hd].
      destruct Hs as [-> | ->]; reflexivity.
  - destruct Htr as [_ [-> _]]. apply (map_val_stable _ _ Lq Hval). exact HLq.
Qed.

(** ** Return values *)
Ltac in_obs H :=
  cbn [In] in H; repeat (destruct H as [H|H]); try contradiction; try discriminate H.

Ltac step_cases Hst :=
  cbn [step_th] in Hst;
  repeat match type of Hst with
         | context [match ?l with [] => _ | _ :: _ => _ end] => destruct l as [|[?v| |?c] ?r]
         | context [if ?b then _ else _] => destruct b eqn:?
         end;
  try discriminate Hst; inversion Hst; subst; clear Hst.

Lemma step_th_ret_some : forall s p ops x s1 p' ops' o v,
  gpc_ok s p x -> step_th s p ops = Some (s1, p', ops', o) -> In (2000, 1, v) o ->
  g_lp x = Some v /\ p' = POp /\
  (forall c, g_op x = Some (2, c) -> g_pred x = Some v /\ v < c).
Proof.
  intros s p ops x s1 p' ops' o v Hg Hst Hin.
  destruct p; step_cases Hst; in_obs Hin; inversion Hin; subst; clear Hin;
    cbn [gpc_ok] in Hg; repeat match goal with H : _ /\ _ |- _ => destruct H end;
    (split; [assumption|split; [reflexivity|]]); intros c0 Hc; try congruence.
  - assert (c0 = c) by congruence. subst. auto.
  - assert (c0 = c) by congruence. subst. auto.
Qed.

Lemma pre_null_empty : forall s Lp Lq h, sinv s Lp Lq -> pre s Lp h ->
  nextof (heap s) h = 0 -> absq s = [].
Proof.
  intros s Lp Lq h HI [Hp|Hp] H0.
  - exfalso. exact (chain_pre_next HI _ Hp H0).
  - subst h. rewrite (absq_inv HI).
    destruct (head_next_cases HI) as [[-> _]|[Lq' [_ Hnz]]]; [reflexivity|contradiction].
Qed.

Lemma step_th_ret_none : forall s Lp Lq p ops x s1 p' ops' o,
  sinv s Lp Lq -> pc_ok s Lp Lq p -> gpc_ok s p x ->
  step_th s p ops = Some (s1, p', ops', o) -> In (2000, 0, 0) o ->
  (site_of o = 36 \/ site_of o = 41) /\ p' = POp /\
  (absq s = [] \/
   exists c v, site_of o = 41 /\ g_op x = Some (2, c) /\ In (2001, v, 0) o /\ ~ v < c /\
     In v (g_fronts x) /\
     (arg1_of o = head s -> exists r, absq s = v :: r)).
Proof.
  intros s Lp Lq p ops x s1 p' ops' o HI Hok Hg Hst Hin.
  destruct p; step_cases Hst; in_obs Hin; clear Hin; cbn [site_of arg1_of].
  - apply Z.eqb_eq in Heqb. split; [auto|split; [reflexivity|]]. left.
    exact (pre_null_empty HI Hok Heqb).
  - apply Z.eqb_eq in Heqb. split; [auto|split; [reflexivity|]]. left.
    exact (pre_null_empty HI Hok Heqb).
  - apply Z.eqb_neq in Heqb. apply Z.ltb_ge in Heqb0. destruct Hg as [Hgo [Hgl Hgf]].
    split; [auto|split; [reflexivity|]]. right.
    exists c, (valof (heap s1) (nextof (heap s1) hd)).
    split; [reflexivity|]. split; [exact Hgo|]. split; [cbn [In]; auto|].
    split; [lia|]. split; [exact (Hgf Heqb)|].
    intros ->. rewrite (absq_inv HI).
    destruct (head_next_cases HI) as [[_ H0]|[Lq' [-> _]]]; [contradiction|].
    eexists. reflexivity.
Qed.

Lemma step_th_site42 : forall s p ops x s1 p' ops' o,
  gpc_ok s p x -> step_th s p ops = Some (s1, p', ops', o) -> site_of o = 42 ->
  exists c, g_op x = Some (2, c) /\
            g_pred x = Some (valof (heap s) (arg2_of o)) /\ valof (heap s) (arg2_of o) < c.
Proof.
  intros s p ops x s1 p' ops' o Hg Hst Hs.
  destruct p; step_cases Hst; cbn [site_of] in Hs; try discriminate Hs;
    cbn [gpc_ok] in Hg; destruct Hg as [H1 [H4 [H2 H3]]]; exists c; cbn [arg2_of]; auto.
Qed.

(** [g_pred] / [g_op] of [t] under [t]'s own steps *)
Lemma mon_pred_self : forall s o s' g t,
  g_pred (gt (mon s t o s' g) t) =
    if site_of o =? 1 then None
    else if site_of o =? 41 then
      match find_pred o with Some v => Some v | None => g_pred (gt g t) end
    else g_pred (gt g t).
Proof.
  intros s o s' g t. cbn [mon gt]. rewrite Nat.eqb_refl.
  unfold add_fronts, set_fronts. cbn [g_pred]. unfold mon_self.
  destruct (site_of o =? 1) eqn:E1; [reflexivity|].
  destruct (Z.eqb_spec (site_of o) 41) as [E41|E41].
  - rewrite E41. cbn. destruct (find_pred o); reflexivity.
  - destruct ((site_of o =? 35) || (site_of o =? 40)); [reflexivity|].
    destruct (kind_of s o); reflexivity.
Qed.

Lemma mon_op_self : forall s o s' g t,
  g_op (gt (mon s t o s' g) t) =
    if site_of o =? 1 then Some (arg1_of o, arg2_of o) else g_op (gt g t).
Proof.
  intros s o s' g t. cbn [mon gt]. rewrite Nat.eqb_refl.
  unfold add_fronts, set_fronts. cbn [g_op]. unfold mon_self.
  destruct (site_of o =? 1) eqn:E1; [reflexivity|].
  destruct ((site_of o =? 35) || (site_of o =? 40)); [reflexivity|].
  destruct (site_of o =? 41); [destruct (find_pred o); reflexivity|].
  destruct (kind_of s o); reflexivity.
Qed.

Lemma NoDup_app_l : forall (A B : list Z), NoDup (A ++ B) -> NoDup A.
Proof.
  induction A as [|a A IH]; intros B H; [constructor|].
  cbn [app] in H. inversion H as [|a' l Ha Hl]; subst. constructor.
  - intros Hin. apply Ha. apply in_or_app. left. exact Hin.
  - exact (IH _ Hl).
Qed.

(** ** The C17 theorems *)

(** C17_push_lp: a successful CAS at site 33 appends exactly the value of the
    running push operation ([g_op] = the [1 0 v] observation of that thread);
    a successful head CAS removes the first element; no other step changes [absq]. *)
Theorem C17_push_lp : forall prog s g t s' o,
  greach prog s g -> stepT s t = Some (s', o) ->
  (forall onto new, kind_of s o = KPush onto new ->
     exists v, g_op (gt g t) = Some (0, v) /\ absq s' = absq s ++ [v]) /\
  (forall h n, kind_of s o = KPop h n -> exists v, absq s = v :: absq s') /\
  (kind_of s o = KOther -> absq s' = absq s).
Proof.
  intros prog s g t s' o Hr Hst. pose proof (C17_lp _ Hr Hst) as H.
  repeat split.
  - intros onto new E. rewrite E in H. destruct H as [v [H1 [_ H2]]]. exists v. auto.
  - intros h n E. rewrite E in H. destruct H as [r [H1 [H2 _]]].
    exists (valof (heap s) n). rewrite H2. exact H1.
  - intros E. rewrite E in H. exact H.
Qed.

(** C17_pop_lp: a successful head CAS (site 37 or 42) removes exactly the first
    element [v] of [absq] and records it in [g_lp]; an operation that returns
    [Some v] ([2000 1 v]) returns the element recorded in [g_lp], i.e. the one
    removed by its own last successful head CAS ([mon_lp_self], [mon_frame]). *)
Theorem C17_pop_lp : forall prog s g t s' o,
  greach prog s g -> stepT s t = Some (s', o) ->
  (forall h n, kind_of s o = KPop h n ->
     exists v, absq s = v :: absq s' /\ g_lp (gt (mon s t o s' g) t) = Some v) /\
  (forall v, In (2000, 1, v) o ->
     g_lp (gt g t) = Some v /\ g_lp (gt (mon s t o s' g) t) = Some v).
Proof.
  intros prog s g t s' o Hr Hst. split.
  - intros h n E. pose proof (C17_lp _ Hr Hst) as H. rewrite E in H.
    destruct H as [r [H1 [H2 H3]]]. exists (valof (heap s) n). rewrite H2. auto.
  - intros v Hin. destruct (Inv_reach Hr) as [Lp [Lq HInv]].
    destruct (@stepT_inv _ _ _ _ Hst) as [th [s1 [p' [ops' [Eth [Est _]]]]]].
    destruct (@step_th_ret_some _ _ _ _ _ _ _ _ _ (I_gpc HInv _ Eth) Est Hin) as [Hlp _].
    split; [exact Hlp|]. rewrite mon_lp_self.
    (* the returning step is neither an operation start nor a head CAS *)
    clear - Est Hin Hlp.
    destruct (tpc th); step_cases Est; in_obs Hin; unfold kind_of; cbn; exact Hlp.
Qed.

(** FIFO / at-most-once: the values pushed (in order of their linearization
    points) are the values popped (in order of theirs) followed by the current
    contents; every node is removed at most once. *)
Theorem C17_fifo : forall prog s g, greach prog s g ->
  g_pushed g = g_popped g ++ absq s /\
  NoDup (g_popped_ids g) /\
  g_popped g = map (valof (heap s)) (g_popped_ids g).
Proof.
  intros prog s g Hr. destruct (Inv_reach Hr) as [Lp [Lq HInv]].
  pose proof (I_sh HInv) as HI. pose proof (I_g HInv) as HG.
  split; [|split].
  - rewrite (gi_pushed HG), map_app, (gi_popped HG), (absq_inv HI). reflexivity.
  - pose proof (si_nodup HI) as Hnd. unfold fullL in Hnd.
    change (head s :: Lq) with ([head s] ++ Lq) in Hnd. rewrite app_assoc in Hnd.
    apply NoDup_app_l in Hnd. rewrite <- (gi_ids HG) in Hnd.
    inversion Hnd; assumption.
  - exact (gi_popped HG).
Qed.

(** C17_pop_if_elem *)
Theorem C17_pop_if_elem : forall prog s g t s' o,
  greach prog s g -> stepT s t = Some (s', o) ->
  (forall h n, kind_of s o = KPop h n -> site_of o = 42 ->
     exists c v, g_op (gt g t) = Some (2, c) /\ absq s = v :: absq s' /\
                 g_pred (gt g t) = Some v /\ v < c) /\
  (forall v c, In (2000, 1, v) o -> g_op (gt g t) = Some (2, c) ->
     g_pred (gt g t) = Some v /\ g_lp (gt g t) = Some v /\ v < c).
Proof.
  intros prog s g t s' o Hr Hst.
  destruct (Inv_reach Hr) as [Lp [Lq HInv]].
  destruct (@stepT_inv _ _ _ _ Hst) as [th [s1 [p' [ops' [Eth [Est _]]]]]].
  split.
  - intros h n E Hs. pose proof (C17_lp _ Hr Hst) as H. rewrite E in H.
    destruct H as [r [H1 [H2 _]]].
    destruct (@step_th_site42 _ _ _ _ _ _ _ _ (I_gpc HInv _ Eth) Est Hs) as [c [Hc1 [Hc2 Hc3]]].
    destruct (@kind_pop_site _ _ _ _ E) as [_ [_ [En _]]]. rewrite En in Hc2, Hc3.
    exists c, (valof (heap s) n). rewrite H2. auto.
  - intros v c Hin Hop.
    destruct (@step_th_ret_some _ _ _ _ _ _ _ _ _ (I_gpc HInv _ Eth) Est Hin) as [Hlp [_ Hp]].
    destruct (Hp _ Hop). auto.
Qed.

(** C17_none.  NOTE: the statement asked for ("the first element of [absq] at the
    site-41 step failed the predicate") is FALSE when the head snapshot is stale,
    see [C17_none_stale_head] below.  What holds: [absq] is empty, or the predicate
    failed on a value [v] that was the first element of [absq] at some state since
    this operation's head load (site 40) -- [g_fronts] -- and [v] IS the first
    element at this very step whenever the snapshot is still the head. *)
Theorem C17_none : forall prog s g t s' o,
  greach prog s g -> stepT s t = Some (s', o) -> In (2000, 0, 0) o ->
  (site_of o = 36 \/ site_of o = 41) /\
  (absq s = [] \/
   exists c v, site_of o = 41 /\ g_op (gt g t) = Some (2, c) /\
     In (2001, v, 0) o /\ ~ v < c /\
     In v (g_fronts (gt g t)) /\
     (arg1_of o = head s -> exists r, absq s = v :: r)).
Proof.
  intros prog s g t s' o Hr Hst Hin.
  destruct (Inv_reach Hr) as [Lp [Lq HInv]].
  destruct (@stepT_inv _ _ _ _ Hst) as [th [s1 [p' [ops' [Eth [Est _]]]]]].
  destruct (@step_th_ret_none _ _ _ _ _ _ _ _ _ _ (I_sh HInv) (I_pc HInv _ Eth) (I_gpc HInv _ Eth) Est Hin)
    as [H1 [_ H2]].
  auto.
Qed.


(** Original (literal) statement of C17_none, NOT provable -- refuted by
    [C17_none_stale_head] at the end of this file:

    Theorem C17_none_literal : forall prog s g t s' o,
      greach prog s g -> stepT s t = Some (s', o) -> In (2000, 0, 0) o ->
      (site_of o = 36 \/ site_of o = 41) /\
      (absq s = [] \/
       exists c v r, g_op (gt g t) = Some (2, c) /\ absq s = v :: r /\ ~ v < c).

    [C17_none] above is the strongest correct version; the alias below follows the
    naming convention for weakened statements. *)
Definition C17_none_partial := C17_none.

(** An operation removes at most one element, and only operations that return
    [Some _] remove one: at a head CAS of [t] (successful or not) [t]'s operation has
    not removed anything yet, and an operation returning None or a push has
    [g_lp] = None.  Together with [C17_pop_lp] and [C17_fifo]: every element is
    returned at most once, by the operation that removed it. *)
Lemma step_th_lp_none : forall s p ops x s1 p' ops' o,
  gpc_ok s p x -> step_th s p ops = Some (s1, p', ops', o) ->
  site_of o = 37 \/ site_of o = 42 \/ In (2000, 0, 0) o \/ In (2000, 2, 0) o ->
  g_lp x = None.
Proof.
  intros s p ops x s1 p' ops' o Hg Hst H.
  destruct p; step_cases Hst; cbn [site_of] in H;
    destruct H as [H|[H|[H|H]]]; try discriminate H; in_obs H;
    cbn [gpc_ok] in Hg; tauto.
Qed.

Theorem C17_one_removal_per_op : forall prog s g t s' o,
  greach prog s g -> stepT s t = Some (s', o) ->
  (forall h n, kind_of s o = KPop h n -> g_lp (gt g t) = None) /\
  (In (2000, 0, 0) o \/ In (2000, 2, 0) o -> g_lp (gt g t) = None).
Proof.
  intros prog s g t s' o Hr Hst.
  destruct (Inv_reach Hr) as [Lp [Lq HInv]].
  destruct (@stepT_inv _ _ _ _ Hst) as [th [s1 [p' [ops' [Eth [Est _]]]]]].
  split.
  - intros h n E. destruct (@kind_pop_site _ _ _ _ E) as [Hs _].
    apply (@step_th_lp_none _ _ _ _ _ _ _ _ (I_gpc HInv _ Eth) Est). tauto.
  - intros H. apply (@step_th_lp_none _ _ _ _ _ _ _ _ (I_gpc HInv _ Eth) Est). tauto.
Qed.

(** ** Structural invariants, as stand-alone theorems *)

(** chain from the sentinel: finite, duplicate free, ends in a node with null
    [next]; [head] and [tail] are on it; all its ids are below [fresh];
    unlinked nodes have a null [next]; [absq_ids] is the part after [head];
    the part up to [head] is the sentinel followed by the removed nodes. *)
Theorem C17_structure : forall prog s g, greach prog s g ->
  exists Lp Lq,
    seg (heap s) 1 (Lp ++ head s :: Lq) 0 /\
    NoDup (Lp ++ head s :: Lq) /\
    (forall x, In x (Lp ++ head s :: Lq) -> 0 < x < fresh s) /\
    In (tail s) (Lp ++ head s :: Lq) /\
    (forall x, 0 < x -> ~ In x (Lp ++ head s :: Lq) -> nextof (heap s) x = 0) /\
    fresh s = Z.of_nat (length (heap s)) /\
    absq_ids s = Lq /\
    1 :: g_popped_ids g = Lp ++ [head s].
Proof.
  intros prog s g Hr. destruct (Inv_reach Hr) as [Lp [Lq HInv]].
  pose proof (I_sh HInv) as HI. exists Lp, Lq.
  split; [exact (si_chain HI)|]. split; [exact (si_nodup HI)|].
  split; [exact (si_range HI)|]. split; [exact (si_tail HI)|].
  split; [exact (si_unl HI)|]. split; [exact (si_fresh HI)|].
  split; [exact (absq_ids_inv HI)|exact (gi_ids (I_g HInv))].
Qed.

(** [next] fields are write-once, values are immutable, ids only grow *)
Theorem C17_write_once : forall prog s g t s' o,
  greach prog s g -> stepT s t = Some (s', o) ->
  (forall x, nextof (heap s) x <> 0 -> nextof (heap s') x = nextof (heap s) x) /\
  (forall x, 0 < x < fresh s -> valof (heap s') x = valof (heap s) x) /\
  fresh s <= fresh s'.
Proof.
  intros prog s g t s' o Hr Hst. destruct (Inv_reach Hr) as [Lp [Lq HInv]].
  destruct (Inv_step _ HInv Hst) as [Lp' [Lq' [lk [_ [_ [H1 [H2 H3]]]]]]]. auto.
Qed.

(** allocation ids are fresh: the id of a [1229 id 0] observation is [fresh s],
    which is above every id on the chain ([C17_structure]) *)
Theorem C17_fresh_id : forall s t s' o id,
  stepT s t = Some (s', o) -> In (1229, id, 0) o ->
  id = fresh s /\ fresh s' = id + 1.
Proof.
  intros s t s' o id Hst Hin.
  destruct (@stepT_inv _ _ _ _ Hst) as [th [s1 [p' [ops' [Eth [Est ->]]]]]].
  destruct (tpc th); step_cases Est; in_obs Hin; inversion Hin; subst; clear Hin.
  cbn [set_threads set_heap fresh]. split; reflexivity.
Qed.

(** ** Executing schedules; connection with [replay] *)
Fixpoint exec (s : state) (g : ghost) (sched : list nat) : state * ghost :=
  match sched with
  | [] => (s, g)
  | t :: r =>
      match stepT s t with
      | Some (s', o) => exec s' (mon s t o s' g) r
      | None => exec s g r
      end
  end.

Lemma exec_greach : forall prog sched s g, greach prog s g ->
  greach prog (fst (exec s g sched)) (snd (exec s g sched)).
Proof.
  induction sched as [|t r IH]; intros s g H; cbn [exec]; [exact H|].
  destruct (stepT s t) as [[s' o]|] eqn:E.
  - apply IH. eapply gr_step; eassumption.
  - apply IH. exact H.
Qed.

(** [replay] is the iteration of [stepT] with flattened observations *)
Fixpoint exec_obs (s : state) (sched : list nat) : list (list Z) :=
  match sched with
  | [] => []
  | t :: r =>
      match stepT s t with
      | Some (s', o) => flat o :: exec_obs s' r
      | None => [-999] :: exec_obs s r
      end
  end.

Lemma replay_exec_obs : forall sched s,
  replay_from s (map Z.of_nat sched) = exec_obs s sched.
Proof.
  induction sched as [|t r IH]; intros s; cbn [map replay_from exec_obs]; [reflexivity|].
  assert (E : (Z.of_nat t <? 0) = false) by (apply Z.ltb_ge; lia).
  rewrite E, Nat2Z.id. unfold step.
  destruct (stepT s t) as [[s' o]|]; rewrite IH; reflexivity.
Qed.

(** ** Examples on a trace recorded from the real code
    (harness: queue --cases 200 --seed 7, line 149 of the output). *)
Definition ex_prog : list Z :=
  [-1; 0; 1; 2; 3; 1; 0; 2; -1; 2; 3; 0; 3; 2; 1; 1; -1; 0; 4; 1; 0; 5; 2; 6].
(** first 28 steps of the recorded schedule *)
Definition ex_sched : list nat :=
  [0; 2; 2; 0; 0; 2; 1; 2; 2; 2; 1; 0; 2; 0; 0; 0; 0; 1; 0; 0; 0; 0; 0; 2; 2; 0; 0; 2]%nat.
Definition ex_state : state := fst (exec (init ex_prog) ghost0 ex_sched).
Definition ex_ghost : ghost := snd (exec (init ex_prog) ghost0 ex_sched).

(** the model reproduces the recorded observations of these 28 steps and of step 29 *)
Example ex_replay :
  replay ex_prog (map Z.of_nat (ex_sched ++ [1%nat])) =
  [ []; []; [1; 0; 4; 1229; 2; 0]; [1; 0; 1; 1229; 3; 0]; [30; 3; 0; 1230; 1; 0];
    [30; 2; 0; 1230; 1; 0]; []; [31; 1; 0; 1231; 0; 0]; [33; 1; 2];
    [34; 1; 2; 2000; 2; 0]; [1; 2; 3]; [31; 1; 0; 1231; 2; 0]; [1; 1; 0]; [32; 1; 2];
    [30; 3; 0; 1230; 2; 0]; [31; 2; 0; 1231; 0; 0]; [33; 2; 3]; [40; 0; 0; 1240; 1; 0];
    [34; 2; 3; 2000; 2; 0]; [1; 2; 3]; [40; 0; 0; 1240; 1; 0];
    [41; 1; 0; 1241; 2; 0; 2001; 4; 0; 2000; 0; 0]; [1; 1; 0]; [35; 0; 0; 1235; 1; 0];
    [36; 1; 0; 1236; 2; 0]; [35; 0; 0; 1235; 1; 0]; [36; 1; 0; 1236; 2; 0]; [37; 1; 2];
    [41; 1; 0; 1241; 2; 0; 2001; 4; 0; 2000; 0; 0] ].
Proof. vm_compute. reflexivity. Qed.

(** The invariant is satisfiable on a non-trivial reachable state: after these 28
    steps two nodes were linked, one was removed, one pop is past its
    linearization point but has not returned yet, [tail] is ahead of [head]. *)
Example ex_reachable :
  greach ex_prog ex_state ex_ghost /\
  (exists Lp Lq, Inv ex_state ex_ghost Lp Lq) /\
  head ex_state = 2 /\ tail ex_state = 3 /\ fresh ex_state = 4 /\
  absq_ids ex_state = [3] /\ absq ex_state = [1] /\
  g_pushed ex_ghost = [4; 1] /\ g_popped ex_ghost = [4] /\ g_popped_ids ex_ghost = [2] /\
  g_lp (gt ex_ghost 2%nat) = Some 4 /\
  map tpc (threads ex_state) = [P37 1 2; P41 3 1; P38 1 2].
Proof.
  assert (H : greach ex_prog ex_state ex_ghost).
  { unfold ex_state, ex_ghost. apply exec_greach. constructor. }
  split; [exact H|]. split; [exact (Inv_reach H)|].
  vm_compute. repeat split; reflexivity.
Qed.

(** The literal statement of C17_none ("the first element of [absq] at the site-41
    step failed the predicate") does NOT hold: in the recorded run above, thread 1
    executes [try_pop_if (|x| x < 3)], loads [head] = node 1 (step 21), thread 2 then
    removes the first element 4 (step 28), and at step 29 thread 1 loads the stale
    [node 1].next = node 2, evaluates the predicate on 4 (false) and returns None,
    although the first element of [absq] at that step is 1, which satisfies the
    predicate.  (Still linearizable: linearize at the head load.)  [C17_none]
    above states what does hold. *)
Example C17_none_stale_head :
  exists s g t s' o,
    greach ex_prog s g /\ stepT s t = Some (s', o) /\
    In (2000, 0, 0) o /\ In (2001, 4, 0) o /\ site_of o = 41 /\
    g_op (gt g t) = Some (2, 3) /\
    absq s = [1] /\ 1 < 3 /\ In 4 (g_fronts (gt g t)) /\ arg1_of o <> head s.
Proof.
  exists ex_state, ex_ghost, 1%nat.
  destruct (stepT ex_state 1) as [[s' o]|] eqn:E; [|vm_compute in E; discriminate E].
  exists s', o.
  split; [unfold ex_state, ex_ghost; apply exec_greach; constructor|].
  split; [reflexivity|].
  vm_compute in E. inversion E; subst; clear E.
  vm_compute. repeat split; auto; try discriminate.
Qed.

(** ** Axiom audit: everything must be "Closed under the global context" *)
Print Assumptions Inv_reach.
Print Assumptions C17_structure.
Print Assumptions C17_write_once.
Print Assumptions C17_fresh_id.
Print Assumptions C17_lp.
Print Assumptions C17_push_lp.
Print Assumptions C17_pop_lp.
Print Assumptions C17_fifo.
Print Assumptions C17_pop_if_elem.
Print Assumptions C17_none.
Print Assumptions C17_one_removal_per_op.
Print Assumptions mon_frame.
Print Assumptions replay_exec_obs.
Print Assumptions ex_replay.
Print Assumptions ex_reachable.
Print Assumptions C17_none_stale_head.
