(* The concrete collector (Ebr.v) obeys every rule of the ABSTRACT EBR layer that the reference-counting machine
   Rc.v is built on (DESIGN 8.2).  The layer has four rules; a run of Rc.v that breaks one sets its [err] field,
   and every theorem about Rc.v assumes [err = 0].  Here each rule is a theorem about every reachable state and
   every transition of Ebr.v, so an oracle recorded from the collector never trips them:

     advance : the global epoch moves (by exactly one) only when every participant inside a critical section has
               announced the current epoch                                   (Rc.can_advance, error 3)
     enter   : a participant that enters a critical section has announced the epoch current at that moment, and
               gets a fresh serial                                           (Rc.with_guard at pin)
     defer   : a deferred function is recorded with the global epoch and the set of active critical sections of
               the moment it is put into the bag                             (Rc.defer)
     run     : a deferred function starts only when the global epoch is at least EXPIRE_AFTER past the epoch it was
               recorded with, and no critical section recorded with it is still active
                                                                             (Rc.see_epoch (pG + EXPIRE_AFTER), closure_grace)
   (that only pending functions run, each once, is C15_exactly_once.) *)
From Coq Require Import ZArith List Bool Lia Arith.
Import ListNotations.
Require Import Params Ebr EbrP.
Local Open Scope Z_scope.

Lemma getl_setl_same s t l l' : getl s t = Some l -> getl (setl s t l') t = Some l'.
Proof. unfold getl, setl; cbn. apply nth_set_nth_same. Qed.
Lemma getl_setl_other s t q l' : t <> q -> getl (setl s t l') q = getl s q.
Proof. unfold getl, setl; cbn. intros. apply nth_set_nth_other; auto. Qed.

(* what one transition can do to the global epoch and to the [incs] flag of any participant *)
Ltac crush_micro H :=
  repeat match type of H with
         | context [match ?x with _ => _ end] => destruct x eqn:?
         | context [if ?x then _ else _] => destruct x eqn:?
         end; try discriminate; inversion H; subst; clear H.

Lemma G_changes_only_at_adv20 s t s' o l :
  getl s t = Some l -> micro s t = Some (s', o) -> G s' <> G s ->
  exists ge k, frames l = FAdv20 ge :: k /\ G s' = ge + 1.
Proof.
  intros Hl H Hne. unfold micro in H. rewrite Hl in H.
  destruct (frames l) as [|f k] eqn:Hf; [discriminate|].
  destruct f; try (crush_micro H; cbn in Hne; congruence).
  exists ge, k. split; auto. inversion H; subst. reflexivity.
Qed.

Theorem abs_advance_rule s t s' o :
  Inv s -> micro s t = Some (s', o) -> G s' <> G s ->
  G s' = G s + 1 /\
  forall q lq, nth_error (threads s) q = Some lq -> incs lq = true -> ann lq = G s.
Proof.
  intros I H Hne. pose proof (C14_monotone_micro s t s' o I H) as Hm.
  assert (Hs : G s' = G s + 1) by lia. split; auto.
  assert (Hl : exists l, getl s t = Some l).
  { unfold micro in H. destruct (getl s t) eqn:E; [eauto|discriminate]. }
  destruct Hl as (l & Hl). destruct (G_changes_only_at_adv20 s t s' o l Hl H Hne) as (ge & k & Hf & Hg).
  assert (Hge : ge = G s) by lia. subst ge.
  pose proof (t_top _ _ (i_threads _ I t l Hl)) as Ht. unfold top_ok in Ht. rewrite Hf in Ht.
  destruct Ht as (_ & _ & _ & Hall).
  intros q lq Hq Hi. pose proof (i_threads _ I q lq Hq) as Tq.
  pose proof (t_incs _ _ Tq Hi) as Hv. destruct (t_valid _ _ Tq Hv) as (Hp & _).
  pose proof (t_ann _ _ Tq Hp). specialize (Hall q lq Hq (fun x => x) Hv). lia.
Qed.

Lemma incs_set_only_at_pin12 s t s' o l q lq lq' :
  getl s t = Some l -> micro s t = Some (s', o) ->
  nth_error (threads s) q = Some lq -> nth_error (threads s') q = Some lq' ->
  incs lq = false -> incs lq' = true ->
  q = t /\ exists r k, frames l = FPin12 r :: k /\ G s = r /\ G s' = G s /\ ann lq' = ann l /\ serial lq' = S (serial l) /\ collecting l = false.
Proof.
  intros Hl H Hq Hq' Hi Hi'.
  destruct (Nat.eq_dec t q) as [<-|Hne].
  - split; auto. assert (lq = l) by (unfold getl in Hl; congruence). subst lq.
    unfold micro in H. rewrite Hl in H. destruct (frames l) as [|f k] eqn:Hf; [discriminate|].
    destruct f;
      try (crush_micro H;
           match goal with
           | Hq' : nth_error (threads (setl _ _ _)) _ = Some _ |- _ =>
               unfold setl in Hq'; cbn in Hq'; erewrite nth_set_nth_same in Hq' by eassumption; inversion Hq'; subst; cbn in Hi'; congruence
           | Hq' : nth_error (threads _) _ = Some _ |- _ =>
               cbn in Hq'; erewrite nth_set_nth_same in Hq' by eassumption; inversion Hq'; subst; cbn in Hi'; congruence
           end).
    (* FPin12 *)
    exists r, k. destruct (G s =? r) eqn:E.
    + inversion H; subst; clear H. unfold setl in Hq'; cbn in Hq'. erewrite nth_set_nth_same in Hq' by eassumption.
      inversion Hq'; subst; clear Hq'. cbn in Hi' |- *. apply Z.eqb_eq in E.
      destruct (collecting l); [discriminate|]. repeat split; auto.
    + inversion H; subst; clear H. unfold setl in Hq'; cbn in Hq'. erewrite nth_set_nth_same in Hq' by eassumption.
      inversion Hq'; subst. cbn in Hi'. congruence.
  - exfalso. assert (nth_error (threads s') q = nth_error (threads s) q).
    { unfold micro in H. rewrite Hl in H. destruct (frames l) as [|f k]; [discriminate|].
      destruct f; crush_micro H; cbn; try (unfold setl; cbn); rewrite ?nth_set_nth_other by auto; reflexivity. }
    congruence.
Qed.

Theorem abs_enter_rule s t s' o q lq lq' :
  Inv s -> micro s t = Some (s', o) ->
  nth_error (threads s) q = Some lq -> nth_error (threads s') q = Some lq' ->
  incs lq = false -> incs lq' = true ->
  q = t /\ ann lq' = G s /\ G s' = G s /\ serial lq' = S (serial lq).
Proof.
  intros I H Hq Hq' Hi Hi'.
  assert (Hl : exists l, getl s t = Some l).
  { unfold micro in H. destruct (getl s t) eqn:E; [eauto|discriminate]. }
  destruct Hl as (l & Hl).
  destruct (incs_set_only_at_pin12 s t s' o l q lq lq' Hl H Hq Hq' Hi Hi') as (-> & r & k & Hf & Hg & Hg' & Ha & Hs & _).
  assert (lq = l) by (unfold getl in Hl; congruence). subst lq.
  pose proof (t_top _ _ (i_threads _ I t l Hl)) as Ht. unfold top_ok in Ht. rewrite Hf in Ht.
  destruct Ht as (_ & Har & _). repeat split; auto. congruence.
Qed.

Theorem abs_run_rule s t l d rest k :
  Inv s -> nth_error (threads s) t = Some l -> frames l = FRunItems (d :: rest) :: k ->
  dG d + EXPIRE_AFTER <= G s /\
  forall q n lq, In (q, n) (wit d) -> nth_error (threads s) q = Some lq -> ~ (incs lq = true /\ serial lq = n).
Proof.
  intros I Hl Hf. split.
  - pose proof (t_frames _ _ (i_threads _ I t l Hl)) as Fr. rewrite Hf in Fr.
    inversion Fr as [|? ? Hfo _]; subst. cbn in Hfo. inversion Hfo as [|? ? Hr _]; subst. destruct Hr as [Hr _]. exact Hr.
  - eapply C13_grace_micro; eauto.
Qed.

(* the four rules along every run of the collector *)
Theorem ebr_obeys_abstract_layer c g0 progs sched t s' o :
  let s := mrun (init_state c g0 progs) sched in
  micro s t = Some (s', o) ->
  (* advance *)
  (G s' <> G s -> G s' = G s + 1 /\ forall q lq, nth_error (threads s) q = Some lq -> incs lq = true -> ann lq = G s) /\
  (* enter *)
  (forall q lq lq', nth_error (threads s) q = Some lq -> nth_error (threads s') q = Some lq' ->
     incs lq = false -> incs lq' = true -> q = t /\ ann lq' = G s /\ G s' = G s /\ serial lq' = S (serial lq)) /\
  (* run *)
  (forall l d rest k, nth_error (threads s) t = Some l -> frames l = FRunItems (d :: rest) :: k ->
     dG d + EXPIRE_AFTER <= G s /\
     forall q n lq, In (q, n) (wit d) -> nth_error (threads s) q = Some lq -> ~ (incs lq = true /\ serial lq = n)) /\
  (* defer *)
  (forall l d k, nth_error (threads s) t = Some l -> frames l = FDefer d :: k -> (length (bag l) < cap s)%nat ->
     exists l', nth_error (threads s') t = Some l' /\
                bag l' = bag l ++ [{| did := did d; dbody := dbody d; dG := G s; wit := witnesses s |}]).
Proof.
  intros s H. assert (I : Inv s) by (apply mrun_inv, init_inv).
  split; [|split; [|split]].
  - intros Hne. apply (abs_advance_rule s t s' o I H Hne).
  - intros q lq lq' Hq Hq' Hi Hi'. eapply abs_enter_rule; eauto.
  - intros l d rest k Hl Hf. eapply abs_run_rule; eauto.
  - intros l d k Hl Hf Hb. eapply defer_records; eauto.
Qed.
