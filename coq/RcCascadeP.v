(* Single-pass cascade theorems for chains of ARBITRARY length in the model Rc.v:
   (A) a chain of old nodes no longer than DEPTH_CAP is destructed completely in one pass,
   (B) a node with one extra owner stops the cascade,
   (C) at DEPTH_CAP the cascade defers. *)
From Coq Require Import ZArith List Bool Lia.
Import ListNotations.
Require Import Params StateW ModularW DisposeW Bits StateP ModularP Rc.
Local Open Scope Z_scope.

(* StateP.word (range predicate) vs Rc.word (field of obj) *)
Notation wordp := StateP.word.
Notation oword := Rc.word.

(* ---- running one thread with the empty oracle *)
Fixpoint iter_micro (n : nat) (s : state) (t : nat) : state :=
  match n with
  | O => s
  | S m => match micro s t [] with
           | Some (s', _) => iter_micro m s' t
           | None => s
           end
  end.

Lemma iter_S n s t s' o : micro s t [] = Some (s', o) -> iter_micro (S n) s t = iter_micro n s' t.
Proof. intros H. cbn [iter_micro]. rewrite H. reflexivity. Qed.

Lemma iter_stuck n s t : micro s t [] = None -> iter_micro n s t = s.
Proof. intros H. destruct n; cbn [iter_micro]; [|rewrite H]; reflexivity. Qed.

Lemma iter_add a b s t : iter_micro (a + b) s t = iter_micro b (iter_micro a s t) t.
Proof.
  revert s. induction a as [|a IH]; intros s; [reflexivity|].
  cbn [Nat.add iter_micro]. destruct (micro s t []) as [[s' o]|] eqn:E; [apply IH|].
  symmetry. apply iter_stuck. exact E.
Qed.

(* ---- frame rules *)
Lemma nth_error_set_nth_same {A} (l : list A) n x y : nth_error l n = Some y -> nth_error (set_nth l n x) n = Some x.
Proof. revert n. induction l as [|a l IH]; intros [|n]; cbn; try congruence. apply IH. Qed.

Lemma nth_error_set_nth_other {A} (l : list A) n m x : n <> m -> nth_error (set_nth l n x) m = nth_error l m.
Proof.
  revert n m. induction l as [|a l IH]; intros [|n] [|m] H; cbn; try congruence; try reflexivity.
  apply IH. congruence.
Qed.

Lemma set_nth_set_nth {A} (l : list A) n x y : set_nth (set_nth l n x) n y = set_nth l n y.
Proof. revert n. induction l as [|a l IH]; intros [|n]; cbn; try reflexivity. f_equal. apply IH. Qed.

Lemma gett_sett_same s t x y : gett s t = Some y -> gett (sett s t x) t = Some x.
Proof. unfold gett, sett. cbn [threads]. apply nth_error_set_nth_same. Qed.
Lemma gett_sett_other s t t' x : t <> t' -> gett (sett s t x) t' = gett s t'.
Proof. unfold gett, sett. cbn [threads]. apply nth_error_set_nth_other. Qed.
Lemma geto_sett s t x o : geto (sett s t x) o = geto s o.
Proof. reflexivity. Qed.
Lemma gett_seto s o ob t : gett (seto s o ob) t = gett s t.
Proof. destruct o; reflexivity. Qed.
Lemma geto_seto_same s o ob y : geto s o = Some y -> geto (seto s o ob) o = Some ob.
Proof. destruct o as [|i]; cbn; [congruence|]. apply nth_error_set_nth_same. Qed.
Lemma geto_seto_other s o o' ob : o <> o' -> geto (seto s o ob) o' = geto s o'.
Proof.
  destruct o as [|i]; [reflexivity|]. destruct o' as [|j]; [reflexivity|]. cbn. intros H.
  apply nth_error_set_nth_other. congruence.
Qed.
Lemma sett_sett s t a b : sett (sett s t a) t b = sett s t b.
Proof. unfold sett. cbn. rewrite set_nth_set_nth. reflexivity. Qed.
Lemma seto_sett s t a o ob : seto (sett s t a) o ob = sett (seto s o ob) t a.
Proof. destruct o; reflexivity. Qed.
Lemma with_frames_idem x a b : with_frames (with_frames x a) b = with_frames x b.
Proof. reflexivity. Qed.
Lemma G_seto s o ob : G (seto s o ob) = G s.
Proof. destruct o; reflexivity. Qed.

Lemma see_epoch_same s : see_epoch s (G s) = s.
Proof. unfold see_epoch. rewrite Z.sub_diag. reflexivity. Qed.

(* ---- one micro step at each frame of dispose_general_node, empty oracle *)
Ltac micro_tac := intros Hg Hf; unfold micro; rewrite Hg, Hf; reflexivity.

Lemma micro_enter s t x o d K : gett s t = Some x -> frames x = FDispEnter o d :: K ->
  micro s t [] = Some (if d >=? DEPTH_CAP then sett (defer s KDestruct o) t (with_frames x K)
                       else sett s t (with_frames x (FDisp115 o d :: K)), [1020; zo o; d]).
Proof. intros Hg Hf; unfold micro; rewrite Hg, Hf. destruct (d >=? DEPTH_CAP); reflexivity. Qed.

Lemma micro_115 s t x o d K ob : gett s t = Some x -> frames x = FDisp115 o d :: K -> geto s o = Some ob ->
  micro s t [] = Some (sett s t (with_frames x (FDisp116 o d (oword ob) :: K)), [115; zo o; 0; 1015; zo o; oword ob]).
Proof. intros Hg Hf Ho; unfold micro; rewrite Hg, Hf, Ho; reflexivity. Qed.

Lemma micro_116 s t x o d w K : gett s t = Some x -> frames x = FDisp116 o d w :: K ->
  dispose_here d (G s) (epoch w) = true ->
  micro s t [] = Some (sett s t (with_frames x ((if 0 <? d then FDisp130 o d w (G s) else FDispDo o d w (G s)) :: K)),
                       [116; zo o; 0; 1016; zo o; G s]).
Proof.
  intros Hg Hf Hd; unfold micro; rewrite Hg, Hf. cbv beta iota zeta.
  change (oracle_epoch s [] 1016) with (G s). rewrite see_epoch_same, Hd. reflexivity.
Qed.

Lemma micro_116_defer s t x o d w K : gett s t = Some x -> frames x = FDisp116 o d w :: K ->
  dispose_here d (G s) (epoch w) = false ->
  micro s t [] = Some (sett (defer s KDestruct o) t (with_frames x K),
                       [116; zo o; 0; 1016; zo o; G s; 1021; zo o; d]).
Proof.
  intros Hg Hf Hd; unfold micro; rewrite Hg, Hf. cbv beta iota zeta.
  change (oracle_epoch s [] 1016) with (G s). rewrite see_epoch_same, Hd. reflexivity.
Qed.

Lemma micro_130 s t x o d w c K ob : gett s t = Some x -> frames x = FDisp130 o d w c :: K -> geto s o = Some ob ->
  strong w = 0 -> oword ob = w ->
  micro s t [] = Some (sett (seto s o (with_word ob (with_destructed w true))) t (with_frames x (FDispDo o d w c :: K)), [130; zo o; w]).
Proof.
  intros Hg Hf Ho Hs Hw; unfold micro; rewrite Hg, Hf, Ho. cbv beta iota zeta.
  rewrite Hs, Hw, Z.eqb_refl, Z.eqb_refl. reflexivity.
Qed.

Lemma micro_do s t x o d w c K ob : gett s t = Some x -> frames x = FDispDo o d w c :: K -> geto s o = Some ob ->
  micro s t [] = Some (sett (seto s o {| oword := oword ob; dropped := true; freed := freed ob; tok := tok ob; wtok := wtok ob;
                               links := map (fun _ => null_link) (links ob) |}) t
                         (with_frames x (FDisp117 o d (epoch w) c (links ob) :: K)), [1101; zo o; d; 1102; zo o; d]).
Proof. intros Hg Hf Ho; unfold micro; rewrite Hg, Hf, Ho; reflexivity. Qed.

Lemma micro_117 s t x o d ne c outs K ob : gett s t = Some x -> frames x = FDisp117 o d ne c outs :: K -> geto s o = Some ob ->
  weaked (oword ob) = false ->
  micro s t [] = Some (sett (seto s o {| oword := oword ob; dropped := dropped ob; freed := true; tok := tok ob; wtok := wtok ob; links := links ob |}) t
                         (with_frames x (FKids d ne c outs :: K)), [117; zo o; 0; 1100; zo o; 0]).
Proof. intros Hg Hf Ho Hw; unfold micro; rewrite Hg, Hf, Ho. cbv beta iota zeta. rewrite Hw. reflexivity. Qed.

Lemma micro_kids_nil s t x d ne c K : gett s t = Some x -> frames x = FKids d ne c [] :: K ->
  micro s t [] = Some (sett s t (with_frames x K), []).
Proof. micro_tac. Qed.

Lemma micro_kids_null s t x d ne c ts r K : gett s t = Some x -> frames x = FKids d ne c ((O, ts) :: r) :: K ->
  micro s t [] = Some (sett s t (with_frames x (FKids d ne c r :: K)), []).
Proof. micro_tac. Qed.

Lemma micro_kids_child s t x d ne c b ts r K : gett s t = Some x -> frames x = FKids d ne c ((S b, ts) :: r) :: K ->
  micro s t [] = Some (sett s t (with_frames x (FKid118 (S b, ts) d ne (G s) r :: K)), [1132; zo (S b); G s]).
Proof.
  intros Hg Hf; unfold micro; rewrite Hg, Hf. cbv beta iota zeta. cbn [fst].
  change (oracle_epoch s [] 1132) with (G s). rewrite see_epoch_same. reflexivity.
Qed.

Lemma micro_118 s t x cl d ne c r K ob : gett s t = Some x -> frames x = FKid118 cl d ne c r :: K -> geto s (fst cl) = Some ob ->
  micro s t [] = Some (sett s t (with_frames x (FKid119 cl (oword ob)
                          (with_epoch (sub_strong (oword ob) 1) (wrap 64 (child_stamp c ne (snd cl) (epoch (oword ob))))) d ne c r :: K)),
                       [118; zo (fst cl); snd cl; 1018; zo (fst cl); oword ob]).
Proof. intros Hg Hf Ho; unfold micro; rewrite Hg, Hf, Ho; reflexivity. Qed.

Lemma micro_119 s t x cl wc nxt d ne c r K ob : gett s t = Some x -> frames x = FKid119 cl wc nxt d ne c r :: K -> geto s (fst cl) = Some ob ->
  oword ob = wc ->
  micro s t [] = Some (sett (seto s (fst cl) (with_word ob nxt)) t
                         (with_frames x (if strong nxt =? 0 then FDispEnter (fst cl) (d + 1) :: FKids d ne c r :: K else FKids d ne c r :: K)),
                       [119; zo (fst cl); nxt; 1019; zo (fst cl); 1]).
Proof.
  intros Hg Hf Ho Hw; unfold micro; rewrite Hg, Hf, Ho. cbv beta iota zeta. rewrite Hw, Z.eqb_refl.
  destruct (strong nxt =? 0); reflexivity.
Qed.

(* ---- word-level facts *)
Lemma wordp_epoch_range w : wordp w -> 0 <= epoch w < 16.
Proof. intros H. rewrite epoch_spec by exact H. fields. lia. Qed.

(* publishing DESTRUCTED *)
Lemma destr_fields w : wordp w ->
  let w' := with_destructed w true in
  wordp w' /\ destructed w' = true /\ weaked w' = weaked w /\ epoch w' = epoch w /\ strong w' = strong w.
Proof.
  intros Hw w'. destruct (with_destructed_indep w true Hw) as [[Hw' S1 S2 S3 S4 S5] Hd]. fold w' in Hw', S1, S2, S3, S4, S5, Hd.
  split; [exact Hw'|].
  rewrite (destructed_spec w'), (weaked_spec w'), (weaked_spec w), (epoch_spec w'), (epoch_spec w),
    (strong_spec w'), (strong_spec w) by assumption.
  rewrite Hd, S1, S3, S5 by reflexivity. repeat split; reflexivity.
Qed.

Lemma destr_idem w : wordp w -> destructed w = true -> with_destructed w true = w.
Proof.
  intros Hw Hd. rewrite with_destructed_spec by exact Hw. rewrite destructed_spec in Hd by exact Hw.
  apply Z.eqb_eq in Hd. rewrite Hd. cbn [Z.b2z]. lia.
Qed.

(* the CAS of FKid118/119: one strong unit removed, stamp replaced *)
Lemma dec_fields w m : wordp w -> 1 <= strong w ->
  let w' := with_epoch (sub_strong w 1) (wrap 64 m) in
  wordp w' /\ strong w' = strong w - 1 /\ weaked w' = weaked w /\ destructed w' = destructed w /\ epoch w' = m mod 16.
Proof.
  intros Hw Hs w'. rewrite strong_spec in Hs by exact Hw.
  destruct (sub_strong_indep w 1 Hw ltac:(lia)) as [[Hw1 _ A2 A3 A4 A5] A1].
  assert (H0 : 0 <= wrap 64 m) by (unfold wrap; lia).
  destruct (with_epoch_indep (sub_strong w 1) (wrap 64 m) Hw1 H0) as [[Hw2 B1 B2 B3 B4 _] _].
  pose proof (stored_stamp (sub_strong w 1) m Hw1) as B5. fold w' in Hw2, B1, B2, B3, B4, B5.
  split; [exact Hw2|].
  rewrite (strong_spec w'), (strong_spec w), (weaked_spec w'), (weaked_spec w), (destructed_spec w'), (destructed_spec w),
    (epoch_spec w') by assumption.
  rewrite B1, B3, B4, B5, A1, A3, A4 by reflexivity. repeat split; reflexivity.
Qed.

(* ---- stamps: "old" = reclaimable now; the merge of old stamps is old *)
Definition old (g e : Z) : Prop := 0 <= e < 16 /\ e <= g + 2 /\ reclaim_now g e = true.

Lemma old_merged g a1 a2 a3 : epoch_ok g -> old g a1 -> old g a2 -> old g a3 -> old g (merged g a1 a2 a3 mod 16).
Proof.
  intros Hg (R1 & L1 & O1) (R2 & L2 & O2) (R3 & L3 & O3).
  rewrite reclaim_now_threshold in O1, O2, O3 by assumption.
  apply Z.leb_le in O1, O2, O3.
  pose proof (merged_decode g a1 a2 a3 Hg R1 R2 R3 L1 L2 L3) as HD.
  pose proof (fold_max3 g a1 a2 a3 Hg R1 R2 R3 L1 L2 L3) as HM.
  set (m := merged g a1 a2 a3 mod 16) in *.
  assert (Rm : 0 <= m < 16) by (subst m; lia).
  assert (Lm : m <= g + 2).
  { unfold decode, RECLAIM_AGE, epoch_ok in *. lia. }
  split; [exact Rm|split; [exact Lm|]].
  rewrite reclaim_now_threshold by assumption. apply Z.leb_le. rewrite HD. lia.
Qed.

(* the stamp the repaired code writes (the maximum, clamped one epoch ahead: finding D13) is the maximum itself
   when the three inputs are old *)
Lemma old_child_stamp g a1 a2 a3 : epoch_ok g -> old g a1 -> old g a2 -> old g a3 -> old g (child_stamp g a1 a2 a3 mod 16).
Proof.
  intros Hg O1 O2 O3. pose proof (old_merged g a1 a2 a3 Hg O1 O2 O3) as (Rm & Lm & Om).
  destruct O1 as (R1 & L1 & _), O2 as (R2 & L2 & _), O3 as (R3 & L3 & _).
  rewrite child_stamp_of_old; try assumption; try reflexivity.
  - split; [exact Rm | split; [exact Lm | exact Om]].
  - rewrite reclaim_now_threshold in Om by assumption. apply Z.leb_le in Om. unfold RECLAIM_AGE in Om. lia.
Qed.

(* ---- the footprint of a run of thread t: only the frames of t and the objects of L change *)
Record upd (s s' : state) (t : nat) (x : thr) (fs : list frame) (L : list nat) : Prop := {
  u_G : G s' = G s;
  u_err : err s' = err s;
  u_cells : cells s' = cells s;
  u_pending : pending s' = pending s;
  u_threads : threads s' = set_nth (threads s) t (with_frames x fs);
  u_objs : forall o, ~ In o L -> geto s' o = geto s o }.

Lemma upd_gett s s' t x fs L : upd s s' t x fs L -> gett s t = Some x -> gett s' t = Some (with_frames x fs).
Proof. intros U Hg. unfold gett in *. rewrite (u_threads _ _ _ _ _ _ U). eapply nth_error_set_nth_same; eauto. Qed.

Lemma upd_gett_other s s' t x fs L t' : upd s s' t x fs L -> t' <> t -> gett s' t' = gett s t'.
Proof. intros U Hn. unfold gett. rewrite (u_threads _ _ _ _ _ _ U). apply nth_error_set_nth_other. congruence. Qed.

Lemma upd_sett s t x fs : upd s (sett s t (with_frames x fs)) t x fs [].
Proof. split; try reflexivity. Qed.

Lemma upd_seto s t x fs o ob : upd s (sett (seto s o ob) t (with_frames x fs)) t x fs [o].
Proof.
  split; try (destruct o; reflexivity).
  intros o' Hn. rewrite geto_sett. apply geto_seto_other. intros ->. apply Hn. left. reflexivity.
Qed.

Lemma upd_trans s s1 s2 t x fs1 fs2 L1 L2 L :
  upd s s1 t x fs1 L1 -> upd s1 s2 t (with_frames x fs1) fs2 L2 -> incl L1 L -> incl L2 L -> upd s s2 t x fs2 L.
Proof.
  intros [A1 A2 A3 A4 A5 A6] [B1 B2 B3 B4 B5 B6] I1 I2. split; try congruence.
  - rewrite B5, A5, set_nth_set_nth. reflexivity.
  - intros o Hn. rewrite B6, A6; auto.
Qed.

Lemma upd_weaken s s' t x fs L L' : upd s s' t x fs L -> incl L L' -> upd s s' t x fs L'.
Proof. intros [A1 A2 A3 A4 A5 A6] I. split; auto. Qed.

(* ---- symbolic execution helpers *)
Lemma run_step s t s' o n s2 : micro s t [] = Some (s', o) -> iter_micro n s' t = s2 -> iter_micro (S n) s t = s2.
Proof. intros H <-. eapply iter_S; eauto. Qed.

Lemma seto_seto s o a b : seto (seto s o a) o b = seto s o b.
Proof. destruct o; [reflexivity|]. unfold seto. cbn. rewrite set_nth_set_nth. reflexivity. Qed.
Lemma G_sett s t x : G (sett s t x) = G s.
Proof. reflexivity. Qed.

Ltac norm := repeat rewrite ?seto_sett, ?sett_sett, ?seto_seto, ?with_frames_idem, ?G_sett, ?G_seto;
  cbn [Rc.word dropped freed tok wtok links with_word].
Ltac gett_tac :=
  match goal with
  | |- gett (sett _ _ _) _ = Some _ => eapply gett_sett_same; rewrite ?gett_seto; eassumption
  | _ => eassumption
  end.
Ltac geto_tac := rewrite ?geto_sett; repeat (first [eassumption | eapply geto_seto_same]).
Ltac frames_tac := first [eassumption | reflexivity].

Definition head_ok (g d w : Z) : Prop :=
  wordp w /\ weaked w = false /\ old g (epoch w) /\ ((d = 0 /\ destructed w = true) \/ (0 < d /\ strong w = 0)).

Definition destructed_obj (oa : obj) : obj :=
  {| oword := with_destructed (oword oa) true; dropped := true; freed := true; tok := tok oa; wtok := wtok oa;
     links := map (fun _ => null_link) (links oa) |}.

Lemma node_destruct s t x a d K oa :
  gett s t = Some x -> frames x = FDispEnter a d :: K -> 0 <= d < DEPTH_CAP ->
  geto s a = Some oa -> head_ok (G s) d (oword oa) ->
  exists n s1, (n <= 6)%nat /\ iter_micro n s t = s1 /\
    upd s s1 t x (FKids d (epoch (oword oa)) (G s) (links oa) :: K) [a] /\
    geto s1 a = Some (destructed_obj oa).
Proof.
  intros Hg Hf Hd Ho (Hw & Hwk & Hold & Hc).
  assert (Hcap : (d >=? DEPTH_CAP) = false) by lia.
  destruct Hc as [[-> Hdes] | [Hpos Hs]].
  - exists 5%nat. eexists. split; [lia|]. split.
    + eapply run_step. { rewrite (micro_enter s t x a 0 K Hg Hf). rewrite Hcap. reflexivity. }
      eapply run_step. { eapply micro_115; [gett_tac|frames_tac|geto_tac]. } norm.
      eapply run_step. { eapply micro_116; [gett_tac|frames_tac|reflexivity]. } norm.
      cbn [Z.ltb Z.compare].
      eapply run_step. { eapply micro_do; [gett_tac|frames_tac|geto_tac]. } norm.
      eapply run_step. { eapply micro_117; [gett_tac|frames_tac|geto_tac|exact Hwk]. } norm.
      cbn [iter_micro]. reflexivity.
    + split; [apply upd_seto|]. unfold destructed_obj. rewrite destr_idem by assumption. geto_tac.
  - destruct (destr_fields (oword oa) Hw) as (Hw' & Hd' & Hwk' & He' & Hs').
    assert (Hlt : (0 <? d) = true) by lia.
    exists 6%nat. eexists. split; [lia|]. split.
    + eapply run_step. { rewrite (micro_enter s t x a d K Hg Hf). rewrite Hcap. reflexivity. }
      eapply run_step. { eapply micro_115; [gett_tac|frames_tac|geto_tac]. } norm.
      eapply run_step. { eapply micro_116; [gett_tac|frames_tac|]. norm. unfold dispose_here. destruct Hold as (_ & _ & ->). apply orb_true_r. } norm.
      rewrite Hlt.
      eapply run_step. { eapply micro_130; [gett_tac|frames_tac|geto_tac|exact Hs|reflexivity]. } norm.
      eapply run_step. { eapply micro_do; [gett_tac|frames_tac|geto_tac]. } norm.
      eapply run_step. { eapply micro_117; [gett_tac|frames_tac|geto_tac|]. norm. rewrite Hwk'. exact Hwk. } norm.
      cbn [iter_micro]. reflexivity.
    + split; [apply upd_seto|]. geto_tac.
Qed.

Definition dec_word (g ne ts wc : Z) : Z := with_epoch (sub_strong wc 1) (wrap 64 (child_stamp g ne ts (epoch wc))).

Lemma child_dec s t x b ts d ne c r K ob :
  gett s t = Some x -> frames x = FKids d ne c ((b, ts) :: r) :: K -> b <> O ->
  geto s b = Some ob -> wordp (oword ob) -> 1 <= strong (oword ob) ->
  exists s1, iter_micro 3 s t = s1 /\
    upd s s1 t x (if strong (oword ob) =? 1 then FDispEnter b (d + 1) :: FKids d ne (G s) r :: K
                  else FKids d ne (G s) r :: K) [b] /\
    geto s1 b = Some (with_word ob (dec_word (G s) ne ts (oword ob))).
Proof.
  intros Hg Hf Hb Ho Hw Hs. destruct b as [|b']; [congruence|].
  destruct (dec_fields (oword ob) (child_stamp (G s) ne ts (epoch (oword ob))) Hw Hs) as (_ & Hs' & _).
  fold (dec_word (G s) ne ts (oword ob)) in Hs'.
  eexists. split.
  - eapply run_step. { eapply micro_kids_child; [gett_tac|frames_tac]. } norm.
    eapply run_step. { eapply micro_118; [gett_tac|frames_tac|cbn [fst]; geto_tac]. } norm.
    eapply run_step. { eapply micro_119; [gett_tac|frames_tac|cbn [fst]; geto_tac|reflexivity]. } norm.
    cbn [iter_micro fst snd]. reflexivity.
  - fold (dec_word (G s) ne ts (oword ob)). rewrite Hs'.
    replace (strong (oword ob) - 1 =? 0) with (strong (oword ob) =? 1) by lia.
    split; [apply upd_seto|]. geto_tac.
Qed.

(* ---- chains *)
(* a chain node that can be destructed at once when its count reaches zero *)
Definition nodeok (g : Z) (ob : obj) (sc : Z) : Prop :=
  wordp (oword ob) /\ strong (oword ob) = sc /\ weaked (oword ob) = false /\ old g (epoch (oword ob)).

(* [seg s lk l e]: following link [lk] one meets the nodes [l] in order, each owned only by its
   predecessor's link (strong = 1), each with links [next; null]; the link field 0 of the last is [e] *)
Fixpoint seg (s : state) (lk : link) (l : list nat) (e : link) : Prop :=
  match l with
  | [] => lk = e
  | b :: r => fst lk = b /\ b <> O /\ old (G s) (snd lk) /\
              exists ob lk', geto s b = Some ob /\ nodeok (G s) ob 1 /\ links ob = [lk'; null_link] /\ seg s lk' r e
  end.

Lemma seg_upd s s' lk l e : G s' = G s -> (forall o, In o l -> geto s' o = geto s o) -> seg s lk l e -> seg s' lk l e.
Proof.
  intros HG. revert lk. induction l as [|b r IH]; intros lk Hgo H; [exact H|].
  destruct H as (H1 & H2 & H3 & ob & lk' & H4 & H5 & H6 & H7).
  cbn [seg]. rewrite HG. split; [exact H1|]. split; [exact H2|]. split; [exact H3|].
  exists ob, lk'. split; [|split; [exact H5|split; [exact H6|]]].
  - rewrite Hgo; [exact H4 | left; reflexivity].
  - apply IH; auto. intros o Ho. apply Hgo. right. exact Ho.
Qed.

Definition unwind (f : frame) : Prop := exists d ne c, f = FKids d ne c [null_link].

Definition gone (ob : obj) : Prop :=
  destructed (oword ob) = true /\ dropped ob = true /\ freed ob = true /\ links ob = [null_link; null_link].

Lemma head_ok_dec g ne ts ob d : epoch_ok g -> 0 <= d -> old g ne -> old g ts -> nodeok g ob 1 ->
  head_ok g (d + 1) (dec_word g ne ts (oword ob)).
Proof.
  intros Hg Hd Hne Hts (Hw & Hs & Hwk & Ho).
  destruct (dec_fields (oword ob) (child_stamp g ne ts (epoch (oword ob))) Hw ltac:(lia)) as (A1 & A2 & A3 & A4 & A5).
  fold (dec_word g ne ts (oword ob)) in A1, A2, A3, A4, A5.
  split; [exact A1|]. split; [congruence|]. split.
  - rewrite A5. apply old_child_stamp; assumption.
  - right. split; lia.
Qed.

Lemma gone_destructed_obj oa lk : wordp (oword oa) -> links oa = [lk; null_link] -> gone (destructed_obj oa).
Proof.
  intros Hw Hl. destruct (destr_fields (oword oa) Hw) as (_ & Hd & _).
  unfold gone, destructed_obj. cbn [Rc.word dropped freed links]. rewrite Hl. repeat split; auto.
Qed.

(* ---- DOWN: the cascade walks down a segment, destructing every node, leaving one FKids frame per node *)
Lemma down t : forall pre s x a d K oa lk e,
  gett s t = Some x -> frames x = FDispEnter a d :: K -> 0 <= d -> d + Z.of_nat (length pre) < DEPTH_CAP ->
  epoch_ok (G s) ->
  geto s a = Some oa -> head_ok (G s) d (oword oa) -> links oa = [lk; null_link] ->
  seg s lk pre e -> NoDup (a :: pre) ->
  exists n s1 U ne,
    (n <= 9 * S (length pre))%nat /\ iter_micro n s t = s1 /\
    upd s s1 t x (FKids (d + Z.of_nat (length pre)) ne (G s) [e; null_link] :: U ++ K) (a :: pre) /\
    Forall unwind U /\ length U = length pre /\ old (G s) ne /\
    (forall o, In o (a :: pre) -> exists ob, geto s1 o = Some ob /\ gone ob).
Proof.
  induction pre as [|b r IH]; intros s x a d K oa lk e Hg Hf Hd0 Hd Hep Ho Hh Hl Hseg Hnd.
  - cbn [seg] in Hseg. subst e. cbn [length] in *.
    destruct (node_destruct s t x a d K oa Hg Hf ltac:(lia) Ho Hh) as (n & s1 & Hn & Hrun & Hu & Ha).
    exists n, s1, [], (epoch (oword oa)). rewrite Hl in Hu. rewrite Z.add_0_r.
    split; [lia|]. split; [exact Hrun|]. split; [exact Hu|]. split; [constructor|]. split; [reflexivity|].
    split; [apply Hh|]. intros o [<-|[]]. eexists. split; [exact Ha|]. eapply gone_destructed_obj; [apply Hh|exact Hl].
  - destruct Hseg as (Hb1 & Hb0 & Hts & ob & lk' & Hob & Hnode & Hlb & Hseg).
    destruct lk as [b0 ts]. cbn [fst snd] in Hb1, Hts. subst b0.
    assert (Hab : a <> b) by (inversion Hnd; subst; intros ->; apply H1; left; reflexivity).
    assert (Hnd' : NoDup (b :: r)) by (inversion Hnd; assumption).
    assert (Har : ~ In a r) by (inversion Hnd; subst; intros Hi; apply H1; right; exact Hi).
    assert (Hbr : ~ In b r) by (inversion Hnd'; assumption).
    cbn [length] in Hd. rewrite Nat2Z.inj_succ in Hd.
    (* the head *)
    destruct (node_destruct s t x a d K oa Hg Hf ltac:(lia) Ho Hh) as (n1 & s1 & Hn1 & Hrun1 & Hu1 & Ha1).
    rewrite Hl in Hu1.
    pose proof (upd_gett _ _ _ _ _ _ Hu1 Hg) as Hg1.
    assert (Hob1 : geto s1 b = Some ob).
    { rewrite (u_objs _ _ _ _ _ _ Hu1); [exact Hob|]. intros [E|[]]. congruence. }
    (* the decrement of the child *)
    pose proof Hnode as (Hwb & Hsb & Hwkb & Holdb).
    destruct (child_dec s1 t _ b ts d (epoch (oword oa)) (G s) [null_link] K ob Hg1 eq_refl Hb0 Hob1 Hwb ltac:(lia))
      as (s2 & Hrun2 & Hu2 & Hb2).
    rewrite Hsb in Hu2. cbn [Z.eqb Pos.eqb] in Hu2. rewrite (u_G _ _ _ _ _ _ Hu1) in Hu2, Hb2.
    pose proof (upd_gett _ _ _ _ _ _ Hu2 Hg1) as Hg2. rewrite with_frames_idem in Hg2.
    assert (HG2 : G s2 = G s) by (rewrite (u_G _ _ _ _ _ _ Hu2); apply (u_G _ _ _ _ _ _ Hu1)).
    assert (Hu12 : upd s s2 t x (FDispEnter b (d + 1) :: FKids d (epoch (oword oa)) (G s) [null_link] :: K) [a; b]).
    { eapply upd_trans; [exact Hu1|exact Hu2| |]; intros o [<-|[]]; cbn; auto. }
    assert (Hseg2 : seg s2 lk' r e).
    { apply (seg_upd s); [exact HG2| |exact Hseg]. intros o Hi. apply (u_objs _ _ _ _ _ _ Hu12).
      intros [<-|[<-|[]]]; contradiction. }
    assert (Hh2 : head_ok (G s2) (d + 1) (oword (with_word ob (dec_word (G s) (epoch (oword oa)) ts (oword ob))))).
    { rewrite HG2. cbn [with_word Rc.word]. apply head_ok_dec; try assumption. apply Hh. }
    destruct (IH s2 _ b (d + 1) _ _ lk' e Hg2 eq_refl ltac:(lia) ltac:(lia) ltac:(rewrite HG2; exact Hep) Hb2 Hh2 Hlb Hseg2 Hnd')
      as (n3 & s3 & U & ne & Hn3 & Hrun3 & Hu3 & HU & HlU & Hne & Hgone).
    rewrite HG2 in Hu3, Hne.
    exists (n1 + 3 + n3)%nat, s3, (U ++ [FKids d (epoch (oword oa)) (G s) [null_link]]), ne.
    split; [cbn [length]; lia|]. split.
    { rewrite !iter_add, Hrun1, Hrun2. exact Hrun3. }
    split.
    { cbn [length]. rewrite Nat2Z.inj_succ. replace (d + Z.succ (Z.of_nat (length r))) with (d + 1 + Z.of_nat (length r)) by lia.
      rewrite <- app_assoc. cbn [app].
      eapply upd_trans; [exact Hu12|exact Hu3| |].
      - intros o [<-|[<-|[]]]; cbn; auto.
      - intros o Hi. right. exact Hi. }
    split. { apply Forall_app. split; [exact HU|]. constructor; [|constructor]. do 3 eexists. reflexivity. }
    split. { rewrite app_length. cbn [length]. lia. }
    split; [exact Hne|].
    intros o [<-|Hi]; [|apply Hgone; exact Hi].
    exists (destructed_obj oa). split.
    + rewrite (u_objs _ _ _ _ _ _ Hu3), (u_objs _ _ _ _ _ _ Hu2); [exact Ha1| |].
      * intros [E|[]]. congruence.
      * intros [E|Hi]; [congruence|contradiction].
    + eapply gone_destructed_obj; [apply Hh|exact Hl].
Qed.

(* ---- UP: the FKids frames left behind unwind, two micro steps each *)
Lemma set_nth_same {A} (l : list A) n x : nth_error l n = Some x -> set_nth l n x = l.
Proof. revert n. induction l as [|a l IH]; intros [|n]; cbn; try congruence. intros H. f_equal. apply IH. exact H. Qed.

Lemma upd_refl s t x : gett s t = Some x -> upd s s t x (frames x) [].
Proof.
  intros Hg. split; try reflexivity. unfold gett in Hg.
  replace (with_frames x (frames x)) with x by (destruct x; reflexivity).
  symmetry. apply set_nth_same. exact Hg.
Qed.

Lemma up t : forall U s x K, gett s t = Some x -> frames x = U ++ K -> Forall unwind U ->
  exists s1, iter_micro (2 * length U) s t = s1 /\ upd s s1 t x K [].
Proof.
  induction U as [|f U IH]; intros s x K Hg Hf HU.
  - exists s. split; [reflexivity|]. cbn [app] in Hf. rewrite <- Hf. apply upd_refl. exact Hg.
  - inversion HU as [|f' U' (d & ne & c & ->) HU']; subst.
    cbn [app] in Hf.
    set (s' := sett s t (with_frames x (U ++ K))).
    assert (Hg' : gett s' t = Some (with_frames x (U ++ K))) by (eapply gett_sett_same; exact Hg).
    destruct (IH s' _ K Hg' eq_refl HU') as (s1 & Hrun & Hu).
    exists s1. split.
    + replace (2 * length (FKids d ne c [null_link] :: U))%nat with (2 + 2 * length U)%nat by (cbn [length]; lia).
      rewrite iter_add.
      replace (iter_micro 2 s t) with s'; [exact Hrun|]. symmetry.
      eapply run_step. { eapply micro_kids_null; [gett_tac|exact Hf]. } norm.
      eapply run_step. { eapply micro_kids_nil; [gett_tac|frames_tac]. } norm.
      reflexivity.
    + eapply upd_trans; [apply upd_sett|exact Hu| |]; intros o [].
Qed.

Definition footprint (s s' : state) (t : nat) (x : thr) (K : list frame) (L : list nat) : Prop :=
  gett s' t = Some (with_frames x K) /\ G s' = G s /\ err s' = err s /\ cells s' = cells s /\
  (forall o, ~ In o L -> geto s' o = geto s o) /\ (forall t', t' <> t -> gett s' t' = gett s t').

Lemma upd_footprint s s' t x K L : gett s t = Some x -> upd s s' t x K L -> footprint s s' t x K L.
Proof.
  intros Hg U. split; [eapply upd_gett; eauto|]. destruct U as [A1 A2 A3 A4 A5 A6].
  repeat (split; [assumption|]). intros t' Hn. unfold gett. rewrite A5. apply nth_error_set_nth_other. congruence.
Qed.

Lemma skip_nulls s t x d ne c K : gett s t = Some x -> frames x = FKids d ne c [null_link; null_link] :: K ->
  iter_micro 3 s t = sett s t (with_frames x K).
Proof.
  intros Hg Hf.
  eapply run_step. { eapply micro_kids_null; [gett_tac|exact Hf]. } norm.
  eapply run_step. { eapply micro_kids_null; [gett_tac|frames_tac]. } norm.
  eapply run_step. { eapply micro_kids_nil; [gett_tac|frames_tac]. } norm.
  reflexivity.
Qed.

(* ---- (A) FULL PASS, any entry depth *)
Theorem cascade_full_gen t s x a l' d K oa lk :
  gett s t = Some x -> frames x = FDispEnter a d :: K ->
  0 <= d -> d + Z.of_nat (length l') < DEPTH_CAP -> epoch_ok (G s) ->
  geto s a = Some oa -> head_ok (G s) d (oword oa) -> links oa = [lk; null_link] ->
  seg s lk l' null_link -> NoDup (a :: l') ->
  exists n s', (n <= 12 * length (a :: l'))%nat /\ iter_micro n s t = s' /\
    (forall o, In o (a :: l') -> exists ob, geto s' o = Some ob /\ gone ob) /\
    pending s' = pending s /\ footprint s s' t x K (a :: l').
Proof.
  intros Hg Hf Hd0 Hd Hep Ho Hh Hl Hseg Hnd.
  destruct (down t l' s x a d K oa lk null_link Hg Hf Hd0 Hd Hep Ho Hh Hl Hseg Hnd)
    as (n1 & s1 & U & ne & Hn1 & Hrun1 & Hu1 & HU & HlU & _ & Hgone).
  pose proof (upd_gett _ _ _ _ _ _ Hu1 Hg) as Hg1.
  pose proof (skip_nulls s1 t _ _ _ _ _ Hg1 eq_refl) as Hrun2. rewrite with_frames_idem in Hrun2.
  set (s2 := sett s1 t (with_frames x (U ++ K))) in *.
  assert (Hg2 : gett s2 t = Some (with_frames x (U ++ K))) by (eapply gett_sett_same; exact Hg1).
  destruct (up t U s2 _ K Hg2 eq_refl HU) as (s3 & Hrun3 & Hu3).
  assert (Hu : upd s s3 t x K (a :: l')).
  { eapply upd_trans with (L2 := []); [exact Hu1| |apply incl_refl|intros o []].
    eapply upd_trans with (L1 := []) (L2 := []); [apply upd_sett|rewrite with_frames_idem; exact Hu3|intros o []|intros o []]. }
  exists (n1 + 3 + 2 * length U)%nat, s3. split; [cbn [length]; lia|]. split.
  { rewrite !iter_add, Hrun1, Hrun2. exact Hrun3. }
  split; [|split; [apply (u_pending _ _ _ _ _ _ Hu)|apply upd_footprint; assumption]].
  intros o Hi. destruct (Hgone o Hi) as (ob & Hob & Hgo). exists ob. split; [|exact Hgo].
  rewrite (u_objs _ _ _ _ _ _ Hu3) by (intros []). exact Hob.
Qed.

(* (A) as asked: the pass starts at depth 0 on a head whose DESTRUCTED flag try_destruct has just published *)
Theorem cascade_full t s x o l' K oa lk :
  gett s t = Some x -> frames x = FDispEnter o 0 :: K ->
  Z.of_nat (length (o :: l')) <= DEPTH_CAP -> epoch_ok (G s) ->
  geto s o = Some oa -> wordp (oword oa) -> destructed (oword oa) = true -> weaked (oword oa) = false ->
  old (G s) (epoch (oword oa)) -> links oa = [lk; null_link] ->
  seg s lk l' null_link -> NoDup (o :: l') ->
  exists n s', (n <= 12 * length (o :: l'))%nat /\ iter_micro n s t = s' /\
    (forall o', In o' (o :: l') -> exists ob, geto s' o' = Some ob /\ gone ob) /\
    pending s' = pending s /\ footprint s s' t x K (o :: l').
Proof.
  intros Hg Hf Hlen Hep Ho Hw Hd Hwk Hold Hl Hseg Hnd.
  cbn [length] in Hlen. rewrite Nat2Z.inj_succ in Hlen.
  eapply cascade_full_gen; eauto; try lia.
  split; [exact Hw|]. split; [exact Hwk|]. split; [exact Hold|]. left. split; [reflexivity|exact Hd].
Qed.
Print Assumptions cascade_full.

Lemma NoDup_snoc {A} (l : list A) h : NoDup (l ++ [h]) -> NoDup l /\ ~ In h l.
Proof.
  induction l as [|a l IH]; cbn; intros H; [split; [constructor|auto]|].
  inversion H as [|? ? Hn Hd]; subst. destruct (IH Hd) as [I1 I2]. split.
  - constructor; [|exact I1]. intros Hi. apply Hn. apply in_or_app. left. exact Hi.
  - intros [->|Hi]; [|contradiction]. apply Hn. apply in_or_app. right. left. reflexivity.
Qed.

(* ---- (B) SURVIVOR: node h has another owner; the cascade removes one unit and stops there *)
Theorem cascade_survivor_gen t s x a pre h ts d K oa lk oh :
  gett s t = Some x -> frames x = FDispEnter a d :: K ->
  0 <= d -> d + Z.of_nat (length pre) < DEPTH_CAP -> epoch_ok (G s) ->
  geto s a = Some oa -> head_ok (G s) d (oword oa) -> links oa = [lk; null_link] ->
  seg s lk pre (h, ts) -> NoDup (a :: pre ++ [h]) ->
  h <> O -> old (G s) ts -> geto s h = Some oh -> wordp (oword oh) -> 2 <= strong (oword oh) ->
  exists n s' w', (n <= 12 * length (a :: pre) + 3)%nat /\ iter_micro n s t = s' /\
    (forall o, In o (a :: pre) -> exists ob, geto s' o = Some ob /\ gone ob) /\
    geto s' h = Some (with_word oh w') /\
    wordp w' /\ strong w' = strong (oword oh) - 1 /\ destructed w' = destructed (oword oh) /\ weaked w' = weaked (oword oh) /\
    (old (G s) (epoch (oword oh)) -> old (G s) (epoch w')) /\
    pending s' = pending s /\ footprint s s' t x K (a :: pre ++ [h]).
Proof.
  intros Hg Hf Hd0 Hd Hep Ho Hh Hl Hseg Hnd Hh0 Hts Hoh Hwh Hsh.
  destruct (NoDup_snoc (a :: pre) h Hnd) as [Hnd1 Hhn].
  destruct (down t pre s x a d K oa lk (h, ts) Hg Hf Hd0 Hd Hep Ho Hh Hl Hseg Hnd1)
    as (n1 & s1 & U & ne & Hn1 & Hrun1 & Hu1 & HU & HlU & Hne & Hgone).
  pose proof (upd_gett _ _ _ _ _ _ Hu1 Hg) as Hg1.
  assert (Hoh1 : geto s1 h = Some oh) by (rewrite (u_objs _ _ _ _ _ _ Hu1); assumption).
  destruct (child_dec s1 t _ h ts _ ne (G s) [null_link] (U ++ K) oh Hg1 eq_refl Hh0 Hoh1 Hwh ltac:(lia))
    as (s2 & Hrun2 & Hu2 & Hh2).
  replace (strong (oword oh) =? 1) with false in Hu2 by lia.
  rewrite (u_G _ _ _ _ _ _ Hu1) in Hu2, Hh2.
  pose proof (upd_gett _ _ _ _ _ _ Hu2 Hg1) as Hg2. rewrite with_frames_idem in Hg2.
  set (f := FKids (d + Z.of_nat (length pre)) ne (G s) [null_link]) in *.
  assert (HU' : Forall unwind (f :: U)) by (constructor; [do 3 eexists; reflexivity|exact HU]).
  destruct (up t (f :: U) s2 _ K Hg2 eq_refl HU') as (s3 & Hrun3 & Hu3).
  assert (Hu : upd s s3 t x K (a :: pre ++ [h])).
  { eapply upd_trans with (L2 := [h]); [exact Hu1| | |].
    - eapply upd_trans with (L1 := [h]) (L2 := []); [exact Hu2|exact Hu3|apply incl_refl|intros o []].
    - intros o Hi. change (a :: pre ++ [h]) with ((a :: pre) ++ [h]). apply in_or_app. left. exact Hi.
    - intros o Hi. change (a :: pre ++ [h]) with ((a :: pre) ++ [h]). apply in_or_app. right. exact Hi. }
  destruct (dec_fields (oword oh) (child_stamp (G s) ne ts (epoch (oword oh))) Hwh ltac:(lia)) as (A1 & A2 & A3 & A4 & A5).
  fold (dec_word (G s) ne ts (oword oh)) in A1, A2, A3, A4, A5.
  exists (n1 + 3 + 2 * length (f :: U))%nat, s3, (dec_word (G s) ne ts (oword oh)).
  split; [cbn [length]; lia|]. split.
  { rewrite !iter_add, Hrun1, Hrun2. exact Hrun3. }
  split.
  { intros o Hi. destruct (Hgone o Hi) as (ob & Hob & Hgo). exists ob. split; [|exact Hgo].
    rewrite (u_objs _ _ _ _ _ _ Hu3) by (intros []). rewrite (u_objs _ _ _ _ _ _ Hu2); [exact Hob|].
    intros [<-|[]]. contradiction. }
  split. { rewrite (u_objs _ _ _ _ _ _ Hu3) by (intros []). exact Hh2. }
  split; [exact A1|]. split; [exact A2|]. split; [exact A4|]. split; [exact A3|].
  split. { intros Hoe. rewrite A5. apply old_child_stamp; assumption. }
  split; [apply (u_pending _ _ _ _ _ _ Hu)|apply upd_footprint; assumption].
Qed.

Lemma NoDup_app_l {A} (l1 l2 : list A) : NoDup (l1 ++ l2) -> NoDup l1 /\ (forall y, In y l2 -> ~ In y l1).
Proof.
  induction l1 as [|a l IH]; cbn; intros H; [split; [constructor|auto]|].
  inversion H as [|? ? Hn Hd]; subst. destruct (IH Hd) as [I1 I2]. split.
  - constructor; [|exact I1]. intros Hi. apply Hn. apply in_or_app. left. exact Hi.
  - intros y Hy [->|Hi]; [|eapply I2; eauto]. apply Hn. apply in_or_app. right. exact Hy.
Qed.

(* (B) as asked: depth 0, the chain is o :: pre ++ h :: post, h has exactly one other owner *)
Theorem cascade_survivor t s x o pre h post ts K oa lk oh :
  gett s t = Some x -> frames x = FDispEnter o 0 :: K ->
  Z.of_nat (length (o :: pre)) <= DEPTH_CAP -> epoch_ok (G s) ->
  geto s o = Some oa -> wordp (oword oa) -> destructed (oword oa) = true -> weaked (oword oa) = false ->
  old (G s) (epoch (oword oa)) -> links oa = [lk; null_link] ->
  seg s lk pre (h, ts) -> NoDup (o :: pre ++ h :: post) ->
  h <> O -> old (G s) ts -> geto s h = Some oh -> wordp (oword oh) -> strong (oword oh) = 2 -> destructed (oword oh) = false ->
  exists n s' oh', (n <= 12 * length (o :: pre) + 3)%nat /\ iter_micro n s t = s' /\
    (forall o', In o' (o :: pre) -> exists ob, geto s' o' = Some ob /\ gone ob) /\
    geto s' h = Some oh' /\ strong (oword oh') = 1 /\ destructed (oword oh') = false /\ weaked (oword oh') = weaked (oword oh) /\
    dropped oh' = dropped oh /\ freed oh' = freed oh /\ links oh' = links oh /\
    (forall o', In o' post -> geto s' o' = geto s o') /\
    pending s' = pending s /\ footprint s s' t x K (o :: pre ++ [h]).
Proof.
  intros Hg Hf Hlen Hep Ho Hw Hd Hwk Hold Hl Hseg Hnd Hh0 Hts Hoh Hwh Hsh Hdh.
  cbn [length] in Hlen. rewrite Nat2Z.inj_succ in Hlen.
  assert (Hnd' : NoDup ((o :: pre ++ [h]) ++ post)) by (cbn [app]; rewrite <- app_assoc; exact Hnd).
  destruct (NoDup_app_l _ _ Hnd') as [Hnd1 Hpost].
  assert (Hh : head_ok (G s) 0 (oword oa)).
  { split; [exact Hw|]. split; [exact Hwk|]. split; [exact Hold|]. left. split; [reflexivity|exact Hd]. }
  destruct (cascade_survivor_gen t s x o pre h ts 0 K oa lk oh Hg Hf ltac:(lia) ltac:(lia) Hep Ho Hh Hl Hseg Hnd1 Hh0 Hts Hoh Hwh ltac:(lia))
    as (n & s' & w' & Hn & Hrun & Hgone & Hh' & B1 & B2 & B3 & B4 & _ & Hp & Hfp).
  exists n, s', (with_word oh w'). cbn [with_word Rc.word dropped freed links].
  split; [exact Hn|]. split; [exact Hrun|]. split; [exact Hgone|]. split; [exact Hh'|].
  split; [lia|]. split; [congruence|]. split; [exact B4|]. do 3 (split; [reflexivity|]).
  split; [|split; assumption].
  intros o' Hi. destruct Hfp as (_ & _ & _ & _ & Hobj & _). apply Hobj. apply Hpost. exact Hi.
Qed.
Print Assumptions cascade_survivor.

(* ---- (C) DEPTH CAP: the node reached at depth DEPTH_CAP is deferred *)
Lemma witnesses_from_set l t x fs i : nth_error l t = Some x ->
  witnesses_from (set_nth l t (with_frames x fs)) i = witnesses_from l i.
Proof.
  revert t i. induction l as [|y l IH]; intros [|t] i H; cbn in H; try congruence.
  - inversion H; subst. reflexivity.
  - cbn [set_nth witnesses_from]. f_equal. apply IH. exact H.
Qed.

Lemma upd_witnesses s s' t x fs L : gett s t = Some x -> upd s s' t x fs L -> witnesses s' = witnesses s.
Proof. intros Hg U. unfold witnesses. rewrite (u_threads _ _ _ _ _ _ U). apply witnesses_from_set. exact Hg. Qed.

Theorem cascade_cap_gen t s x a pre h ts d K oa lk oh :
  gett s t = Some x -> frames x = FDispEnter a d :: K ->
  0 <= d -> d + Z.of_nat (length pre) + 1 = DEPTH_CAP -> epoch_ok (G s) ->
  geto s a = Some oa -> head_ok (G s) d (oword oa) -> links oa = [lk; null_link] ->
  seg s lk pre (h, ts) -> NoDup (a :: pre ++ [h]) ->
  h <> O -> old (G s) ts -> geto s h = Some oh -> wordp (oword oh) -> strong (oword oh) = 1 ->
  exists n s' w', (n <= 12 * length (a :: pre) + 4)%nat /\ iter_micro n s t = s' /\
    (forall o, In o (a :: pre) -> exists ob, geto s' o = Some ob /\ gone ob) /\
    geto s' h = Some (with_word oh w') /\
    wordp w' /\ strong w' = 0 /\ destructed w' = destructed (oword oh) /\ weaked w' = weaked (oword oh) /\
    (old (G s) (epoch (oword oh)) -> old (G s) (epoch w')) /\
    pending s' = pending s ++ [{| pk := KDestruct; po := h; pG := G s; pwit := witnesses s |}] /\
    footprint s s' t x K (a :: pre ++ [h]).
Proof.
  intros Hg Hf Hd0 Hd Hep Ho Hh Hl Hseg Hnd Hh0 Hts Hoh Hwh Hsh.
  destruct (NoDup_snoc (a :: pre) h Hnd) as [Hnd1 Hhn].
  destruct (down t pre s x a d K oa lk (h, ts) Hg Hf Hd0 ltac:(lia) Hep Ho Hh Hl Hseg Hnd1)
    as (n1 & s1 & U & ne & Hn1 & Hrun1 & Hu1 & HU & HlU & Hne & Hgone).
  pose proof (upd_gett _ _ _ _ _ _ Hu1 Hg) as Hg1.
  assert (Hoh1 : geto s1 h = Some oh) by (rewrite (u_objs _ _ _ _ _ _ Hu1); assumption).
  destruct (child_dec s1 t _ h ts _ ne (G s) [null_link] (U ++ K) oh Hg1 eq_refl Hh0 Hoh1 Hwh ltac:(lia))
    as (s2 & Hrun2 & Hu2 & Hh2).
  rewrite Hsh in Hu2. cbn [Z.eqb Pos.eqb] in Hu2.
  rewrite (u_G _ _ _ _ _ _ Hu1) in Hu2, Hh2.
  pose proof (upd_gett _ _ _ _ _ _ Hu2 Hg1) as Hg2. rewrite with_frames_idem in Hg2.
  set (f := FKids (d + Z.of_nat (length pre)) ne (G s) [null_link]) in *.
  assert (Hu12 : upd s s2 t x (FDispEnter h (d + Z.of_nat (length pre) + 1) :: f :: U ++ K) (a :: pre ++ [h])).
  { eapply upd_trans with (L2 := [h]); [exact Hu1|exact Hu2| |].
    - intros o Hi. change (a :: pre ++ [h]) with ((a :: pre) ++ [h]). apply in_or_app. left. exact Hi.
    - intros o Hi. change (a :: pre ++ [h]) with ((a :: pre) ++ [h]). apply in_or_app. right. exact Hi. }
  set (x2 := with_frames x (FDispEnter h (d + Z.of_nat (length pre) + 1) :: f :: U ++ K)) in *.
  set (s3 := sett (defer s2 KDestruct h) t (with_frames x2 (f :: U ++ K))).
  assert (Hrun3 : iter_micro 1 s2 t = s3).
  { eapply run_step; [|reflexivity]. rewrite (micro_enter s2 t x2 h _ (f :: U ++ K) Hg2 eq_refl).
    replace (d + Z.of_nat (length pre) + 1 >=? DEPTH_CAP) with true by lia. reflexivity. }
  assert (Hg3 : gett s3 t = Some (with_frames x2 (f :: U ++ K))).
  { unfold s3. eapply gett_sett_same. change (gett (defer s2 KDestruct h) t) with (gett s2 t). exact Hg2. }
  assert (HU' : Forall unwind (f :: U)) by (constructor; [do 3 eexists; reflexivity|exact HU]).
  destruct (up t (f :: U) s3 _ K Hg3 eq_refl HU') as (s4 & Hrun4 & Hu4).
  destruct (dec_fields (oword oh) (child_stamp (G s) ne ts (epoch (oword oh))) Hwh ltac:(lia)) as (A1 & A2 & A3 & A4 & A5).
  fold (dec_word (G s) ne ts (oword oh)) in A1, A2, A3, A4, A5.
  assert (Hobj : forall o, geto s4 o = geto s2 o).
  { intros o. rewrite (u_objs _ _ _ _ _ _ Hu4) by (intros []). reflexivity. }
  exists (n1 + 3 + 1 + 2 * length (f :: U))%nat, s4, (dec_word (G s) ne ts (oword oh)).
  split; [cbn [length]; lia|]. split.
  { rewrite !iter_add, Hrun1, Hrun2, Hrun3. exact Hrun4. }
  split.
  { intros o Hi. destruct (Hgone o Hi) as (ob & Hob & Hgo). exists ob. split; [|exact Hgo].
    rewrite Hobj. rewrite (u_objs _ _ _ _ _ _ Hu2); [exact Hob|]. intros [<-|[]]. contradiction. }
  split. { rewrite Hobj. exact Hh2. }
  split; [exact A1|]. split; [lia|]. split; [exact A4|]. split; [exact A3|].
  split. { intros Hoe. rewrite A5. apply old_child_stamp; assumption. }
  split.
  { rewrite (u_pending _ _ _ _ _ _ Hu4). unfold s3, defer. cbn [pending sett set_pending].
    rewrite (u_pending _ _ _ _ _ _ Hu12), (u_G _ _ _ _ _ _ Hu12), (upd_witnesses _ _ _ _ _ _ Hg Hu12). reflexivity. }
  split. { rewrite (upd_gett _ _ _ _ _ _ Hu4 Hg3). reflexivity. }
  split. { rewrite (u_G _ _ _ _ _ _ Hu4). apply (u_G _ _ _ _ _ _ Hu12). }
  split. { rewrite (u_err _ _ _ _ _ _ Hu4). apply (u_err _ _ _ _ _ _ Hu12). }
  split. { rewrite (u_cells _ _ _ _ _ _ Hu4). apply (u_cells _ _ _ _ _ _ Hu12). }
  split. { intros o Hn. rewrite Hobj. apply (u_objs _ _ _ _ _ _ Hu12). exact Hn. }
  intros t' Hn. rewrite (upd_gett_other _ _ _ _ _ _ _ Hu4 Hn). unfold s3.
  rewrite gett_sett_other by congruence. change (gett (defer s2 KDestruct h) t') with (gett s2 t').
  apply (upd_gett_other _ _ _ _ _ _ _ Hu12 Hn).
Qed.

(* (C) as asked: depth 0, chain o :: pre ++ h :: post longer than DEPTH_CAP; h is node number DEPTH_CAP + 1 *)
Theorem cascade_cap t s x o pre h post ts K oa lk oh :
  gett s t = Some x -> frames x = FDispEnter o 0 :: K ->
  Z.of_nat (length (o :: pre)) = DEPTH_CAP -> epoch_ok (G s) ->
  geto s o = Some oa -> wordp (oword oa) -> destructed (oword oa) = true -> weaked (oword oa) = false ->
  old (G s) (epoch (oword oa)) -> links oa = [lk; null_link] ->
  seg s lk pre (h, ts) -> NoDup (o :: pre ++ h :: post) ->
  h <> O -> old (G s) ts -> geto s h = Some oh -> wordp (oword oh) -> strong (oword oh) = 1 -> destructed (oword oh) = false ->
  exists n s' oh', (n <= 12 * length (o :: pre) + 4)%nat /\ iter_micro n s t = s' /\
    (forall o', In o' (o :: pre) -> exists ob, geto s' o' = Some ob /\ gone ob) /\
    geto s' h = Some oh' /\ strong (oword oh') = 0 /\ destructed (oword oh') = false /\ weaked (oword oh') = weaked (oword oh) /\
    dropped oh' = dropped oh /\ freed oh' = freed oh /\ links oh' = links oh /\
    (forall o', In o' post -> geto s' o' = geto s o') /\
    pending s' = pending s ++ [{| pk := KDestruct; po := h; pG := G s; pwit := witnesses s |}] /\
    footprint s s' t x K (o :: pre ++ [h]).
Proof.
  intros Hg Hf Hlen Hep Ho Hw Hd Hwk Hold Hl Hseg Hnd Hh0 Hts Hoh Hwh Hsh Hdh.
  cbn [length] in Hlen. rewrite Nat2Z.inj_succ in Hlen.
  assert (Hnd' : NoDup ((o :: pre ++ [h]) ++ post)) by (cbn [app]; rewrite <- app_assoc; exact Hnd).
  destruct (NoDup_app_l _ _ Hnd') as [Hnd1 Hpost].
  assert (Hh : head_ok (G s) 0 (oword oa)).
  { split; [exact Hw|]. split; [exact Hwk|]. split; [exact Hold|]. left. split; [reflexivity|exact Hd]. }
  destruct (cascade_cap_gen t s x o pre h ts 0 K oa lk oh Hg Hf ltac:(lia) ltac:(lia) Hep Ho Hh Hl Hseg Hnd1 Hh0 Hts Hoh Hwh Hsh)
    as (n & s' & w' & Hn & Hrun & Hgone & Hh' & B1 & B2 & B3 & B4 & _ & Hp & Hfp).
  exists n, s', (with_word oh w'). cbn [with_word Rc.word dropped freed links].
  split; [exact Hn|]. split; [exact Hrun|]. split; [exact Hgone|]. split; [exact Hh'|].
  split; [exact B2|]. split; [congruence|]. split; [exact B4|]. do 3 (split; [reflexivity|]).
  split; [|split; assumption].
  intros o' Hi. destruct Hfp as (_ & _ & _ & _ & Hobj & _). apply Hobj. apply Hpost. exact Hi.
Qed.
Print Assumptions cascade_cap.

(* ---- non-vacuity: the hypotheses of (A) hold for a concrete chain of three nodes (RcChain.chain_state),
   built at epoch residues 95/94 and destructed at epoch 100 *)
Require Import RcChain.

Ltac decide_tac := vm_compute; repeat split; try reflexivity; try discriminate.

Example chain3_hyps :
  let s := chain_state 3 0 100 95 94 in
  let x := chain_thread [FDispEnter 1 0] in
  exists oa lk,
    gett s 0 = Some x /\ frames x = FDispEnter 1%nat 0 :: [] /\
    Z.of_nat (length [1; 2; 3]%nat) <= DEPTH_CAP /\ epoch_ok (G s) /\
    geto s 1 = Some oa /\ wordp (oword oa) /\ destructed (oword oa) = true /\ weaked (oword oa) = false /\
    old (G s) (epoch (oword oa)) /\ links oa = [lk; null_link] /\
    seg s lk [2; 3]%nat null_link /\ NoDup [1; 2; 3]%nat.
Proof.
  intros s x. eexists. eexists.
  split; [reflexivity|]. split; [reflexivity|]. split; [decide_tac|]. split; [decide_tac|].
  split; [reflexivity|]. split; [decide_tac|]. split; [decide_tac|]. split; [decide_tac|].
  split; [decide_tac|]. split; [reflexivity|]. split.
  - cbn [seg]. split; [reflexivity|]. split; [discriminate|]. split; [decide_tac|].
    eexists. eexists. split; [reflexivity|]. split; [decide_tac|]. split; [reflexivity|].
    split; [reflexivity|]. split; [discriminate|]. split; [decide_tac|].
    eexists. eexists. split; [reflexivity|]. split; [decide_tac|]. split; [reflexivity|]. reflexivity.
  - repeat constructor; cbn; intuition discriminate.
Qed.

(* the theorem applied to the example, and an independent cross-check by execution *)
Example chain3_pass :
  let s := chain_state 3 0 100 95 94 in
  exists n s', (n <= 36)%nat /\ iter_micro n s 0 = s' /\
    (forall o, In o [1; 2; 3]%nat -> exists ob, geto s' o = Some ob /\ gone ob) /\ pending s' = [].
Proof.
  intros s. destruct chain3_hyps as (oa & lk & H1 & H2 & H3 & H4 & H5 & H6 & H7 & H8 & H9 & H10 & H11 & H12).
  destruct (cascade_full 0 _ _ 1%nat [2; 3]%nat [] oa lk H1 H2 H3 H4 H5 H6 H7 H8 H9 H10 H11 H12)
    as (n & s' & Hn & Hrun & Hgone & Hp & _).
  exists n, s'. repeat split; auto.
Qed.

Example chain3_exec :
  let s' := iter_micro 36 (chain_state 3 0 100 95 94) 0 in
  map (fun ob => (dropped ob, freed ob, destructed (oword ob), links ob)) (objs s')
    = repeat (true, true, true, [null_link; null_link]) 3 /\
  pending s' = [] /\ err s' = 0 /\ option_map frames (gett s' 0) = Some [].
Proof. vm_compute. repeat split; reflexivity. Qed.

(* a recent link timestamp makes the child's merged stamp recent: the child is deferred although its own
   stamp is old (this is the intended behaviour of the merged stamp, not a defect) *)
Example chain3_recent_link_defers :
  let s' := iter_micro 36 (chain_state 3 0 100 99 94) 0 in
  map dropped (objs s') = [true; false; false] /\ map po (pending s') = [2%nat].
Proof. vm_compute. repeat split; reflexivity. Qed.

(* cross-checks by execution of (B) (node 3 of 5 has a second owner) and (C) (1030 nodes) *)
Example chain5_survivor_exec :
  let s' := iter_micro (12 * 2 + 3) (chain_state 5 3 100 95 94) 0 in
  map dropped (objs s') = [true; true; false; false; false] /\
  map (fun ob => strong (oword ob)) (objs s') = [0; 0; 1; 1; 1] /\
  pending s' = [] /\ option_map frames (gett s' 0) = Some [].
Proof. vm_compute. repeat split; reflexivity. Qed.

Example chain1030_cap_exec :
  let s' := iter_micro (12 * 1024 + 4) (chain_state 1030 0 100 95 94) 0 in
  count_dropped s' = DEPTH_CAP /\ map po (pending s') = [1025%nat] /\
  option_map (fun ob => (strong (oword ob), destructed (oword ob))) (geto s' 1025) = Some (0, false) /\
  option_map frames (gett s' 0) = Some [].
Proof. vm_compute. repeat split; reflexivity. Qed.

Print Assumptions cascade_full_gen.
Print Assumptions cascade_survivor_gen.
Print Assumptions cascade_cap_gen.
