(* C03_wsnap -- the weak half of the validity of snapshots over the model Rc.v: the block of an object cannot be freed
   while a reader that holds a WeakSnapshot of it stays in its critical section; consequences: the run hypotheses
   [wlive_ok] (increment_weak never runs on a freed block) and [wcounted_ok] (FINDING F5) of RcSpec.v hold along runs.
   Builds on the strong half (RcSnapInvP.v) and on the weak count invariant (RcWeakP.v).  No axioms. *)
From Coq Require Import ZArith List Bool Lia.
Import ListNotations.
Require Import Params StateW ModularW DisposeW Bits StateP ModularP Rc RcSpec RcP RcWeakP RcDepthP RcEpochP RcStampP RcSnapInvP.
Local Open Scope Z_scope.
Arguments sumZ {A} f l : simpl never.

(* ---- the block of o cannot be freed while reader x stays in its critical section *)
Definition pwitD (s : state) (t n o : nat) : Prop :=
  exists p, In p (pending s) /\ pk p = KDealloc /\ po p = o /\ In (t, n) (pwit p).
Definition wprot (s : state) (t : nat) (x : thr) (o : nat) : Prop :=
  exists ob, geto s o = Some ob /\ freed ob = false /\
    (prot s t x o \/ (0 < weak (word ob) /\ weaked (word ob) = true) \/ pwitD s t (serial x) o).
Lemma wprot_live s t x o : wprot s t x o -> exists ob, geto s o = Some ob /\ freed ob = false.
Proof. intros (ob & H1 & H2 & _). eauto. Qed.

(* ---- what one micro transition does to the weak side of every object *)
Definition fatt (s : state) (o : nat) : Z := sumZ (fun x => sumZ (frame_dealloc_attempt o) (frames x)) (threads s).
Definition wmove (s s' : state) (o : nat) (ob ob' : obj) : Prop :=
  (weaked (word ob) = true -> weaked (word ob') = true) /\
  (weak (word ob) - 1 <= weak (word ob') /\
   (weak (word ob') < weak (word ob) -> weak (word ob) = 1 ->
      forall t x, gett s t = Some x -> incs x = true -> pwitD s' t (serial x) o)) /\
  (freed ob' = true -> freed ob = true \/ weaked (word ob) = false \/ (weak (word ob) = 0 /\ 1 <= fatt s o)).
Definition pkeep (s s' : state) : Prop :=
  forall t x x' p, gett s t = Some x -> gett s' t = Some x' -> same_sec x x' ->
    In p (pending s) -> In (t, serial x) (pwit p) -> In p (pending s').
Definition WStep (s s' : state) : Prop :=
  (forall o ob, geto s o = Some ob -> exists ob', geto s' o = Some ob' /\ wmove s s' o ob ob') /\ pkeep s s'.

Lemma wmove_view s s' o ob ob' : wview ob ob' -> wmove s s' o ob ob'.
Proof.
  intros (E1 & E2 & _ & E4 & _). split; [congruence|]. split; [split; [lia|intros; lia]|]. intros H. left. congruence.
Qed.
Lemma wstep_views s s1 t y : wviews s s1 -> incl (pending s) (pending s1) -> WStep s (sett s1 t y).
Proof.
  intros Hv Hp. split.
  - intros o ob Hg. specialize (Hv o). rewrite Hg in Hv. destruct Hv as (ob' & Hg' & V). exists ob'. split; auto.
    apply wmove_view; auto.
  - intros t0 x x' p _ _ _ Hin _. apply Hp. exact Hin.
Qed.

Lemma pend_is_ge k o p l : In p l -> pk p = k -> po p = o -> 1 <= sumZ (pend_is k o) l.
Proof.
  intros Hin Hk Ho. induction l as [|a r IH]; [destruct Hin|]. rewrite sumZ_cons.
  assert (Ha : 0 <= pend_is k o a) by (unfold pend_is; destruct (_ && _); lia).
  assert (Hr : 0 <= sumZ (pend_is k o) r) by (apply sumZ_nonneg; intros; unfold pend_is; destruct (_ && _); lia).
  destruct Hin as [->|Hin]; [|specialize (IH Hin); lia].
  assert (E : pend_is k o p = 1) by (unfold pend_is; rewrite Hk, Ho, Nat.eqb_refl; destruct k; reflexivity). lia.
Qed.

(* a reader's weak protection survives every transition that leaves it in its section *)
Definition wstable (s s' : state) : Prop :=
  (forall t x x' o, gett s t = Some x -> gett s' t = Some x' -> same_sec x x' -> wprot s t x o -> wprot s' t x' o) /\ pkeep s s'.
Lemma wstable_of s s' : Inv' s' -> Winv s -> stable s s' -> WStep s s' -> wstable s s'.
Proof.
  intros HI' HW Hst (Hmv & Hpk). split; [|exact Hpk]. intros t x x' o Hx Hx' Hsec (ob & Hg & Hfr & Hc).
  pose proof Hsec as (Hi & Hi' & Hse & Han).
  destruct (Hmv o ob Hg) as (ob' & Hg' & Hwd & (Hlo & Hdef) & Hfree).
  assert (Ho : o <> O) by (intros ->; discriminate).
  destruct Hc as [Hp|Hc].
  { pose proof (Hst t x x' o Hx Hx' Hsec Hp) as Hp'. destruct (prot_live _ _ _ _ Hp') as (ob2 & Hg2 & Hd2).
    rewrite Hg' in Hg2. inversion Hg2; subst ob2. exists ob'. split; auto. split; auto.
    pose proof HI' as (HA & _). pose proof (HA _ _ Hg') as J.
    destruct (freed ob') eqn:Efr; auto. pose proof (j_dropped _ _ _ J (j_freed _ _ _ J Efr)). congruence. }
  assert (Hfr' : freed ob' = false).
  { destruct (freed ob') eqn:Efr; auto. exfalso. destruct (Hfree eq_refl) as [H|[H|(H1 & H2)]]; [congruence| |].
    - destruct Hc as [(_ & Hwk)|(p & Hin & Hk & Hpo & _)]; [congruence|].
      destruct HW as (HWo & _ & HWt & _). destruct (HWo _ _ Hg Hfr) as [J1 (J2a & J2b) J3].
      destruct (J3 H) as (Hw1 & Hgs). pose proof (pend_is_ge KDealloc o p _ Hin Hk Hpo) as Hpe.
      assert (0 <= fatt s o) by (apply sumZ_nonneg; intros; apply sumZ_nonneg; intros; apply frame_datt_range).
      change (dealloc_attempts s o) with (sumZ (pend_is KDealloc o) (pending s) + fatt s o) in *.
      assert (Hd1 : sumZ (pend_is KDealloc o) (pending s) + fatt s o = 1) by (clear - J2a Hpe H0; lia).
      apply J2b in Hd1. assert (0 <= wowners s o) by (apply wowners_nonneg; auto; intros t0 x0 Hx0; apply (HWt t0 x0 Hx0)).
      pose proof (b2z_range (wtok ob)). destruct Hd1 as [Hd1|Hd1]; [lia|]. rewrite Hd1 in J1. change (b2z true) with 1 in J1. lia.
    - destruct Hc as [(Hwk & _)|(p & Hin & Hk & Hpo & _)]; [lia|].
      destruct HW as (HWo & _). destruct (HWo _ _ Hg Hfr) as [_ (J2a & _) _].
      pose proof (pend_is_ge KDealloc o p _ Hin Hk Hpo) as Hpe. change (dealloc_attempts s o) with (sumZ (pend_is KDealloc o) (pending s) + fatt s o) in J2a. lia. }
  exists ob'. split; auto. split; auto. right.
  destruct Hc as [(Hwk & Hwd0)|(p & Hin & Hk & Hpo & Hwit)].
  - destruct (Z_lt_le_dec 0 (weak (word ob'))) as [Hpos|Hz]; [left; split; auto|].
    right. rewrite Hse. apply (Hdef ltac:(lia) ltac:(lia) t x Hx Hi).
  - right. exists p. rewrite Hse. repeat split; auto. eapply Hpk; eauto.
Qed.

(* ---- the per-frame pass *)
Ltac wstep_q Hm Hx Hf :=
  open_micro Hm Hx Hf; destruct_in Hm; inversion Hm; subst; clear Hm;
  (apply wstep_views; [solve [wviews_solve] | solve [pend_solve]]).
(* a step that rewrites object o, keeping its weak count, WEAKED and the freed flag *)
Lemma wstep_seto s S t y o ob X :
  geto s o = Some ob -> (forall i, geto S i = geto (seto s o X) i) -> incl (pending s) (pending S) ->
  weak (word X) = weak (word ob) -> weaked (word X) = weaked (word ob) -> freed X = freed ob -> WStep s (sett S t y).
Proof.
  intros Hg Hgeto Hp E1 E2 E3. split.
  - intros i ob0 Hg0. rewrite geto_sett, Hgeto. destruct (Nat.eq_dec o i) as [<-|Hne].
    + rewrite (geto_seto_eq _ _ _ _ Hg). rewrite Hg in Hg0. inversion Hg0; subst ob0. exists X. split; auto.
      split; [congruence|]. split; [split; [lia|intros; lia]|]. intros H. left. congruence.
    + rewrite geto_seto_neq by auto. exists ob0. split; auto. apply wmove_view. apply wview_refl.
  - intros t0 x0 x0' p _ _ _ Hin _. apply Hp. exact Hin.
Qed.
Ltac wq_err := apply wstep_views; [solve [wviews_solve] | solve [pend_solve]].
Ltac wq_obj Hg :=
  eapply wstep_seto; [exact Hg | intros; reflexivity | solve [pend_solve]
                     | cbn [word with_word with_tok]; congruence | cbn [word with_word with_tok]; congruence | reflexivity].

Lemma wstep_FIncS s t rec s' obs x k o c f :
  f = FIncS100 o c \/ f = FIncS101 o c ->
  bounded s -> gett s t = Some x -> frames x = f :: k -> micro s t rec = Some (s', obs) -> WStep s s'.
Proof.
  intros Hff HB Hx Hf Hm. destruct Hff as [-> | ->]; open_micro Hm Hx Hf.
  all: destruct (geto s o) as [ob|] eqn:Hg; [|inversion Hm; subst; wq_err].
  all: destruct (bounded_word _ _ _ HB Hg) as (Hw & Hs & _); unfold LIM in Hs.
  all: destruct (updw_fadd_count _ Hw ltac:(lia)) as (U1 & U2 & U3).
  all: destruct (destructed (word ob)); [|destruct (strong (word ob) =? 0)]; inversion Hm; subst s' obs; clear Hm; wq_obj Hg.
Qed.
Lemma wstep_FDecS112 s t rec s' obs x k o cnt r cur tmp own :
  Inv' s -> bounded s -> gett s t = Some x -> frames x = FDecS112 o cnt r cur tmp own :: k ->
  micro s t rec = Some (s', obs) -> WStep s s'.
Proof.
  intros HI HB Hx Hf Hm. open_micro Hm Hx Hf.
  destruct (geto s o) as [ob|] eqn:Hg; [|inversion Hm; subst; wq_err].
  destruct (Z.eqb_spec (word ob) cur) as [<-|Hne].
  2:{ inversion Hm; subst s' obs; clear Hm. wq_err. }
  destruct (bounded_word _ _ _ HB Hg) as (Hw & _).
  destruct (decs112_facts _ _ _ _ _ _ _ _ _ _ HI Hx Hf Hg) as (Hc & _).
  destruct (updw_dec_word (word ob) r cnt Hw ltac:(lia)) as (U1 & U2 & U3).
  destruct tmp; destruct (strong (word ob) =? cnt); inversion Hm; subst s' obs; clear Hm; wq_obj Hg.
Qed.
Lemma wstep_destructed s t rec s' obs x k f :
  (exists o old, f = FTD114 o old) \/ (exists o d w c, f = FDisp130 o d w c) ->
  bounded s -> gett s t = Some x -> frames x = f :: k -> micro s t rec = Some (s', obs) -> WStep s s'.
Proof.
  intros Hff HB Hx Hf Hm. destruct Hff as [(o & old & ->)|(o & d & w & c & ->)]; open_micro Hm Hx Hf.
  all: destruct (geto s o) as [ob|] eqn:Hg; [|inversion Hm; subst; wq_err].
  all: destruct (bounded_word _ _ _ HB Hg) as (Hw & _); destruct (wd_weak _ Hw) as (U1 & U2).
  - destruct (Z.eqb_spec (word ob) old) as [<-|Hne]; [|destruct (0 <? strong (word ob))]; inversion Hm; subst s' obs; clear Hm;
      [wq_obj Hg|wq_err|wq_err].
  - destruct ((strong w =? 0) && (word ob =? w)) eqn:Hc; inversion Hm; subst s' obs; clear Hm; [|wq_err].
    apply andb_prop in Hc as (_ & Hc). apply Z.eqb_eq in Hc. subst w. wq_obj Hg.
Qed.
Lemma wstep_FKid119 s t rec s' obs x k c wc nxt d ne cu outs :
  Inv' s -> bounded s -> gett s t = Some x -> frames x = FKid119 c wc nxt d ne cu outs :: k ->
  micro s t rec = Some (s', obs) -> WStep s s'.
Proof.
  intros HI HB Hx Hf Hm. open_micro Hm Hx Hf.
  destruct (geto s (fst c)) as [ob|] eqn:Hg; [|inversion Hm; subst; wq_err].
  destruct (Z.eqb_spec (word ob) wc) as [<-|Hne].
  2:{ inversion Hm; subst s' obs; clear Hm. wq_err. }
  destruct (bounded_word _ _ _ HB Hg) as (Hw & _).
  destruct (kid119_facts _ _ _ _ _ _ _ _ _ _ _ HI Hx Hf Hg) as (Hc & e & ->).
  destruct (updw_kid_word (word ob) e Hw Hc) as (U1 & U2 & U3).
  destruct (strong _ =? 0); inversion Hm; subst s' obs; clear Hm; wq_obj Hg.
Qed.
Lemma wstep_FIsND109 s t rec s' obs x k o old r c :
  bounded s -> gett s t = Some x -> frames x = FIsND109 o old r c :: k -> micro s t rec = Some (s', obs) -> WStep s s'.
Proof.
  intros HB Hx Hf Hm. open_micro Hm Hx Hf.
  destruct (geto s o) as [ob|] eqn:Hg; [|inversion Hm; subst; wq_err].
  destruct (bounded_word _ _ _ HB Hg) as (Hw & Hs & _). unfold LIM in Hs.
  destruct (Z.eqb_spec (word ob) old) as [<-|Hne].
  - assert (U : updw (word ob) (with_epoch (if strong (word ob) =? 0 then add_strong (word ob) 1 else word ob) r)).
    { destruct (strong (word ob) =? 0).
      - destruct (upd_add_strong (word ob) 1 Hw ltac:(lia) ltac:(lia)) as (Hw1 & _).
        apply (updw_trans _ (add_strong (word ob) 1)); [apply updw_add_strong; auto; lia|]. apply updw_with_epoch; auto.
      - apply updw_with_epoch; auto. }
    destruct U as (U1 & U2 & U3). inversion Hm; subst s' obs; clear Hm.
    eapply wstep_seto; [exact Hg | intros; reflexivity | solve [pend_solve] | cbn [word]; congruence | cbn [word]; congruence | reflexivity].
  - destruct (destructed (word ob)); inversion Hm; subst s' obs; clear Hm; wq_err.
Qed.
Lemma wstep_FDispDo s t rec s' obs x k o d w c :
  gett s t = Some x -> frames x = FDispDo o d w c :: k -> micro s t rec = Some (s', obs) -> WStep s s'.
Proof.
  intros Hx Hf Hm. open_micro Hm Hx Hf.
  destruct (geto s o) as [ob|] eqn:Hg; inversion Hm; subst; clear Hm; [|wq_err].
  eapply wstep_seto; [exact Hg | intros; reflexivity | solve [pend_solve] | reflexivity | reflexivity | reflexivity].
Qed.
Lemma pending_set_cell s c l : pending (set_cell s c l) = pending s.
Proof. apply (proj2 (tp_eq_set_cell s c l)). Qed.
Lemma wstep_cells s t rec s' obs x k f :
  (exists c new d, f = FSwap122 c new d) \/ (exists c new d, f = FSwap120 c new d) \/ (exists c e desraw src d, f = FCas123 c e desraw src d) ->
  gett s t = Some x -> frames x = f :: k -> micro s t rec = Some (s', obs) -> WStep s s'.
Proof.
  intros Hff Hx Hf Hm. destruct Hff as [(c & new & d & ->)|[(c & new & d & ->)|(c & e & desraw & src & d & ->)]]; open_micro Hm Hx Hf.
  all: destruct_in Hm; inversion Hm; subst; clear Hm.
  all: apply wstep_views; [solve [wviews_solve]|].
  all: cbn [pending sett set_err]; rewrite ?pending_set_cell, ?(proj2 (tp_eq_rc _ _ (rc_eq_see_epoch _ _))); cbn [pending set_err]; apply incl_refl.
Qed.
Lemma wstep_FOp s t rec s' obs x k :
  gett s t = Some x -> frames x = FOp :: k -> micro s t rec = Some (s', obs) -> WStep s s'.
Proof.
  intros Hx Hf Hm. open_micro Hm Hx Hf.
  destruct (prog x) as [|op rest] eqn:Hp.
  - inversion Hm; subst s' obs; clear Hm. wq_err.
  - match type of Hm with context [start_op s ?X0 rec op] => set (x0 := X0) in * end.
    pose proof (start_op_ext s x0 rec op) as Hext.
    destruct (start_op s x0 rec op) as [[[s1 x1] fs] o] eqn:Hs. cbn [fst] in Hext.
    destruct Hext as (Hobj & Hpend & _). inversion Hm; subst s' obs; clear Hm. split.
    + intros i ob Hg. exists ob. rewrite geto_sett. split; auto. apply wmove_view. apply wview_refl.
    + intros t0 y y' p _ _ _ Hin _. cbn [pending sett]. rewrite Hpend. exact Hin.
Qed.

Lemma wstep_obj s S t y o ob X :
  geto s o = Some ob -> (forall i, geto S i = geto (seto s o X) i) -> incl (pending s) (pending S) ->
  wmove s (sett S t y) o ob X -> WStep s (sett S t y).
Proof.
  intros Hg Hgeto Hp Hm. split.
  - intros i ob0 Hg0. rewrite geto_sett, Hgeto. destruct (Nat.eq_dec o i) as [<-|Hne].
    + rewrite (geto_seto_eq _ _ _ _ Hg). rewrite Hg in Hg0. inversion Hg0; subst ob0. exists X. split; auto.
    + rewrite geto_seto_neq by auto. exists ob0. split; auto. apply wmove_view. apply wview_refl.
  - intros t0 x0 x0' p _ _ _ Hin _. apply Hp. exact Hin.
Qed.
Lemma fatt_top s t x f k o : gett s t = Some x -> frames x = f :: k -> frame_dealloc_attempt o f <= fatt s o.
Proof.
  intros Hx Hf. unfold fatt.
  pose proof (sumZ_nth_le (fun x => sumZ (frame_dealloc_attempt o) (frames x)) (threads s) t x) as H.
  assert (Hn : forall b, In b (threads s) -> 0 <= sumZ (frame_dealloc_attempt o) (frames b))
    by (intros; apply sumZ_nonneg; intros; apply frame_datt_range).
  specialize (H Hn Hx). cbn beta in H. rewrite Hf, sumZ_cons in H.
  assert (0 <= sumZ (frame_dealloc_attempt o) k) by (apply sumZ_nonneg; intros; apply frame_datt_range). lia.
Qed.

Lemma wstep_FDisp117 s t rec s' obs x k o d ne c outs :
  gett s t = Some x -> frames x = FDisp117 o d ne c outs :: k -> micro s t rec = Some (s', obs) -> WStep s s'.
Proof.
  intros Hx Hf Hm. open_micro Hm Hx Hf.
  destruct (geto s o) as [ob|] eqn:Hg; [|inversion Hm; subst; wq_err].
  destruct (weaked (word ob)) eqn:Hwd; inversion Hm; subst s' obs; clear Hm; [wq_err|].
  eapply wstep_obj; [exact Hg | intros; reflexivity | solve [pend_solve] |].
  unfold wmove; cbn [word freed]. split; [auto|]. split; [split; [lia|intros; lia]|]. intros _. right. left. auto.
Qed.
Lemma wstep_FTDe102 s t rec s' obs x k o :
  bounded s -> gett s t = Some x -> frames x = FTDe102 o :: k -> micro s t rec = Some (s', obs) -> WStep s s'.
Proof.
  intros HB Hx Hf Hm. pose proof (fatt_top s t x _ k o Hx Hf) as Hfa. cbn [frame_dealloc_attempt] in Hfa. rewrite Nat.eqb_refl in Hfa.
  open_micro Hm Hx Hf.
  destruct (geto s o) as [ob|] eqn:Hg; [|inversion Hm; subst; wq_err].
  destruct (bounded_word _ _ _ HB Hg) as (Hw & _). pose proof (weak_range _ Hw) as Hr.
  destruct (Z.ltb_spec 0 (weak (word ob))) as [Hpos|Hz]; inversion Hm; subst s' obs; clear Hm; [wq_err|].
  eapply wstep_obj; [exact Hg | intros; reflexivity | solve [pend_solve] |].
  unfold wmove; cbn [word freed]. split; [auto|]. split; [split; [lia|intros; lia]|]. intros _. right. right. split; lia.
Qed.
Lemma wstep_FDecW107 s t rec s' obs x k o tmp own :
  bounded s -> bounded s' -> gett s t = Some x -> frames x = FDecW107 o tmp own :: k -> micro s t rec = Some (s', obs) -> WStep s s'.
Proof.
  intros HB HB' Hx Hf Hm. open_micro Hm Hx Hf.
  destruct (geto s o) as [ob|] eqn:Hg; [|inversion Hm; subst; wq_err].
  destruct (bounded_word _ _ _ HB Hg) as (Hw & Hs & Hwk).
  set (ob' := {| word := fsub (word ob) WEAK_COUNT; dropped := dropped ob; freed := freed ob; tok := tok ob;
                 wtok := if own then wtok ob else false; links := links ob |}) in *.
  assert (Hg' : geto s' o = Some ob').
  { destruct (weak (word ob) =? 1); inversion Hm; subst s'; cbn [geto sett objs defer set_pending];
      change (geto (seto s o ob') o = Some ob'); eapply geto_seto_eq; eauto. }
  destruct (bounded_word _ _ _ HB' Hg') as (_ & _ & Hwk'). cbn [word ob'] in Hwk'.
  destruct (fsub_weak _ Hw Hwk Hwk') as (E1 & E2 & E3). clear Hg'.
  destruct (Z.eqb_spec (weak (word ob)) 1) as [H1|H1]; inversion Hm; subst s' obs; clear Hm.
  all: eapply wstep_obj; [exact Hg | intros; reflexivity | solve [pend_solve] |].
  all: unfold wmove, ob'; cbn [word freed]; split; [congruence|]; split; [|intros H; left; auto]; split; [lia|].
  - intros _ _ t0 x0 Hx0 Hi0. eexists. split; [cbn [pending sett defer set_pending]; apply in_or_app; right; left; reflexivity|].
    cbn [pk po pwit]. repeat split; auto. unfold witnesses. rewrite threads_seto. apply witnesses_intro; auto.
  - intros. lia.
Qed.

Lemma wstep_FIncW s t rec s' obs x k f :
  (exists o cnt old, f = FIncW104 o cnt old) \/ (exists o cnt, f = FIncW105 o cnt) \/ (exists o, f = FIncW106 o) ->
  Inv' s -> bounded s -> gett s t = Some x -> frames x = f :: k -> micro s t rec = Some (s', obs) -> WStep s s'.
Proof.
  intros Hff HI HB Hx Hf Hm. get_wf HI Hx Hf Hwf0 Hdn0.
  destruct Hff as [(o & cnt & old & ->)|[(o & cnt & ->)|(o & ->)]]; cbn [frame_wf] in Hwf0; open_micro Hm Hx Hf.
  all: destruct (geto s o) as [ob|] eqn:Hg; [|inversion Hm; subst; wq_err].
  all: destruct (bounded_word _ _ _ HB Hg) as (Hw & Hs & Hwk).
  - destruct Hwf0 as (Hcnt & _). destruct (add_weak_fields (word ob) cnt Hw Hwk Hcnt) as (E1 & E2 & E3).
    destruct (Z.eqb_spec (word ob) old) as [<-|Hne]; [|destruct (weaked (word ob))];
      inversion Hm; subst s' obs; clear Hm; [|wq_err|wq_err].
    eapply wstep_obj; [exact Hg | intros; reflexivity | solve [pend_solve] |].
    unfold wmove; cbn [word freed with_word]. split; [auto|]. split; [split; [lia|intros; lia]|]. intros H. left. auto.
  - destruct (fadd_weak_fields (word ob) cnt Hw Hwk Hwf0) as (E1 & E2 & E3).
    destruct (weak (word ob) =? 0); inversion Hm; subst s' obs; clear Hm.
    all: eapply wstep_obj; [exact Hg | intros; reflexivity | solve [pend_solve] |].
    all: unfold wmove; cbn [word freed with_word]; split; [congruence|]; split; [split; [lia|intros; lia]|]; intros H; left; auto.
  - destruct (fadd_weak1_fields (word ob) Hw Hwk) as (E1 & E2 & E3).
    inversion Hm; subst s' obs; clear Hm.
    eapply wstep_obj; [exact Hg | intros; reflexivity | solve [pend_solve] |].
    unfold wmove; cbn [word freed with_word]; split; [congruence|]; split; [split; [lia|intros; lia]|]; intros H; left; auto.
Qed.

Lemma wstep_FAwait s t rec s' obs x k :
  EOK s -> bounded s' -> gett s t = Some x -> frames x = FAwait :: k -> micro s t rec = Some (s', obs) -> WStep s s'.
Proof.
  intros HE HB' Hx Hf Hm.
  destruct (closure_grace s t rec x k s' obs HE Hx Hf Hm (proj1 (proj2 HB'))) as (kd0 & o0 & p0 & rest0 & Htp0 & Hpe0 & _ & Hgr).
  assert (Hkeep : pkeep s s').
  { intros t0 x0 x0' p Hx0 Hx0' (Hi & Hi' & Hse & Han) Hin Hw. rewrite Hpe0.
    destruct (take_pending_other _ _ _ _ _ p Htp0 Hin) as [->|H]; auto.
    exfalso. apply (Hgr t0 (serial x0) x0' Hw Hx0' Hi'). auto. }
  split; auto. clear Htp0 Hpe0 Hgr Hkeep.
  assert (Hgeto : forall i, geto s' i = geto s i).
  { open_micro Hm Hx Hf. destruct_in Hm; inversion Hm; subst; intros;
      rewrite ?geto_sett, ?(geto_rc_eq _ _ _ (rc_eq_see_epoch _ _)), ?(geto_rc_eq _ _ _ (rc_eq_set_err _ _)); reflexivity. }
  intros i ob Hg. exists ob. rewrite Hgeto. split; auto. apply wmove_view. apply wview_refl.
Qed.

(* ---- all frames *)
Theorem micro_wstep s t rec s' obs :
  Inv' s -> EOK s -> bounded s -> bounded s' -> micro s t rec = Some (s', obs) -> WStep s s'.
Proof.
  intros HI HE HB HB' Hm. destruct (micro_top _ _ _ _ _ Hm) as (x & f & k & Hx & Hf).
  destruct f; try solve [wstep_q Hm Hx Hf].
  - exact (wstep_FOp s t rec s' obs x k Hx Hf Hm).
  - exact (wstep_FAwait s t rec s' obs x k HE HB' Hx Hf Hm).
  - exact (wstep_FIncS s t rec s' obs x k _ _ _ (or_introl eq_refl) HB Hx Hf Hm).
  - exact (wstep_FIncS s t rec s' obs x k _ _ _ (or_intror eq_refl) HB Hx Hf Hm).
  - exact (wstep_FDecS112 s t rec s' obs x k _ _ _ _ _ _ HI HB Hx Hf Hm).
  - exact (wstep_destructed s t rec s' obs x k _ (or_introl (ex_intro _ o (ex_intro _ old eq_refl))) HB Hx Hf Hm).
  - exact (wstep_destructed s t rec s' obs x k _ (or_intror (ex_intro _ o (ex_intro _ depth (ex_intro _ w (ex_intro _ curr eq_refl))))) HB Hx Hf Hm).
  - exact (wstep_FDispDo s t rec s' obs x k _ _ _ _ Hx Hf Hm).
  - exact (wstep_FDisp117 s t rec s' obs x k _ _ _ _ _ Hx Hf Hm).
  - exact (wstep_FKid119 s t rec s' obs x k _ _ _ _ _ _ _ HI HB Hx Hf Hm).
  - exact (wstep_FDecW107 s t rec s' obs x k _ _ _ HB HB' Hx Hf Hm).
  - exact (wstep_FTDe102 s t rec s' obs x k _ HB Hx Hf Hm).
  - exact (wstep_FIncW s t rec s' obs x k _ (or_introl (ex_intro _ o (ex_intro _ cnt (ex_intro _ old eq_refl)))) HI HB Hx Hf Hm).
  - exact (wstep_FIncW s t rec s' obs x k _ (or_intror (or_introl (ex_intro _ o (ex_intro _ cnt eq_refl)))) HI HB Hx Hf Hm).
  - exact (wstep_FIncW s t rec s' obs x k _ (or_intror (or_intror (ex_intro _ o eq_refl))) HI HB Hx Hf Hm).
  - exact (wstep_FIsND109 s t rec s' obs x k _ _ _ _ HB Hx Hf Hm).
  - exact (wstep_cells s t rec s' obs x k _ (or_introl (ex_intro _ c (ex_intro _ new (ex_intro _ d eq_refl)))) Hx Hf Hm).
  - exact (wstep_cells s t rec s' obs x k _ (or_intror (or_introl (ex_intro _ c (ex_intro _ new (ex_intro _ d eq_refl))))) Hx Hf Hm).
  - exact (wstep_cells s t rec s' obs x k _ (or_intror (or_intror (ex_intro _ c (ex_intro _ e (ex_intro _ desraw (ex_intro _ src (ex_intro _ d eq_refl))))))) Hx Hf Hm).
Qed.
Theorem micro_wstable s t rec s' obs :
  Inv' s -> Inv' s' -> Winv s -> EOK s -> bounded s -> bounded s' -> stable s s' -> micro s t rec = Some (s', obs) -> wstable s s'.
Proof. intros HI HI' HW HE HB HB' Hst Hm. apply wstable_of; auto. eapply micro_wstep; eauto. Qed.

(* ---- the WeakSnapshot invariant *)
(* ---- the WeakSnapshot invariant *)
Definition wheld (s : state) (t : nat) (x : thr) (o : nat) : Prop := o = O \/ wprot s t x o.
Definition wsnap_h (s : state) (t : nat) (x : thr) (h : handle) : Prop :=
  match h with HWSnap l n => n = serial x -> wheld s t x (fst l) | _ => True end.
Definition nowsnap (h : handle) : Prop := match h with HWSnap _ _ => False | _ => True end.
(* no continuation delivers a WeakSnapshot (they are created in place by downgrade / Weak::snapshot) *)
Definition frame_wc (f : frame) : Prop :=
  match f with
  | FRet c _ | FIsND108 _ c | FIsND109 _ _ _ c | FIncS100 _ c | FIncS101 _ c => nowsnap (cok c) /\ nowsnap (cfail c)
  | _ => True
  end.
(* increment_weak runs on a block the thread keeps allocated by itself: through an Rc or Weak it owns, or (in a
   section) because the block is protected *)
Definition whold (s : state) (t : nat) (x : thr) (o : nat) : Prop :=
  0 < sumZ (handle_strong o) (vars x) \/ 1 <= thr_wneg o x \/ (incs x = true /\ wprot s t x o).
Definition wtop (s : state) (t : nat) (x : thr) (f : frame) : Prop :=
  match f with
  | FIncW103 o _ | FIncW104 o _ _ | FIncW105 o _ => whold s t x o
  (* the second fetch_add of an increment from zero (FINDING F5): the pending try_dealloc waits for this very section *)
  | FIncW106 o => whold s t x o /\ incs x = true /\ pwitD s t (serial x) o
  | _ => True
  end.
Definition wcalm (f : frame) : Prop :=
  match f with FIncW103 _ _ | FIncW104 _ _ _ | FIncW105 _ _ | FIncW106 _ => False | _ => True end.
Definition thr_wsnap (s : state) (t : nat) (x : thr) : Prop :=
  (incs x = true -> Forall (wsnap_h s t x) (vars x)) /\ Forall frame_wc (frames x) /\
  Forall wcalm (tl (frames x)) /\ wtop s t x (hd FOp (frames x)).
Definition WSnapInv (s : state) : Prop := forall t x, gett s t = Some x -> thr_wsnap s t x.

(* H3 for WeakSnapshots *)
Definition wscoped_h (x : thr) (h : handle) : Prop :=
  match h with HWSnap _ n => incs x = true /\ n = serial x | _ => True end.
Definition wscoped (s : state) : Prop := forall t x, gett s t = Some x -> Forall (wscoped_h x) (vars x).

Lemma nowsnap_h s t x h : nowsnap h -> wsnap_h s t x h.
Proof. destruct h; cbn; tauto. Qed.
Lemma wcalm_wtop s t x f : wcalm f -> wtop s t x f.
Proof. destruct f; cbn; tauto. Qed.
Lemma wsnap_h_tr s s' t x x' h : wstable s s' -> gett s t = Some x -> gett s' t = Some x' -> same_sec x x' ->
  wsnap_h s t x h -> wsnap_h s' t x' h.
Proof.
  intros Hst Hx Hx' Hs. destruct h; cbn; auto. intros H E. pose proof Hs as (_ & _ & Hse & _).
  destruct (H ltac:(congruence)) as [H0|H0]; [left; auto|right; eapply (proj1 Hst); eauto].
Qed.
Lemma whold_tr s s' t x x' o : wstable s s' -> gett s t = Some x -> gett s' t = Some x' -> vars x' = vars x ->
  thr_wneg o x <= thr_wneg o x' -> gdepth x' = gdepth x -> serial x' = serial x -> ann x' = ann x ->
  whold s t x o -> whold s' t x' o.
Proof.
  intros Hst Hx Hx' Hv Hn Hg Hse Ha [H|[H|(Hi & H)]]; [left; rewrite Hv; auto|right; left; lia|right; right].
  assert (Hi' : incs x' = true) by (unfold incs in *; rewrite Hg; auto).
  split; auto. eapply (proj1 Hst); eauto. repeat split; auto.
Qed.
Lemma thr_wsnap_tr s s' t x : wstable s s' -> gett s t = Some x -> gett s' t = Some x -> thr_wsnap s t x -> thr_wsnap s' t x.
Proof.
  intros Hst Hx Hx' (H1 & H2 & H3 & H4). split; [|split; auto; split; auto].
  - intros Hi. eapply Forall_impl; [|exact (H1 Hi)]. intros a. eapply wsnap_h_tr; eauto. apply same_sec_refl; auto.
  - destruct (hd FOp (frames x)); cbn [wtop] in *; auto; try (eapply whold_tr; eauto; lia).
    destruct H4 as (Ha & Hi & (p & Hin & Hk & Hpo & Hwit)). split; [eapply whold_tr; eauto; lia|]. split; auto.
    exists p. repeat split; auto. eapply (proj2 Hst); eauto. apply same_sec_refl; auto.
Qed.

Lemma wsnap_step s s1 t x x' f k new :
  WSnapInv s -> wstable s (sett s1 t x') -> threads s1 = threads s -> gett s t = Some x -> frames x = f :: k -> frames x' = new ++ k ->
  (incs x' = true -> same_sec x x') ->
  (incs x' = true -> forall h, In h (vars x') -> In h (vars x) \/ wsnap_h (sett s1 t x') t x' h) ->
  Forall frame_wc new -> Forall wcalm (tl (new ++ k)) -> wtop (sett s1 t x') t x' (hd FOp (new ++ k)) ->
  WSnapInv (sett s1 t x').
Proof.
  intros HS Hst Hth Hx Hf Hf' Hsec Hv Hn Hc Ht t0 y Hy.
  assert (Hx1 : gett s1 t = Some x) by (unfold gett in *; rewrite Hth; auto).
  assert (Hx' : gett (sett s1 t x') t = Some x') by (eapply gett_sett_eq; eauto).
  destruct (Nat.eq_dec t t0) as [<-|Hne].
  - rewrite Hx' in Hy. inversion Hy; subst y; clear Hy.
    destruct (HS t x Hx) as (H1 & H2 & H3 & H4). unfold thr_wsnap. rewrite Hf'. split; [|split; [|split; auto]].
    + intros Hi. pose proof (Hsec Hi) as Hs. pose proof Hs as (Hi0 & _). pose proof (H1 Hi0) as Hv0.
      rewrite Forall_forall in Hv0. apply Forall_forall. intros h Hin. destruct (Hv Hi h Hin) as [Hin0|]; auto.
      eapply wsnap_h_tr; eauto.
    + apply Forall_app. split; auto. rewrite Hf in H2. eapply Forall_inv_tail; eauto.
  - rewrite gett_sett_neq in Hy by auto. assert (Hy0 : gett s t0 = Some y) by (unfold gett in *; rewrite <- Hth; auto).
    eapply thr_wsnap_tr; eauto. rewrite gett_sett_neq by auto. auto.
Qed.

Definition wquietf (f : frame) : Prop :=
  match f with
  | FRet _ _ | FIsND108 _ _ | FIsND109 _ _ _ _ | FIncS100 _ _ | FIncS101 _ _ => False
  | _ => wcalm f
  end.
Lemma wquietf_calm f : wquietf f -> wcalm f. Proof. destruct f; cbn; tauto. Qed.
Lemma wquietf_wc f : wquietf f -> frame_wc f. Proof. destruct f; cbn; tauto. Qed.
Lemma wcalm_tail new k : Forall wcalm new -> Forall wcalm k -> Forall wcalm (tl (new ++ k)).
Proof.
  intros Hn Hk. destruct new as [|a new]; cbn [app tl]; [destruct k; cbn [tl]; auto; inversion Hk; auto|].
  inversion Hn; subst. apply Forall_app. auto.
Qed.
Lemma wcalm_hd new k : Forall wcalm new -> Forall wcalm k -> wcalm (hd FOp (new ++ k)).
Proof.
  intros Hn Hk. destruct new as [|a new]; cbn [app hd]; [destruct k; cbn [hd]; [exact I|inversion Hk; auto]|inversion Hn; auto].
Qed.
Lemma wsnap_quiet s s1 t x x' f k new :
  WSnapInv s -> wstable s (sett s1 t x') -> threads s1 = threads s -> gett s t = Some x -> frames x = f :: k -> frames x' = new ++ k ->
  (incs x' = true -> same_sec x x') ->
  (incs x' = true -> forall h, In h (vars x') -> In h (vars x) \/ wsnap_h (sett s1 t x') t x' h) ->
  Forall wquietf new ->
  WSnapInv (sett s1 t x').
Proof.
  intros HS Hst Hth Hx Hf Hf' Hsec Hv Hq. destruct (HS t x Hx) as (_ & _ & Hc & _). rewrite Hf in Hc. cbn [tl] in Hc.
  assert (Hqc : Forall wcalm new) by (eapply Forall_impl; [|exact Hq]; apply wquietf_calm).
  eapply wsnap_step; eauto.
  - eapply Forall_impl; [|exact Hq]. apply wquietf_wc.
  - apply wcalm_tail; auto.
  - apply wcalm_wtop. apply wcalm_hd; auto.
Qed.
(* the thread was outside a critical section: under H3 it has no WeakSnapshot at all *)
Lemma wsnap_newsec s s1 t x x' f k new :
  WSnapInv s -> wscoped s -> wstable s (sett s1 t x') -> threads s1 = threads s -> gett s t = Some x -> frames x = f :: k ->
  frames x' = new ++ k -> incs x = false -> vars x' = vars x -> Forall wquietf new ->
  WSnapInv (sett s1 t x').
Proof.
  intros HS Hsc Hst Hth Hx Hf Hf' Hi Hv Hq t0 y Hy.
  assert (Hx1 : gett s1 t = Some x) by (unfold gett in *; rewrite Hth; auto).
  assert (Hx' : gett (sett s1 t x') t = Some x') by (eapply gett_sett_eq; eauto).
  destruct (Nat.eq_dec t t0) as [<-|Hne].
  - rewrite Hx' in Hy. inversion Hy; subst y; clear Hy.
    destruct (HS t x Hx) as (_ & H2 & Hc & _). pose proof (Hsc t x Hx) as Sv. rewrite Hf in Hc, H2. cbn [tl] in Hc.
    assert (Hqc : Forall wcalm new) by (eapply Forall_impl; [|exact Hq]; apply wquietf_calm).
    unfold thr_wsnap. rewrite Hf'. split; [|split; [|split]].
    + intros _. rewrite Hv. eapply Forall_impl; [|exact Sv]. intros h Hh. apply nowsnap_h.
      destruct h; cbn in *; auto. destruct Hh; congruence.
    + apply Forall_app. split; [eapply Forall_impl; [|exact Hq]; apply wquietf_wc|eapply Forall_inv_tail; eauto].
    + apply wcalm_tail; auto.
    + apply wcalm_wtop. apply wcalm_hd; auto.
  - rewrite gett_sett_neq in Hy by auto. assert (Hy0 : gett s t0 = Some y) by (unfold gett in *; rewrite <- Hth; auto).
    eapply thr_wsnap_tr; eauto. rewrite gett_sett_neq by auto. auto.
Qed.

Ltac wsreshape k :=
  match goal with |- WSnapInv (sett ?S ?T (with_frames ?X ?FS)) =>
    let p := prefix FS k in change FS with (p ++ k) end.
Lemma wquietf_dec o cnt tmp : Forall wquietf (dec_frames o cnt tmp).
Proof. destruct o; repeat constructor. Qed.
Lemma wquietf_decw o tmp : Forall wquietf (decw_frames o tmp).
Proof. destruct o; repeat constructor. Qed.
Ltac wquiet_list := repeat first [apply Forall_app; split | apply wquietf_dec | apply wquietf_decw | apply Forall_nil | apply Forall_cons | exact I].
Ltac wsnap_quiet_tac :=
  eapply wsnap_quiet; [eassumption | eassumption | try reflexivity; threads_solve | eassumption | eassumption | reflexivity | sec_tac | vars_tac
                      | solve [wquiet_list] ].
Ltac wsnap_q Hm Hx Hf k :=
  open_micro Hm Hx Hf; destruct_in Hm; inversion Hm; subst; clear Hm; wsreshape k; wsnap_quiet_tac.
Ltac wlist_tac := repeat first [apply Forall_app; split | apply Forall_cons | apply Forall_nil].
Ltac wsnap_step_tac :=
  eapply wsnap_step; [eassumption | eassumption | try reflexivity; threads_solve | eassumption | eassumption | reflexivity
                     | try solve [sec_tac] | try solve [vars_tac]
                     | try solve [wlist_tac; cbn; auto]
                     | try solve [cbn [app tl]; wlist_tac; cbn; auto]
                     | try solve [cbn; auto] ].

Lemma wsnap_FRet s t rec s' obs x k c b :
  WSnapInv s -> wstable s s' -> gett s t = Some x -> frames x = FRet c b :: k -> micro s t rec = Some (s', obs) -> WSnapInv s'.
Proof.
  intros HS Hst Hx Hf Hm. destruct (HS t x Hx) as (_ & H2 & _). rewrite Hf in H2. apply Forall_inv in H2. destruct H2 as (N1 & N2).
  open_micro Hm Hx Hf. inversion Hm; subst; clear Hm. wsreshape k.
  eapply wsnap_quiet; [eassumption | eassumption | threads_solve | eassumption | eassumption | reflexivity | sec_tac | | constructor].
  intros Hi h Hin. unfold setv in *; cbn [vars with_frames with_vars with_res] in *.
  apply In_set_nth_inv in Hin. destruct Hin as [->|Hin]; [right|left; auto]. apply nowsnap_h. destruct b; auto.
Qed.
Lemma wsnap_FUnpinTmp s t rec s' obs x k :
  WSnapInv s -> wstable s s' -> gett s t = Some x -> frames x = FUnpinTmp :: k -> micro s t rec = Some (s', obs) -> WSnapInv s'.
Proof.
  intros HS Hst Hx Hf Hm.
  open_micro Hm Hx Hf. inversion Hm; subst; clear Hm. wsreshape k.
  eapply wsnap_quiet; [eassumption | eassumption | threads_solve | eassumption | eassumption | reflexivity | | vars_tac | constructor].
  unfold same_sec, incs; cbn [gdepth serial ann with_frames with_guard]. intros Hi. repeat split; auto.
  destruct (gdepth x); cbn in *; auto.
Qed.
Lemma wsnap_FDecS110 s t rec s' obs x k o cnt tmp own :
  WSnapInv s -> wscoped s -> wstable s s' -> gett s t = Some x -> frames x = FDecS110 o cnt tmp own :: k ->
  micro s t rec = Some (s', obs) -> WSnapInv s'.
Proof.
  intros HS Hsc Hst Hx Hf Hm. open_micro Hm Hx Hf.
  destruct (tmp && negb (inclosure x)) eqn:Hpin; [destruct (gdepth x) eqn:Hg|]; inversion Hm; subst; clear Hm; wsreshape k.
  - eapply wsnap_newsec; [eassumption | eassumption | eassumption | threads_solve | eassumption | eassumption | reflexivity | | reflexivity | repeat constructor].
    unfold incs. rewrite Hg. reflexivity.
  - eapply wsnap_quiet; [eassumption | eassumption | threads_solve | eassumption | eassumption | reflexivity | | vars_tac | repeat constructor].
    unfold same_sec, incs; cbn [gdepth serial ann with_frames with_guard]. rewrite Hg. intros _. repeat split; auto.
  - wsnap_quiet_tac.
Qed.
Lemma wsnap_conts s t rec s' obs x k f :
  (exists o c, f = FIncS100 o c) \/ (exists o c, f = FIncS101 o c) \/ (exists o c, f = FIsND108 o c) \/ (exists o old r c, f = FIsND109 o old r c) ->
  WSnapInv s -> wstable s s' -> gett s t = Some x -> frames x = f :: k -> micro s t rec = Some (s', obs) -> WSnapInv s'.
Proof.
  intros Hff HS Hst Hx Hf Hm. destruct (HS t x Hx) as (_ & H2 & Hc & _). rewrite Hf in H2, Hc. apply Forall_inv in H2. cbn [tl] in Hc.
  destruct Hff as [(o & c & ->)|[(o & c & ->)|[(o & c & ->)|(o & old & r & c & ->)]]]; cbn [frame_wc] in H2; open_micro Hm Hx Hf.
  all: destruct_in Hm; inversion Hm; subst; clear Hm; wsreshape k.
  all: try solve [wsnap_quiet_tac].
  all: wsnap_step_tac.
Qed.

Lemma thr_wneg_frames o x f k new : frames x = f :: k ->
  thr_wneg o (with_frames x (new ++ k)) = thr_wneg o x - frame_wneg o f + sumZ (frame_wneg o) new.
Proof. intros Hf. unfold thr_wneg. cbn [vars frames with_frames]. rewrite Hf, sumZ_app, sumZ_cons. lia. Qed.

Lemma thr_wneg_frame1 o x f k g : frames x = f :: k ->
  thr_wneg o (with_frames x (g :: k)) = thr_wneg o x - frame_wneg o f + frame_wneg o g.
Proof. intros Hf. unfold thr_wneg. cbn [vars frames with_frames]. rewrite Hf, !sumZ_cons. lia. Qed.
Lemma prot_wprot s t x o : Inv' s -> prot s t x o -> wprot s t x o.
Proof.
  intros HI Hp. destruct (prot_live _ _ _ _ Hp) as (ob & Hg & Hd). exists ob. split; auto. split; auto.
  pose proof HI as (HA & _). pose proof (HA _ _ Hg) as J.
  destruct (freed ob) eqn:Efr; auto. pose proof (j_dropped _ _ _ J (j_freed _ _ _ J Efr)). congruence.
Qed.
(* a weak owner keeps the block: the count is positive and WEAKED is set *)
Lemma wowner_wprot s t x o : Winv s -> o <> O -> 1 <= wowners s o -> wprot s t x o.
Proof.
  intros (HWo & HWn & HWt & _ & HWf) Ho Hown.
  assert (Hall : all_wneg s) by (intros t0 x0 Hx0; apply (HWt t0 x0 Hx0)).
  destruct (geto s o) as [ob|] eqn:Hg; [|destruct (HWn o Ho Hg); lia].
  destruct (freed ob) eqn:Hfr; [destruct (HWf _ _ Hg Hfr); lia|].
  destruct (HWo _ _ Hg Hfr) as [J1 _ J3]. exists ob. split; auto. split; auto. right. left.
  pose proof (b2z_range (wtok ob)). assert (0 <= gsh s o ob) by (unfold gsh; pose proof (gfr_nonneg s o); pose proof (b2z_range (negb (dropped ob))); lia).
  split; [lia|]. destruct (weaked (word ob)) eqn:E; auto. destruct (J3 eq_refl). lia.
Qed.
Lemma var_weak_owner s t x o : Winv s -> gett s t = Some x -> 1 <= thr_wneg o x -> o <> O -> 1 <= wowners s o.
Proof.
  intros HW Hx Hn Ho. destruct HW as (_ & _ & HWt & _).
  assert (Hall : all_wneg s) by (intros t0 x0 Hx0; apply (HWt t0 x0 Hx0)).
  pose proof (wowners_ge_thr s t x o Hall Ho Hx). pose proof (thr_weak_ge_wneg o x). lia.
Qed.
Lemma In_hweak_sum v (l : link) : In (HWeak l) v -> 1 <= sumZ (handle_weak (fst l)) v.
Proof.
  intros Hin. induction v as [|a r IH]; [destruct Hin|]. rewrite sumZ_cons. pose proof (handle_weak_nonneg (fst l) a).
  pose proof (handles_weak_nonneg (fst l) r).
  destruct Hin as [->|Hin]; [cbn [handle_weak]; rewrite is_o_eq; lia|specialize (IH Hin); lia].
Qed.

(* an increment from zero can only be the one of a reader whose section a pending try_dealloc waits for *)
Lemma inc_from_zero s t x o ob : Inv' s -> Winv s -> gett s t = Some x -> whold s t x o -> geto s o = Some ob ->
  weak (word ob) = 0 -> incs x = true /\ pwitD s t (serial x) o.
Proof.
  intros HI HW Hx Hh Hg Hz. assert (Ho : o <> O) by (intros ->; discriminate).
  assert (Hgs : forall ob0, geto s o = Some ob0 -> freed ob0 = false -> destructed (word ob0) = false -> False).
  { intros ob0 Hg0 Hfr Hd. rewrite Hg in Hg0. inversion Hg0; subst ob0.
    pose proof HW as (HWo & _ & HWt & _). destruct (HWo _ _ Hg Hfr) as [J1 _ _].
    assert (0 <= wowners s o) by (apply wowners_nonneg; auto; intros t0 x0 Hx0; apply (HWt t0 x0 Hx0)).
    pose proof HI as (HA & _). pose proof (HA _ _ Hg) as J.
    assert (Hdr : dropped ob = false) by (destruct (dropped ob) eqn:E; auto; rewrite (j_dropped _ _ _ J E) in Hd; discriminate).
    unfold gsh in J1. rewrite Hdr in J1. cbn [negb] in J1. change (b2z true) with 1 in J1.
    pose proof (gfr_nonneg s o). pose proof (b2z_range (wtok ob)). lia. }
  assert (Hpl : forall t0 x0, prot s t0 x0 o -> False).
  { intros t0 x0 Hp. destruct (prot_wprot _ _ _ _ HI Hp) as (ob0 & Hg0 & Hfr0 & _). destruct (prot_live _ _ _ _ Hp) as (ob1 & Hg1 & Hd1).
    rewrite Hg0 in Hg1. inversion Hg1; subst ob1. eauto. }
  destruct Hh as [H|[H|(Hi & (ob0 & Hg0 & Hfr0 & Hc))]].
  - exfalso. apply (Hpl t x). apply (hold_prot s t x o HI Hx Ho). left. auto.
  - exfalso. destruct (wowner_wprot s t x o HW Ho (var_weak_owner s t x o HW Hx H Ho)) as (ob0 & Hg0 & Hfr0 & Hc).
    rewrite Hg in Hg0. inversion Hg0; subst ob0.
    pose proof HW as (HWo & _ & HWt & _). destruct (HWo _ _ Hg Hfr0) as [J1 _ _].
    pose proof (var_weak_owner s t x o HW Hx H Ho). pose proof (gfr_nonneg s o). pose proof (b2z_range (wtok ob)).
    pose proof (b2z_range (negb (dropped ob))). unfold gsh in J1. lia.
  - rewrite Hg in Hg0. inversion Hg0; subst ob0. split; auto.
    destruct Hc as [Hp|[(Hpos & _)|Hp]]; [exfalso; eauto|lia|auto].
Qed.

Lemma wsnap_FIncW s t rec s' obs x k f :
  (exists o cnt, f = FIncW103 o cnt) \/ (exists o cnt old, f = FIncW104 o cnt old) \/ (exists o cnt, f = FIncW105 o cnt) ->
  Inv' s -> Winv s -> WSnapInv s -> wstable s s' -> gett s t = Some x -> frames x = f :: k -> micro s t rec = Some (s', obs) -> WSnapInv s'.
Proof.
  intros Hff HI HW HS Hst Hx Hf Hm. destruct (HS t x Hx) as (_ & _ & Hc & Ht). rewrite Hf in Hc, Ht. cbn [tl hd] in Hc, Ht.
  get_wf HI Hx Hf Hwf0 Hdn0.
  destruct Hff as [(o & cnt & ->)|[(o & cnt & old & ->)|(o & cnt & ->)]]; cbn [frame_wf wtop] in *; open_micro Hm Hx Hf.
  all: destruct_in Hm; inversion Hm; subst; clear Hm; wsreshape k.
  all: try solve [wsnap_quiet_tac].
  all: wsnap_step_tac.
  all: cbn [app hd wtop].
  all: try match goal with |- _ /\ _ /\ _ => split; [|
         match goal with Hg : geto _ ?O = Some ?OB, Hz : (weak (word ?OB) =? 0) = true |- _ =>
           apply Z.eqb_eq in Hz; destruct (inc_from_zero _ _ _ O OB HI HW Hx Ht Hg Hz) as (Hi0 & (p & Hin & Hk & Hpo & Hwit));
           split; [exact Hi0|]; exists p; cbn [pending sett serial with_frames]; rewrite pending_seto; auto end] end.
  all: eapply whold_tr; [exact Hst | exact Hx | eapply gett_sett_eq; rewrite ?gett_seto; eauto | reflexivity | | reflexivity | reflexivity | reflexivity | exact Ht].
  all: rewrite (thr_wneg_frame1 o x _ k _ Hf); cbn [frame_wneg]; rewrite Nat.eqb_refl; lia.
Qed.

(* ---- operations *)
Ltac wsnap_quiet_op :=
  eapply wsnap_quiet; [eassumption | eassumption | try reflexivity; threads_solve | eassumption | eassumption | reflexivity | sec_tac | vars_tac
                      | solve [wquiet_list] ].
Lemma wsnap_FOp s t rec s' obs x k :
  Inv' s -> Winv s -> scoped s -> wscoped s -> SnapInv s -> WSnapInv s -> wstable s s' -> gett s t = Some x -> frames x = FOp :: k ->
  micro s t rec = Some (s', obs) -> WSnapInv s'.
Proof.
  intros HI HW Hsc Hwsc HSS HS Hst Hx Hf Hm. pose proof (Inv'_thr_wf _ _ _ HI Hx) as Wx.
  pose proof (FOp_bottom _ _ Wx Hf) as ->. open_micro Hm Hx Hf.
  destruct (prog x) as [|op rest] eqn:Hp.
  - inversion Hm; subst s' obs; clear Hm. change (with_frames x []) with (with_frames x ([] ++ [])). wsnap_quiet_op.
  - match type of Hm with context [start_op s ?X0 rec op] => set (x0 := X0) in * end.
    destruct (start_op s x0 rec op) as [[[s1 x1] fs] o] eqn:Hs.
    inversion Hm; subst s' obs; clear Hm.
    replace (fs ++ FMay :: FOpEnd (hd 0 op) :: [FOp]) with ((fs ++ [FMay; FOpEnd (hd 0 op); FOp]) ++ []) in * by apply app_nil_r.
    unfold start_op in Hs.
    destruct (negb (dst_free x0 op)) eqn:Hdf; [inversion Hs; subst; wsnap_quiet_op|].
    repeat match type of Hs with
         | context [match ?r with _ => _ end] => is_var r; destruct r
         end; try (inversion Hs; subst; wsnap_quiet_op; fail).
    all: repeat match type of Hs with
         | context [match fst ?l with O => _ | S _ => _ end] => destruct (fst l) eqn:?
         | context [match gdepth ?a with O => _ | S _ => _ end] => destruct (gdepth a) eqn:?
         | context [let (_, _) := alloc ?a ?b in _] => unfold alloc in Hs
         | context [match getv ?a ?b with _ => _ end] => destruct (getv a b) eqn:?
         | context [match get_cell ?a ?b with _ => _ end] => destruct (get_cell a b) eqn:?
         | context [if ?c then _ else _] => destruct c eqn:?
         | context [match ?r with _ => _ end] => is_var r; destruct r
         end; try (inversion Hs; subst; wsnap_quiet_op; fail).
    all: inversion Hs; subst; clear Hs.
    all: subst x0.
    all: repeat match goal with H : gdepth _ = _ |- _ => cbn [gdepth] in H; revert H end; intros.
    (* increment_strong: Rc::clone, Weak::upgrade, Snapshot::counted *)
    all: try (match goal with |- WSnapInv (sett _ _ (with_frames _ ((incs_frames (fst ?L) _ ++ _) ++ _))) =>
       destruct (fst L); cbn [incs_frames]; wsnap_step_tac end; fail).
    (* WeakSnapshot::upgrade *)
    all: try (match goal with |- WSnapInv (sett _ _ (with_frames _ (([FRet _ _] ++ _) ++ _))) => wsnap_step_tac end; fail).
    all: try (match goal with |- WSnapInv (sett _ _ (with_frames _ (([FIsND108 _ _] ++ _) ++ _))) => wsnap_step_tac end; fail).
    (* drop(guard), cs() *)
    all: try (match goal with |- WSnapInv (sett _ _ (with_frames (with_guard (with_vars _ _) O _ _) _)) =>
       eapply wsnap_quiet; [eassumption|eassumption|try reflexivity; threads_solve|eassumption|eassumption|reflexivity
                           |intros Hi; discriminate Hi|intros Hi; discriminate Hi|solve [wquiet_list]] end; fail).
    all: try (match goal with Hg : gdepth ?X = _ |- WSnapInv (sett _ _ (with_frames (with_guard _ (S _) (ann ?X) (serial ?X)) _)) =>
       eapply wsnap_quiet; [eassumption|eassumption|try reflexivity; threads_solve|eassumption|eassumption|reflexivity
                           |unfold same_sec, incs; cbn [gdepth serial ann with_frames with_guard with_vars]; rewrite Hg; intros _; repeat split; auto
                           |intros _ h Hin; left; exact Hin|solve [wquiet_list]] end; fail).
    all: try (match goal with Hg : gdepth _ = O |- _ =>
       eapply wsnap_newsec; [eassumption|eassumption|eassumption|try reflexivity; threads_solve|eassumption|eassumption|reflexivity
                            |unfold incs; rewrite Hg; reflexivity|reflexivity|solve [wquiet_list]] end; fail).
    (* Rc::new_many, Rc::weak_many without count frame *)
    all: try (match goal with |- WSnapInv (sett _ _ (with_frames (with_vars _ (set_range _ _ _ _)) (([] ++ _) ++ _))) =>
       eapply wsnap_quiet; [eassumption|eassumption|try reflexivity; threads_solve|eassumption|eassumption|reflexivity|sec_tac| |solve [wquiet_list]];
       intros _ h Hin; cbn [vars with_frames with_vars] in Hin; apply In_set_range_inv in Hin; destruct Hin as [->|Hin]; [right; exact I|left; exact Hin] end; fail).
    (* Rc::weak_many: the Rc argument stays in its slot *)
    all: try (match goal with Hg : getv _ _ = HRc ?L, Efl : fst ?L = S ?N |- WSnapInv (sett _ _ (with_frames (with_vars _ (set_range _ ?D ?M _)) (([FIncW103 _ _] ++ _) ++ _))) =>
       wsnap_step_tac;
       [ intros _ h Hin; cbn [vars with_frames with_vars] in Hin; apply In_set_range_inv in Hin; destruct Hin as [->|Hin]; [right; exact I|left; exact Hin]
       | cbn [app hd wtop]; left; cbn [vars with_frames with_vars];
         rewrite sumZ_set_range0; [rewrite <- Efl; apply In_hrc_strong; [apply Wx|exact (getv_In _ _ _ Hg ltac:(discriminate))] | reflexivity | reflexivity
                                  | cbn [dst_free] in Hdf; apply negb_false_iff in Hdf; exact (range_free_spec _ _ _ Hdf) ] ] end; fail).
    (* increment_weak: Rc::downgrade, Weak::clone, WeakSnapshot::counted *)
    all: try (match goal with Hg : getv _ _ = _ |- WSnapInv (sett _ _ (with_frames _ ((incw_frames (fst ?L) _ _ ++ _) ++ _))) =>
       destruct (fst L) eqn:Efl; cbn [incw_frames]; wsnap_step_tac; cbn [app hd wtop];
       first [ left; rewrite <- Efl; apply In_hrc_strong; [apply Wx|exact (getv_In _ _ _ Hg ltac:(discriminate))]
             | right; left; unfold thr_wneg; cbn [vars frames with_frames]; rewrite !sumZ_cons, sumZ_nil; cbn [frame_wneg KSET cok handle_weak];
               rewrite Nat.eqb_refl; pose proof (In_hweak_sum _ _ (getv_In _ _ _ Hg ltac:(discriminate))) as Hsum; cbn [vars] in Hsum; rewrite Efl in Hsum;
               unfold is_o; rewrite Efl, Nat.eqb_refl; lia
             | right; right; pose proof (getv_In _ _ _ Hg ltac:(discriminate)) as Hin;
               pose proof (Hwsc t x Hx) as Sv; rewrite Forall_forall in Sv; destruct (Sv _ Hin) as (Hi0 & Hn0);
               split; [exact Hi0|];
               (eapply (proj1 Hst); [exact Hx | eapply gett_sett_eq; eauto | repeat split; auto |]);
               destruct (HS t x Hx) as (H1 & _); pose proof (H1 Hi0) as Hv; rewrite Forall_forall in Hv;
               destruct (Hv _ Hin Hn0) as [H0|H0]; [rewrite Efl in H0; discriminate|rewrite <- Efl; exact H0] ] end; fail).
    (* Snapshot::downgrade *)
    all: try (match goal with Hg : getv _ _ = HSnap ?L ?N |- WSnapInv (sett _ _ (with_frames (setv _ _ (HWSnap ?L ?N)) _)) =>
       (eapply wsnap_quiet; [eassumption|eassumption|try reflexivity; threads_solve|eassumption|eassumption|reflexivity|sec_tac| |solve [wquiet_list]]);
       intros Hi h Hin; unfold setv in Hin; cbn [vars with_frames with_vars] in Hin; apply In_set_nth_inv in Hin;
       destruct Hin as [->|Hin]; [right|left; exact Hin];
       cbn [wsnap_h]; intros Hn0; destruct (Nat.eq_dec (fst L) O) as [E|Hne]; [left; auto|right];
       (eapply (proj1 Hst); [exact Hx | eapply gett_sett_eq; eauto | repeat split; auto |]);
       apply prot_wprot; auto;
       destruct (HSS t x Hx) as (H1 & _); destruct (H1 Hi) as (Hv & _); rewrite Forall_forall in Hv;
       destruct (Hv _ (getv_In _ _ _ Hg ltac:(discriminate)) Hn0) as [H0|H0]; [contradiction|exact H0] end; fail).
    (* Weak::snapshot *)
    all: try (match goal with Hg : getv _ _ = HWeak ?L |- WSnapInv (sett _ _ (with_frames (setv _ _ (HWSnap ?L _)) _)) =>
       (eapply wsnap_quiet; [eassumption|eassumption|try reflexivity; threads_solve|eassumption|eassumption|reflexivity|sec_tac| |solve [wquiet_list]]);
       intros Hi h Hin; unfold setv in Hin; cbn [vars with_frames with_vars] in Hin; apply In_set_nth_inv in Hin;
       destruct Hin as [->|Hin]; [right|left; exact Hin];
       cbn [wsnap_h]; intros _; destruct (Nat.eq_dec (fst L) O) as [E|Hne]; [left; auto|right];
       (eapply (proj1 Hst); [exact Hx | eapply gett_sett_eq; eauto | repeat split; auto |]);
       apply wowner_wprot; auto; (eapply var_weak_owner; [eassumption | exact Hx | | exact Hne]);
       unfold thr_wneg; rewrite Hf, sumZ_cons, sumZ_nil; cbn [frame_wneg];
       pose proof (In_hweak_sum _ _ (getv_In _ _ _ Hg ltac:(discriminate))) as Hsum; cbn [vars] in Hsum; lia end; fail).
Qed.

(* ---- every micro transition preserves the WeakSnapshot invariant *)
Theorem micro_wsnap s t rec s' obs :
  Inv' s -> Winv s -> scoped s -> wscoped s -> SnapInv s -> WSnapInv s -> wstable s s' -> micro s t rec = Some (s', obs) -> WSnapInv s'.
Proof.
  intros HI HW Hsc Hwsc HSS HS Hst Hm. destruct (micro_top _ _ _ _ _ Hm) as (x & f & k & Hx & Hf).
  destruct f; try solve [wsnap_q Hm Hx Hf k].
  - exact (wsnap_FOp s t rec s' obs x k HI HW Hsc Hwsc HSS HS Hst Hx Hf Hm).
  - exact (wsnap_FRet s t rec s' obs x k _ _ HS Hst Hx Hf Hm).
  - exact (wsnap_FUnpinTmp s t rec s' obs x k HS Hst Hx Hf Hm).
  - exact (wsnap_conts s t rec s' obs x k _ (or_introl (ex_intro _ o (ex_intro _ k0 eq_refl))) HS Hst Hx Hf Hm).
  - exact (wsnap_conts s t rec s' obs x k _ (or_intror (or_introl (ex_intro _ o (ex_intro _ k0 eq_refl)))) HS Hst Hx Hf Hm).
  - exact (wsnap_FDecS110 s t rec s' obs x k _ _ _ _ HS Hwsc Hst Hx Hf Hm).
  - exact (wsnap_FIncW s t rec s' obs x k _ (or_introl (ex_intro _ o (ex_intro _ cnt eq_refl))) HI HW HS Hst Hx Hf Hm).
  - exact (wsnap_FIncW s t rec s' obs x k _ (or_intror (or_introl (ex_intro _ o (ex_intro _ cnt (ex_intro _ old eq_refl))))) HI HW HS Hst Hx Hf Hm).
  - exact (wsnap_FIncW s t rec s' obs x k _ (or_intror (or_intror (ex_intro _ o (ex_intro _ cnt eq_refl)))) HI HW HS Hst Hx Hf Hm).
  - exact (wsnap_conts s t rec s' obs x k _ (or_intror (or_intror (or_introl (ex_intro _ o (ex_intro _ k0 eq_refl))))) HS Hst Hx Hf Hm).
  - exact (wsnap_conts s t rec s' obs x k _ (or_intror (or_intror (or_intror (ex_intro _ o (ex_intro _ old (ex_intro _ r (ex_intro _ k0 eq_refl))))))) HS Hst Hx Hf Hm).
Qed.

(* ---- what it gives back: increment_weak never runs on a freed block *)
Lemma whold_wprot s t x o : Inv' s -> Winv s -> gett s t = Some x -> o <> O -> whold s t x o -> wprot s t x o.
Proof.
  intros HI HW Hx Ho [H|[H|(_ & H)]]; auto.
  - apply prot_wprot; auto. apply (hold_prot s t x o HI Hx Ho). left. auto.
  - apply wowner_wprot; auto. eapply var_weak_owner; eauto.
Qed.
Lemma wsnap_wlive s : Inv' s -> Winv s -> WSnapInv s -> wlive_ok s.
Proof.
  intros HI HW HS t x f k o ob Hx Hf Hio Hg. destruct (HS t x Hx) as (_ & _ & _ & Ht). rewrite Hf in Ht. cbn [hd] in Ht.
  assert (Ho : o <> O) by (intros ->; discriminate).
  assert (Hh : whold s t x o) by (destruct f; cbn in Hio; try discriminate; inversion Hio; subst; first [exact Ht | exact (proj1 Ht)]).
  destruct (wprot_live _ _ _ _ (whold_wprot s t x o HI HW Hx Ho Hh)) as (ob' & Hg' & Hfr). congruence.
Qed.
Definition wsnap_valid (s : state) : Prop :=
  forall t x l n o ob, gett s t = Some x -> In (HWSnap l n) (vars x) -> incs x = true -> n = serial x ->
    fst l = o -> geto s o = Some ob -> freed ob = false.
Lemma wsnap_valid_of s : WSnapInv s -> wsnap_valid s.
Proof.
  intros HS t x l n o ob Hx Hin Hi Hn Hl Hg. destruct (HS t x Hx) as (H1 & _). pose proof (H1 Hi) as Hv.
  rewrite Forall_forall in Hv. assert (Ho : o <> O) by (intros ->; discriminate).
  destruct (Hv _ Hin Hn) as [H|H]; [congruence|]. rewrite Hl in H. destruct (wprot_live _ _ _ _ H) as (ob' & Hg' & Hfr). congruence.
Qed.

(* ---- runs *)
(* ---- FINDING F5 discharged: while a try_dealloc is at its decrement, nobody sits between the two fetch_adds of an
   increment from zero -- that increment belongs to a reader whose section a PENDING try_dealloc waits for, and there is
   only one attempt at a time *)
Lemma wsnap_wcounted s : Inv' s -> Winv s -> WSnapInv s -> wcounted_ok s.
Proof.
  intros HI HW HS t x o tmp k t' x' Hx Hf Hx' Hin.
  destruct (HS t' x' Hx') as (_ & _ & Hc & Ht).
  destruct (frames x') as [|f' k'] eqn:Hf'; [destruct Hin|]. cbn [tl hd] in Hc, Ht.
  destruct Hin as [->|Hin]; [|rewrite Forall_forall in Hc; exact (Hc _ Hin)].
  cbn [wtop] in Ht. destruct Ht as (Hh & Hi & (p & Hp & Hk & Hpo & _)).
  pose proof HW as (HWo & _ & HWt & _). destruct (HWt _ _ Hx) as (_ & Hfw). rewrite Hf in Hfw. apply Forall_inv in Hfw.
  destruct Hfw as (ob & Hg & _). assert (Ho : o <> O) by (intros ->; discriminate).
  destruct (whold_wprot s t' x' o HI HW Hx' Ho Hh) as (ob' & Hg' & Hfr & _). rewrite Hg in Hg'. inversion Hg'; subst ob'.
  destruct (HWo _ _ Hg Hfr) as [_ (J2a & _) _].
  pose proof (pend_is_ge KDealloc o p _ Hp Hk Hpo) as Hpe.
  pose proof (fatt_top s t x _ k o Hx Hf) as Hfa. cbn [frame_dealloc_attempt] in Hfa. rewrite Nat.eqb_refl in Hfa.
  change (dealloc_attempts s o) with (sumZ (pend_is KDealloc o) (pending s) + fatt s o) in J2a. lia.
Qed.

(* ---- runs.  Hypotheses at every state, besides [bounded]: H2 [pinned], H3 [scoped] and [wscoped] (Snapshots and
   WeakSnapshots belong to the section they were taken in), [epoch_ok (G s)].  The three parts of [counted_ok]
   ([scounted_ok], [wcounted_ok], [wlive_ok]) are consequences. *)
Definition c03_hyp (s : state) : Prop :=
  pinned s /\ scoped s /\ wscoped s /\ epoch_ok (G s).
Fixpoint c03_run (s : state) (sched : list (nat * list Z)) : Prop :=
  c03_hyp s /\
  match sched with
  | [] => True
  | (t, rec) :: r => match micro s t rec with Some (s', _) => c03_run s' r | None => c03_run s r end
  end.
Lemma c03_run_head s sched : c03_run s sched -> c03_hyp s.
Proof. destruct sched as [|[t rec] r]; cbn; tauto. Qed.

Definition WCInv (s : state) : Prop := CInv s /\ WSnapInv s.

Theorem micro_wcinv s t rec s' obs :
  WCInv s -> bounded s -> bounded s' -> c03_hyp s -> c03_hyp s' -> micro s t rec = Some (s', obs) -> WCInv s'.
Proof.
  intros ((HI & HW & HE & HS & HK & HR) & HWS) HB HB' (HP & Hsc & Hwsc & HG) (HP' & _ & _ & HG') Hm.
  pose proof (snap_scounted s HI HS) as HC. pose proof (wsnap_wlive s HI HW HWS) as HWl.
  pose proof (wsnap_wcounted s HI HW HWS) as HWc.
  assert (HCO : counted_ok s) by (split; [|split]; auto).
  assert (HI' : Inv' s') by exact (micro_inv s t rec s' obs HI (Winv_tde _ HW) HCO HB HB' Hm).
  assert (HW' : Winv s') by exact (wmicro_inv s t rec s' obs HW HI HCO HB HB' Hm).
  assert (HE' : EOK s') by exact (micro_eok s t rec s' obs HE Hm).
  assert (Hst : stable s s') by exact (micro_stable s t rec s' obs HI HI' HE HE' HP HR HB HB' HG' HC (snap_cells_live s HI HS) Hm).
  assert (Hwst : wstable s s') by exact (micro_wstable s t rec s' obs HI HI' HW HE HB HB' Hst Hm).
  split; [split; [|split; [|split; [|split; [|split]]]]|]; auto.
  - exact (micro_snap s t rec s' obs HI HE HP HB Hsc HK HS Hst Hm).
  - exact (micro_cellops s t rec s' obs HK Hm).
  - apply (micro_rinv s t rec s' obs); auto; [unfold epoch_ok in HG; lia|].
    intros t0 x0 c wc nxt d ne curr outs k0 Hx0 Hf0. apply (pinned_top _ _ _ _ _ HP Hx0 Hf0).
  - exact (micro_wsnap s t rec s' obs HI HW Hsc Hwsc HS HWS Hwst Hm).
Qed.
Theorem mrun_wcinv sched : forall s0, WCInv s0 -> bounded_run s0 sched -> c03_run s0 sched -> WCInv (mrun s0 sched).
Proof.
  induction sched as [|[t rec] r IH]; intros s0 HC HB HH; cbn [mrun]; auto.
  cbn [bounded_run c03_run] in HB, HH. destruct HB as (HB0 & HB), HH as (HH0 & HH).
  destruct (micro s0 t rec) as [[s' o]|] eqn:Hm; [|apply IH; auto].
  apply IH; auto. eapply micro_wcinv; eauto using bounded_run_head, c03_run_head.
Qed.
Lemma WSnapInv_fresh s : fresh_start s -> WSnapInv s.
Proof.
  intros (_ & _ & _ & Ht) t x Hx. rewrite Forall_forall in Ht. destruct (Ht x (nth_error_In _ _ Hx)) as (Hv & Hf & Hg & _).
  rewrite Forall_forall in Hv. unfold thr_wsnap. rewrite Hf. cbn [tl hd wtop].
  split; [|split; [|split]]; try solve [repeat constructor].
  intros _. apply Forall_forall. intros h Hin. rewrite (Hv h Hin). exact I.
Qed.
Lemma WCInv_fresh s : fresh_start s -> cellops_ok s -> WCInv s.
Proof. intros H HK. split; [apply CInv_fresh|apply WSnapInv_fresh]; auto. Qed.

(* C03 for WeakSnapshots: the block a WeakSnapshot of the still active critical section refers to is not freed *)
Definition C03_wsnap_statement' : Prop :=
  forall s0 sched, fresh_start s0 -> cellops_ok s0 -> bounded_run s0 sched -> c03_run s0 sched -> wsnap_valid (mrun s0 sched).
Theorem C03_wsnap : C03_wsnap_statement'.
Proof. intros s0 sched HF HK HB HH. apply wsnap_valid_of. apply (mrun_wcinv sched s0); auto using WCInv_fresh. Qed.

(* the run hypothesis [counted_ok] of RcSpec.v (all three parts) holds along such runs ... *)
Lemma WCInv_counted s : WCInv s -> counted_ok s.
Proof.
  intros ((HI & HW & _ & HS & _) & HWS). split; [apply snap_scounted|split; [apply wsnap_wcounted|apply wsnap_wlive]]; auto.
Qed.
Theorem counted_along_runs s0 sched :
  fresh_start s0 -> cellops_ok s0 -> bounded_run s0 sched -> c03_run s0 sched -> counted_ok (mrun s0 sched).
Proof. intros HF HK HB HH. apply WCInv_counted. apply (mrun_wcinv sched s0); auto using WCInv_fresh. Qed.
(* ... and at every state of the run: [live_counted] is no longer a hypothesis *)
Theorem live_counted_of sched : forall s0, WCInv s0 -> bounded_run s0 sched -> c03_run s0 sched -> live_counted s0 sched.
Proof.
  induction sched as [|[t rec] r IH]; intros s0 HC HB HH; cbn [live_counted]; (split; [apply WCInv_counted; auto|]); auto.
  cbn [bounded_run c03_run] in HB, HH. destruct HB as (HB0 & HB), HH as (HH0 & HH).
  destruct (micro s0 t rec) as [[s' o]|] eqn:Hm; [|apply IH; auto].
  apply IH; auto. eapply micro_wcinv; eauto using bounded_run_head, c03_run_head.
Qed.
Theorem live_counted_along_runs s0 sched :
  fresh_start s0 -> cellops_ok s0 -> bounded_run s0 sched -> c03_run s0 sched -> live_counted s0 sched.
Proof. intros HF HK HB HH. apply live_counted_of; auto using WCInv_fresh. Qed.
Require Import RcSnapCheck RcSnapP.
(* C02 without [wlive_ok] *)
Theorem C02_final s0 sched :
  fresh_start s0 -> cellops_ok s0 -> bounded_run s0 sched -> c03_run s0 sched -> snap_valid (mrun s0 sched).
Proof.
  intros HF HK HB HH. destruct (mrun_wcinv sched s0 (WCInv_fresh _ HF HK) HB HH) as ((HI & _ & _ & HS & _) & _).
  intros t x o ts n Hx Hin Hi Hn Ho. destruct (snap_valid_of _ HS t x o ts n Hx Hin Hi Hn Ho) as (ob & Hg & Hd).
  unfold obj_live. rewrite Hg, Hd. pose proof HI as (HA & _). pose proof (HA _ _ Hg) as J.
  destruct (dropped ob) eqn:Edr; [rewrite (j_dropped _ _ _ J Edr) in Hd; discriminate|].
  destruct (freed ob) eqn:Efr; [rewrite (j_freed _ _ _ J Efr) in Edr; discriminate|]. reflexivity.
Qed.
Print Assumptions C03_wsnap.
Print Assumptions C02_final.
Print Assumptions live_counted_along_runs.

(* ---- the count theorems of RcSpec.v without the run hypothesis [live_counted] *)
Definition run_ok (s0 : state) (sched : list (nat * list Z)) : Prop :=
  fresh_start s0 /\ cellops_ok s0 /\ bounded_run s0 sched /\ c03_run s0 sched.
Lemma run_ok_hyps s0 sched : run_ok s0 sched -> fresh_start s0 /\ bounded_run s0 sched /\ live_counted s0 sched.
Proof. intros (H1 & H2 & H3 & H4). split; auto. split; auto. apply live_counted_along_runs; auto. Qed.
Theorem C01_final s0 sched : run_ok s0 sched ->
  let s := mrun s0 sched in
  forall o ob, geto s o = Some ob -> 0 < owners s o -> dropped ob = false /\ freed ob = false /\ destructed (word ob) = false.
Proof. intros H. destruct (run_ok_hyps _ _ H) as (H1 & H2 & H3). exact (C01 s0 sched H1 H2 H3). Qed.
Theorem C03_final s0 sched : run_ok s0 sched ->
  let s := mrun s0 sched in forall o ob, geto s o = Some ob -> 0 < wowners s o -> freed ob = false.
Proof. intros H. destruct (run_ok_hyps _ _ H) as (H1 & H2 & H3). exact (C03 s0 sched H1 H2 H3). Qed.
Theorem C04_final s0 sched t rec s' obs : run_ok s0 sched ->
  let s := mrun s0 sched in
  micro s t rec = Some (s', obs) ->
  forall o ob ob', geto s o = Some ob -> geto s' o = Some ob' ->
    (dropped ob = true -> dropped ob' = true) /\ (freed ob = true -> freed ob' = true) /\
    (dropped ob = false -> dropped ob' = true -> In 1102 obs /\ destructed (word ob) = true /\ freed ob = false) /\
    (freed ob = false -> freed ob' = true -> In 1100 obs /\ dropped ob = true).
Proof. intros H. destruct (run_ok_hyps _ _ H) as (H1 & H2 & H3). exact (C04 s0 sched t rec s' obs H1 H2 H3). Qed.
Theorem C05_monotone_final s0 sched t rec s' obs : run_ok s0 sched ->
  let s := mrun s0 sched in
  micro s t rec = Some (s', obs) -> bounded s' ->
  forall o ob ob', geto s o = Some ob -> geto s' o = Some ob' -> destructed (word ob) = true -> destructed (word ob') = true.
Proof. intros H. destruct (run_ok_hyps _ _ H) as (H1 & H2 & H3). exact (C05_monotone s0 sched t rec s' obs H1 H2 H3). Qed.
Theorem C05_upgrade_final s0 sched t rec s' obs x o c k : run_ok s0 sched ->
  let s := mrun s0 sched in
  gett s t = Some x -> (frames x = FIncS100 o c :: k \/ frames x = FIncS101 o c :: k) ->
  micro s t rec = Some (s', obs) ->
  forall ob x', geto s o = Some ob -> gett s' t = Some x' ->
    (frames x' = FRet c false :: k <-> destructed (word ob) = true) /\
    (0 < owners s o -> frames x = FIncS100 o c :: k -> frames x' = FRet c true :: k).
Proof. intros H. destruct (run_ok_hyps _ _ H) as (H1 & H2 & H3). exact (C05_upgrade s0 sched t rec s' obs x o c k H1 H2 H3). Qed.
Theorem C10_final s0 sched : run_ok s0 sched ->
  let s := mrun s0 sched in
  forall o ob, geto s o = Some ob -> destructed (word ob) = false ->
    strong (word ob) = owners s o + b2z (tok ob) /\ (owners s o = 0 -> tok ob = false -> attempts s o = 1).
Proof. intros H. destruct (run_ok_hyps _ _ H) as (H1 & H2 & H3). exact (C10 s0 sched H1 H2 H3). Qed.
Print Assumptions C01_final.
Print Assumptions C10_final.
