(* M7: the atomic cells AtomicRc (src/strong.rs, impl AtomicRc) and AtomicWeak (src/weak.rs,
   impl AtomicWeak) at one-shared-access granularity.  Executable Gallina; depends only on the Coq
   standard library and the GENERATED Gen/Params.v, Gen/TaggedW.v (image of ebr_impl/pointers.rs).

   One cell word (a Z: address | user tag in the 3 low bits | 4-bit timestamp in bits 60..63),
   k = 3 (8-aligned objects; object id i lives at address 8*i, 0 = null).
   The cell kind is a parameter: strong = AtomicRc (store/swap/CAS-desired are stamped with the
   global epoch E through `Tagged::with_timestamp`), weak = AtomicWeak (stores the word it is given).
   Every thread owns variables: `t_hv` = owned handle words (Rc / Weak), `t_sv` = non-owning
   snapshot words (Snapshot / WeakSnapshot).  A consumed handle variable becomes the null handle. *)
From Coq Require Import ZArith List Bool.
Import ListNotations.
Require Import Params TaggedW.
Local Open Scope Z_scope.
Local Open Scope bool_scope.

Definition K : Z := 3.

(* ---- programs *)
Inductive op : Type :=
| Load (d : nat)                    (* sv[d] := cell.load(g) *)
| Store (h : nat)                   (* cell.store(take hv[h], g) *)
| Swap (h : nat)                    (* hv[h] := cell.swap(take hv[h]) *)
| Cas (e h d : nat)                 (* cell.compare_exchange(sv[e], take hv[h]): Ok rc -> hv[h] := rc;
                                       Err -> hv[h] := desired, sv[d] := current *)
| CasWeak (e h d : nat)             (* compare_exchange_weak, same results (no spurious failure on x86) *)
| CasTag (e : nat) (tag : Z) (d : nat)  (* cell.compare_exchange_tag(sv[e], tag): sv[d] := Ok value / Err current *)
| SnapOf (h e : nat)                (* sv[e] := hv[h].snapshot(g)      (thread local) *)
| STag (e : nat) (tag : Z)          (* sv[e] := sv[e].with_tag(tag)    (thread local) *)
| HTag (h : nat) (tag : Z).         (* hv[h] := hv[h].with_tag(tag)    (thread local) *)

(* one constructor per yield site *)
Inductive pc : Type :=
| PStart                            (* spawned, not yet released: the "thread start" step *)
| POp                               (* at site 1, before operation t_ip (or before the end marker) *)
| PLoad                             (* at site 121 / 124, before link.load *)
| PSwap                             (* at site 122 / 125, before link.swap *)
| PCas (orig exp des : Z)           (* at site 123 / 126, before link.compare_exchange(exp, des);
                                       orig = the `expected` argument of the operation (ghost) *)
| PDone.

Record thread : Type := mkThread {
  t_pc : pc; t_ip : nat; t_hv : list Z; t_sv : list Z; t_prog : list op }.

Record state : Type := mkState {
  strong : bool;        (* cell kind: true = AtomicRc, false = AtomicWeak *)
  ep : Z;               (* global epoch during the case (constant: every thread stays pinned) *)
  cell : Z;             (* the link word *)
  threads : list thread }.

(* ---- word level *)
(* Tagged::with_timestamp (strong.rs:75) for AtomicRc; AtomicWeak stores the word unchanged *)
Definition stamp (k : bool) (E w : Z) : Z :=
  if k then (if t_is_null K w then w else t_with_high_tag K w E) else w.

Definition site_load (k : bool) : Z := if k then 121 else 124.
Definition site_swap (k : bool) : Z := if k then 122 else 125.
Definition site_cas (k : bool) : Z := if k then 123 else 126.

Fixpoint upd {A : Type} (l : list A) (i : nat) (x : A) : list A :=
  match l, i with
  | [], _ => []
  | _ :: r, O => x :: r
  | y :: r, S j => y :: upd r j x
  end.

Definition hget (th : thread) (i : nat) : Z := nth i (t_hv th) 0.
Definition sget (th : thread) (i : nat) : Z := nth i (t_sv th) 0.
Definition hin (th : thread) (i : nat) : bool := Nat.ltb i (length (t_hv th)).
Definition sin (th : thread) (i : nat) : bool := Nat.ltb i (length (t_sv th)).

(* variable indices of an operation exist *)
Definition op_ok (th : thread) (o : op) : bool :=
  match o with
  | Load d => sin th d
  | Store h | Swap h => hin th h
  | Cas e h d | CasWeak e h d => sin th e && hin th h && sin th d
  | CasTag e _ d => sin th e && sin th d
  | SnapOf h e => hin th h && sin th e
  | STag e _ => sin th e
  | HTag h _ => hin th h
  end.

Definition set_pc (th : thread) (p : pc) : thread :=
  mkThread p (t_ip th) (t_hv th) (t_sv th) (t_prog th).
(* the operation returned: the thread runs on to site 1 of the next operation *)
Definition ret (th : thread) (hv sv : list Z) : thread :=
  mkThread POp (S (t_ip th)) hv sv (t_prog th).

(* One step of one thread against the cell word c: new cell word, new thread, observations
   (flat triples site a b; the link address is canonicalised to 0). *)
Definition tstep (k : bool) (E c : Z) (th : thread) : option (Z * thread * list Z) :=
  match t_pc th with
  | PStart => Some (c, set_pc th POp, [])
  | PDone => None
  | POp =>
      match nth_error (t_prog th) (t_ip th) with
      | None => Some (c, set_pc th PDone, [1; 9; 0])
      | Some o =>
          if negb (op_ok th o) then None else
          match o with
          | Load d => Some (c, set_pc th PLoad, [1; 0; Z.of_nat d])
          | Store h => Some (c, set_pc th PSwap, [1; 1; Z.of_nat h])
          | Swap h => Some (c, set_pc th PSwap, [1; 2; Z.of_nat h])
          | Cas e h d =>
              Some (c, set_pc th (PCas (sget th e) (sget th e) (stamp k E (hget th h))), [1; 3; Z.of_nat e])
          | CasWeak e h d =>
              Some (c, set_pc th (PCas (sget th e) (sget th e) (stamp k E (hget th h))), [1; 4; Z.of_nat e])
          | CasTag e tag d =>
              Some (c, set_pc th (PCas (sget th e) (sget th e) (stamp k E (t_with_tag K (sget th e) tag))),
                    [1; 5; Z.of_nat e])
          | SnapOf h e =>
              let w := hget th h in
              Some (c, ret th (t_hv th) (upd (t_sv th) e w), [1; 6; Z.of_nat h; 2000; 6; w])
          | STag e tag =>
              let w := t_with_tag K (sget th e) tag in
              Some (c, ret th (t_hv th) (upd (t_sv th) e w), [1; 7; Z.of_nat e; 2000; 7; w])
          | HTag h tag =>
              let w := t_with_tag K (hget th h) tag in
              Some (c, ret th (upd (t_hv th) h w) (t_sv th), [1; 8; Z.of_nat h; 2000; 8; w])
          end
      end
  | PLoad =>
      match nth_error (t_prog th) (t_ip th) with
      | Some (Load d) =>
          if negb (sin th d) then None else
          Some (c, ret th (t_hv th) (upd (t_sv th) d c), [site_load k; 0; 0; 2000; 0; c])
      | _ => None
      end
  | PSwap =>
      match nth_error (t_prog th) (t_ip th) with
      | Some (Store h) =>
          if negb (hin th h) then None else
          let w := hget th h in
          (* the old content is released inside this step (count sites 110..112 are masked) *)
          Some (stamp k E w, ret th (upd (t_hv th) h 0) (t_sv th),
                [site_swap k; 0; w; site_swap k + 900; 0; c; 2000; 1; 0])
      | Some (Swap h) =>
          if negb (hin th h) then None else
          let w := hget th h in
          Some (stamp k E w, ret th (upd (t_hv th) h c) (t_sv th),
                [site_swap k; 0; w; site_swap k + 900; 0; c; 2000; 2; c])
      | _ => None
      end
  | PCas orig ex des =>
      match nth_error (t_prog th) (t_ip th) with
      | Some (Cas e h d) | Some (CasWeak e h d) =>
          if negb (sin th e && hin th h && sin th d) then None else
          if c =? ex then
            (* hardware CAS succeeded: desired consumed, previous content returned as an owner *)
            Some (des, ret th (upd (t_hv th) h ex) (t_sv th), [site_cas k; 0; ex; 2001; 1; ex])
          else if t_ptr_eq K c ex then
            (* only the timestamp differs: retry with the word actually stored *)
            Some (c, set_pc th (PCas orig c des), [site_cas k; 0; ex])
          else
            Some (c, ret th (t_hv th) (upd (t_sv th) d c),
                  [site_cas k; 0; ex; 2001; 0; c; 2002; 0; hget th h])
      | Some (CasTag e tag d) =>
          if negb (sin th e && sin th d) then None else
          if c =? ex then
            Some (des, ret th (t_hv th) (upd (t_sv th) d c), [site_cas k; 0; ex; 2001; 1; c])
          else if t_ptr_eq K c ex then
            Some (c, set_pc th (PCas orig c des), [site_cas k; 0; ex])
          else
            Some (c, ret th (t_hv th) (upd (t_sv th) d c),
                  [site_cas k; 0; ex; 2001; 0; c; 2002; 0; des])
      | _ => None
      end
  end.

Definition step (s : state) (t : nat) : option (state * list Z) :=
  match nth_error (threads s) t with
  | None => None
  | Some th =>
      match tstep (strong s) (ep s) (cell s) th with
      | None => None
      | Some (c', th', obs) => Some (mkState (strong s) (ep s) c' (upd (threads s) t th'), obs)
      end
  end.

(* ---- ghost ownership: owned handle words with address o held in thread variables, plus the cell *)
Definition own1 (o w : Z) : Z := if t_as_raw K w =? o then 1 else 0.
Fixpoint hcount (o : Z) (l : list Z) : Z :=
  match l with [] => 0 | w :: r => own1 o w + hcount o r end.
Fixpoint tcount (o : Z) (l : list thread) : Z :=
  match l with [] => 0 | th :: r => hcount o (t_hv th) + tcount o r end.
Definition owners (s : state) (o : Z) : Z := own1 o (cell s) + tcount o (threads s).

(* ---- abstract specification: a sequential cell holding (address, tag) and an owner count per
        address.  Values are (address, tag) pairs. *)
Definition aval : Type := (Z * Z)%type.
Definition abs_word (w : Z) : aval := (t_as_raw K w, t_tag K w).
Definition aval_eqb (x y : aval) : bool := (fst x =? fst y) && (snd x =? snd y).

Inductive aop : Type :=
| ALoad
| AStore (v : aval)
| ASwap (v : aval)
| ACas (expected desired : aval)
| ACasTag (expected : aval) (tag : Z).

Inductive ares : Type :=
| RVal (v : aval)        (* load: current content (non-owning) *)
| RUnit                  (* store *)
| ROld (v : aval)        (* swap: previous content, as an owner *)
| ROk (v : aval)         (* CAS success: previous content (owner for Cas, non-owning for CasTag) *)
| RErr (v : aval).       (* CAS failure: current content (non-owning); desired goes back to the caller *)

(* sequential semantics: new cell content and the result *)
Definition spec (c : aval) (o : aop) : aval * ares :=
  match o with
  | ALoad => (c, RVal c)
  | AStore v => (v, RUnit)
  | ASwap v => (v, ROld c)
  | ACas e d => if aval_eqb c e then (d, ROk c) else (c, RErr c)
  | ACasTag e tag => if aval_eqb c e then ((fst c, tag mod 2 ^ K), ROk c) else (c, RErr c)
  end.

(* change of the number of owners of address o caused by an abstract operation with its result:
   only `store` releases an owner (the previous content); everything else moves owners around *)
Definition spec_owner_delta (c : aval) (o : aop) (a : Z) : Z :=
  match o with
  | AStore _ => if fst c =? a then -1 else 0
  | _ => 0
  end.

(* ---- linearisation points.  lin s t = the abstract operation (with its result) that takes effect
        in the step of thread t from state s; None = no linearisation point in this step. *)
Definition tlin (c : Z) (th : thread) : option (aop * ares) :=
  match t_pc th with
  | PLoad => Some (ALoad, RVal (abs_word c))
  | PSwap =>
      match nth_error (t_prog th) (t_ip th) with
      | Some (Store h) => Some (AStore (abs_word (hget th h)), RUnit)
      | Some (Swap h) => Some (ASwap (abs_word (hget th h)), ROld (abs_word c))
      | _ => None
      end
  | PCas orig ex des =>
      let res := if c =? ex then Some (ROk (abs_word c))
                 else if t_ptr_eq K c ex then None else Some (RErr (abs_word c)) in
      match res with
      | None => None
      | Some r =>
          match nth_error (t_prog th) (t_ip th) with
          | Some (Cas e h d) | Some (CasWeak e h d) => Some (ACas (abs_word orig) (abs_word (hget th h)), r)
          | Some (CasTag e tag d) => Some (ACasTag (abs_word orig) tag, r)
          | _ => None
          end
      end
  | _ => None
  end.

Definition lin (s : state) (t : nat) : option (aop * ares) :=
  match nth_error (threads s) t with
  | None => None
  | Some th => tlin (cell s) th
  end.

(* ---- decoding of case lines *)
Definition mkw (id tag ts : Z) : Z :=
  t_with_high_tag K (t_with_tag K (8 * (id mod 2 ^ 57)) tag) (ts mod 16).

Fixpoint segs (l : list Z) : list Z * list (list Z) :=
  match l with
  | [] => ([], [])
  | x :: r => let (a, b) := segs r in if x =? -1 then ([], a :: b) else (x :: a, b)
  end.

Fixpoint take_words (n : nat) (l : list Z) : list Z * list Z :=
  match n with
  | O => ([], l)
  | S m =>
      match l with
      | id :: tag :: ts :: r => let (ws, r') := take_words m r in (mkw id tag ts :: ws, r')
      | _ => ([], [])
      end
  end.

Definition N (z : Z) : nat := Z.to_nat z.

Fixpoint parse_ops (l : list Z) : list op :=
  match l with
  | [] => []
  | c :: r =>
      match r with
      | [] => []
      | x :: r1 =>
          if c =? 0 then Load (N x) :: parse_ops r1
          else if c =? 1 then Store (N x) :: parse_ops r1
          else if c =? 2 then Swap (N x) :: parse_ops r1
          else
          match r1 with
          | [] => []
          | y :: r2 =>
              if c =? 6 then SnapOf (N x) (N y) :: parse_ops r2
              else if c =? 7 then STag (N x) y :: parse_ops r2
              else if c =? 8 then HTag (N x) y :: parse_ops r2
              else
              match r2 with
              | [] => []
              | z :: r3 =>
                  if c =? 3 then Cas (N x) (N y) (N z) :: parse_ops r3
                  else if c =? 4 then CasWeak (N x) (N y) (N z) :: parse_ops r3
                  else if c =? 5 then CasTag (N x) y (N z) :: parse_ops r3
                  else []
              end
          end
      end
  end.

(* thread segment: nh ns (id tag ts)*nh (id tag ts)*ns ops.. *)
Definition parse_thread (l : list Z) : thread :=
  match l with
  | nh :: ns :: r =>
      let (hv, r1) := take_words (N nh) r in
      let (sv, r2) := take_words (N ns) r1 in
      mkThread PStart O hv sv (parse_ops r2)
  | _ => mkThread PStart O [] [] []
  end.

(* header: kind (0 strong / 1 weak)  E  cell-id cell-tag cell-ts *)
Definition init (prog : list Z) : state :=
  let (hd, ths) := segs prog in
  match hd with
  | k :: E :: id :: tag :: ts :: _ => mkState (k =? 0) (Z.abs E) (mkw id tag ts) (map parse_thread ths)
  | _ => mkState true 0 0 (map parse_thread ths)
  end.

Fixpoint run (s : state) (sched : list Z) : list (list Z) :=
  match sched with
  | [] => []
  | t :: r =>
      match step s (N t) with
      | None => [-999] :: run s r
      | Some (s', o) => o :: run s' r
      end
  end.

Definition replay (prog sched : list Z) : list (list Z) := run (init prog) sched.

(* comparison helpers for the correspondence checks *)
Fixpoint zl_eqb (a b : list Z) : bool :=
  match a, b with
  | [], [] => true
  | x :: a', y :: b' => (x =? y) && zl_eqb a' b'
  | _, _ => false
  end.
Fixpoint zll_eqb (a b : list (list Z)) : bool :=
  match a, b with
  | [], [] => true
  | x :: a', y :: b' => zl_eqb x y && zll_eqb a' b'
  | _, _ => false
  end.
Definition check_case (c : list Z * list Z * list (list Z)) : bool :=
  let '(p, s, e) := c in zll_eqb (replay p s) e.
Fixpoint bad_cases (i : Z) (cs : list (list Z * list Z * list (list Z))) : list Z :=
  match cs with
  | [] => []
  | c :: r => if check_case c then bad_cases (i + 1) r else i :: bad_cases (i + 1) r
  end.
