(* RegListP.v -- proofs about the list model of RegList.v.
   See NOTES.md for an overview.  No axioms, no admits. *)
From Coq Require Import ZArith List Bool Lia Arith.
Require Import RegList.
Import ListNotations.
Open Scope Z_scope.

(* ================================================================== *)
(** * 1. Heap and thread-list lemmas *)

Lemma nth_upd_nth {A} (l : list A) (m k : nat) (f : A -> A) (d : A) :
  nth k (upd_nth l m f) d =
  if (Nat.eqb k m && Nat.ltb m (length l))%bool then f (nth m l d) else nth k l d.
Proof.
  revert m k. induction l as [|x r IH]; intros m k.
  - cbn [upd_nth length]. rewrite andb_false_r. reflexivity.
  - destruct m as [|m]; destruct k as [|k]; cbn [upd_nth nth length Nat.eqb andb]; try reflexivity.
    rewrite IH. change (Nat.ltb (S m) (S (length r))) with (Nat.ltb m (length r)). reflexivity.
Qed.

Lemma length_upd_nth {A} (l : list A) (m : nat) (f : A -> A) :
  length (upd_nth l m f) = length l.
Proof.
  revert m. induction l as [|x r IH]; intros [|m]; cbn [upd_nth length]; try reflexivity.
  rewrite IH. reflexivity.
Qed.

Lemma nth_error_upd_nth {A} (l : list A) (m k : nat) (f : A -> A) :
  nth_error (upd_nth l m f) k =
  if Nat.eqb k m then option_map f (nth_error l m) else nth_error l k.
Proof.
  revert m k. induction l as [|x r IH]; intros m k.
  - cbn [upd_nth]. destruct (Nat.eqb k m); destruct k, m; reflexivity.
  - destruct m as [|m]; destruct k as [|k]; cbn [upd_nth nth_error Nat.eqb option_map]; try reflexivity.
    apply IH.
Qed.

Lemma length_upd h i f : length (upd h i f) = length h.
Proof. unfold upd. destruct (i <=? 0); [reflexivity|apply length_upd_nth]. Qed.

Definition inrange (h : list entry) (i : Z) : bool :=
  (1 <=? i) && (i <=? Z.of_nat (length h)).

Lemma get_upd h i f j :
  get (upd h i f) j = if (j =? i) && inrange h i then f (get h i) else get h j.
Proof.
  unfold get, upd, inrange.
  destruct (Z.leb_spec i 0) as [Hi|Hi].
  - replace (1 <=? i) with false by (symmetry; apply Z.leb_gt; lia).
    rewrite andb_false_r. reflexivity.
  - destruct (Z.leb_spec j 0) as [Hj|Hj].
    + replace (j =? i) with false by (symmetry; apply Z.eqb_neq; lia). reflexivity.
    + rewrite nth_upd_nth.
      replace (1 <=? i) with true by (symmetry; apply Z.leb_le; lia).
      cbn [andb].
      replace (Nat.eqb (Z.to_nat (j - 1)) (Z.to_nat (i - 1))) with (j =? i).
      2:{ destruct (Z.eqb_spec j i) as [E|E].
          - subst. symmetry. apply Nat.eqb_refl.
          - symmetry. apply Nat.eqb_neq. lia. }
      replace (Nat.ltb (Z.to_nat (i - 1)) (length h)) with (i <=? Z.of_nat (length h)).
      2:{ destruct (Z.leb_spec i (Z.of_nat (length h))) as [E|E].
          - symmetry. apply Nat.ltb_lt. lia.
          - symmetry. apply Nat.ltb_ge. lia. }
      reflexivity.
Qed.

Lemma get_app h x j :
  get (h ++ [x]) j = if j =? Z.of_nat (length h) + 1 then x else get h j.
Proof.
  unfold get. destruct (Z.leb_spec j 0) as [Hj|Hj].
  - replace (j =? Z.of_nat (length h) + 1) with false by (symmetry; apply Z.eqb_neq; lia).
    reflexivity.
  - destruct (Z.eqb_spec j (Z.of_nat (length h) + 1)) as [E|E].
    + rewrite app_nth2 by lia.
      replace (Z.to_nat (j - 1) - length h)%nat with O by lia. reflexivity.
    + destruct (Z_lt_le_dec j (Z.of_nat (length h) + 1)) as [L|L].
      * rewrite app_nth1 by lia. reflexivity.
      * rewrite !nth_overflow; [reflexivity|lia|rewrite app_length; cbn [length]; lia].
Qed.

Lemma uid_upd_next h i x j : uid (get (upd h i (set_next x)) j) = uid (get h j).
Proof.
  rewrite get_upd. destruct ((j =? i) && inrange h i) eqn:E; [|reflexivity].
  apply andb_prop in E. destruct E as [E _]. apply Z.eqb_eq in E. subst. reflexivity.
Qed.

Lemma mark_upd_next h i x j : mark (get (upd h i (set_next x)) j) = mark (get h j).
Proof.
  rewrite get_upd. destruct ((j =? i) && inrange h i) eqn:E; [|reflexivity].
  apply andb_prop in E. destruct E as [E _]. apply Z.eqb_eq in E. subst. reflexivity.
Qed.

Lemma next_upd_next_other h i x j : j <> i -> next (get (upd h i (set_next x)) j) = next (get h j).
Proof.
  intros Hne. rewrite get_upd.
  replace (j =? i) with false by (symmetry; apply Z.eqb_neq; exact Hne). reflexivity.
Qed.

Lemma next_upd_next_same h i x :
  1 <= i <= Z.of_nat (length h) -> next (get (upd h i (set_next x)) i) = x.
Proof.
  intros Hr. rewrite get_upd. rewrite Z.eqb_refl. unfold inrange.
  replace (1 <=? i) with true by (symmetry; apply Z.leb_le; lia).
  replace (i <=? Z.of_nat (length h)) with true by (symmetry; apply Z.leb_le; lia).
  reflexivity.
Qed.

Lemma uid_upd_mark h i j : uid (get (upd h i set_mark) j) = uid (get h j).
Proof.
  rewrite get_upd. destruct ((j =? i) && inrange h i) eqn:E; [|reflexivity].
  apply andb_prop in E. destruct E as [E _]. apply Z.eqb_eq in E. subst. reflexivity.
Qed.

Lemma next_upd_mark h i j : next (get (upd h i set_mark) j) = next (get h j).
Proof.
  rewrite get_upd. destruct ((j =? i) && inrange h i) eqn:E; [|reflexivity].
  apply andb_prop in E. destruct E as [E _]. apply Z.eqb_eq in E. subst. reflexivity.
Qed.

Lemma mark_upd_mark_mono h i j :
  mark (get h j) = true -> mark (get (upd h i set_mark) j) = true.
Proof.
  intros Hm. rewrite get_upd. destruct ((j =? i) && inrange h i) eqn:E; [reflexivity|exact Hm].
Qed.

Lemma mark_upd_mark_other h i j :
  j <> i -> mark (get (upd h i set_mark) j) = mark (get h j).
Proof.
  intros Hne. rewrite get_upd.
  replace (j =? i) with false by (symmetry; apply Z.eqb_neq; exact Hne). reflexivity.
Qed.

Lemma mark_upd_mark_same h i :
  1 <= i <= Z.of_nat (length h) -> mark (get (upd h i set_mark) i) = true.
Proof.
  intros Hr. rewrite get_upd. rewrite Z.eqb_refl. unfold inrange.
  replace (1 <=? i) with true by (symmetry; apply Z.leb_le; lia).
  replace (i <=? Z.of_nat (length h)) with true by (symmetry; apply Z.leb_le; lia).
  reflexivity.
Qed.

Lemma get_app_old h x j : j <> Z.of_nat (length h) + 1 -> get (h ++ [x]) j = get h j.
Proof.
  intros Hne. rewrite get_app.
  replace (j =? Z.of_nat (length h) + 1) with false by (symmetry; apply Z.eqb_neq; exact Hne).
  reflexivity.
Qed.

(* ================================================================== *)
(** * 2. Ghost state and the global (shared-state) invariant *)

Record ghost := mkG {
  stamp : Z -> nat;      (* insertion order: 0 = not inserted; k = the k-th successful CAS at site 51 *)
  nins : nat;            (* number of successful inserts so far *)
  unl : Z -> bool;       (* the entry has been unlinked by a successful CAS at site 55 *)
  snap : nat -> nat;     (* per thread: [nins] when its current traversal executed site 53 *)
  accE : nat -> list Z   (* per thread: the entries reported so far by its current traversal *)
}.

(* the word a [pred] register designates: the head (pred = 0) or an entry's next *)
Definition pv (h : list entry) (hd P : Z) : Z := if P =? 0 then hd else next (get h P).
(* its stamp; the head is newer than every entry *)
Definition pst (st : Z -> nat) (n : nat) (P : Z) : nat := if P =? 0 then S n else st P.

Definition chain_at (h : list entry) (hd : Z) (st : Z -> nat) (n : nat) (u : Z -> bool) (P : Z) : Prop :=
  (pv h hd P = 0 \/ (st (pv h hd P) > 0)%nat) /\
  (st (pv h hd P) < pst st n P)%nat /\
  (forall x, (st (pv h hd P) < st x < pst st n P)%nat -> u x = true) /\
  ((P = 0 \/ u P = false) -> u (pv h hd P) = false).

Record GInv (h : list entry) (hd fr : Z) (st : Z -> nat) (n : nat) (u : Z -> bool) : Prop := mkGInv {
  G_fresh : fr = Z.of_nat (length h) + 1;
  G_le : forall x, (st x <= n)%nat;
  G_inj : forall x y, st x = st y -> (st x > 0)%nat -> x = y;
  G_valid : forall x, (st x > 0)%nat -> 1 <= x < fr;
  G_unl : forall x, u x = true -> (st x > 0)%nat /\ mark (get h x) = true;
  G_chain : forall P, P = 0 \/ (st P > 0)%nat -> chain_at h hd st n u P
}.

Lemma G_st0 h hd fr st n u : GInv h hd fr st n u -> st 0 = 0%nat.
Proof.
  intros G. destruct (st 0) as [|k] eqn:E; [reflexivity|].
  assert (Hk : (st 0%Z > 0)%nat) by lia. apply (G_valid _ _ _ _ _ _ G) in Hk. lia.
Qed.

Lemma G_unl_false h hd fr st n u x : GInv h hd fr st n u -> st x = 0%nat -> u x = false.
Proof.
  intros G Hx. destruct (u x) eqn:E; [|reflexivity].
  apply (G_unl _ _ _ _ _ _ G) in E. lia.
Qed.

Lemma G_unmarked_live h hd fr st n u x :
  GInv h hd fr st n u -> mark (get h x) = false -> u x = false.
Proof.
  intros G Hx. destruct (u x) eqn:E; [|reflexivity].
  apply (G_unl _ _ _ _ _ _ G) in E. destruct E as [_ E]. congruence.
Qed.

(* transitions that neither touch the head, the stamps, nor the next field of
   an inserted entry: private stores, allocation, marking *)
Lemma GInv_frame h hd fr st n u h' fr' :
  GInv h hd fr st n u ->
  fr' = Z.of_nat (length h') + 1 -> fr <= fr' ->
  (forall x, (st x > 0)%nat -> next (get h' x) = next (get h x)) ->
  (forall x, mark (get h x) = true -> mark (get h' x) = true) ->
  GInv h' hd fr' st n u.
Proof.
  intros G Hf Hle Hnx Hmk.
  assert (Hpv : forall P, P = 0 \/ (st P > 0)%nat -> pv h' hd P = pv h hd P).
  { intros P HP. unfold pv. destruct (Z.eqb_spec P 0) as [E|E]; [reflexivity|].
    destruct HP as [HP|HP]; [contradiction|]. apply Hnx. exact HP. }
  destruct G as [Gf Gle Ginj Gval Gunl Gch].
  split.
  - exact Hf.
  - exact Gle.
  - exact Ginj.
  - intros x Hx. apply Gval in Hx. lia.
  - intros x Hx. destruct (Gunl x Hx) as [A B]. split; [exact A|apply Hmk; exact B].
  - intros P HP. unfold chain_at. rewrite (Hpv P HP). apply Gch. exact HP.
Qed.

Definition st_ins (st : Z -> nat) (n : nat) (e : Z) : Z -> nat :=
  fun x => if x =? e then S n else st x.

Lemma st_ins_same st n e : st_ins st n e e = S n.
Proof. unfold st_ins. rewrite Z.eqb_refl. reflexivity. Qed.

Lemma st_ins_other st n e x : x <> e -> st_ins st n e x = st x.
Proof.
  intros H. unfold st_ins. destruct (Z.eqb_spec x e); [contradiction|reflexivity].
Qed.

(* successful CAS at site 51 *)
Lemma GInv_insert h hd fr st n u e :
  GInv h hd fr st n u -> st e = 0%nat -> 1 <= e < fr -> next (get h e) = hd ->
  GInv h e fr (st_ins st n e) (S n) u.
Proof.
  intros G He Hv Hn.
  pose proof (G_st0 _ _ _ _ _ _ G) as H0.
  pose proof (G_unl_false _ _ _ _ _ _ e G He) as Hue.
  destruct G as [Gf Gle Ginj Gval Gunl Gch].
  assert (Hle' : forall x, (st_ins st n e x <= S n)%nat).
  { intros x. unfold st_ins. destruct (x =? e); [lia|]. specialize (Gle x). lia. }
  split.
  - exact Gf.
  - exact Hle'.
  - intros x y. unfold st_ins.
    destruct (Z.eqb_spec x e) as [Ex|Ex]; destruct (Z.eqb_spec y e) as [Ey|Ey]; intros E1 E2.
    + congruence.
    + specialize (Gle y). lia.
    + specialize (Gle x). lia.
    + apply Ginj; assumption.
  - intros x. unfold st_ins.
    destruct (Z.eqb_spec x e) as [Ex|Ex]; intros E; [subst; exact Hv | apply Gval; exact E].
  - intros x Hx. destruct (Gunl x Hx) as [A B]. split; [|exact B].
    unfold st_ins. destruct (Z.eqb_spec x e) as [Ex|Ex]; [lia|exact A].
  - intros P HP. unfold chain_at.
    destruct (Z.eqb_spec P 0) as [EP|EP].
    + subst P. change (pv h e 0) with e. change (pst (st_ins st n e) (S n) 0) with (S (S n)).
      rewrite st_ins_same. repeat split.
      * right. lia.
      * lia.
      * intros x Hx. specialize (Hle' x). lia.
      * intros _. exact Hue.
    + assert (Hpv : pv h e P = next (get h P)).
      { unfold pv. destruct (Z.eqb_spec P 0); [contradiction|reflexivity]. }
      assert (Hpst : forall s' n', pst s' n' P = s' P).
      { intros s' n'. unfold pst. destruct (Z.eqb_spec P 0); [contradiction|reflexivity]. }
      rewrite Hpv, Hpst.
      destruct (Z.eq_dec P e) as [EPe|EPe].
      * subst P. rewrite Hn. rewrite st_ins_same.
        specialize (Gch 0 (or_introl eq_refl)). unfold chain_at in Gch.
        change (pv h hd 0) with hd in Gch. change (pst st n 0) with (S n) in Gch.
        destruct Gch as [C1 [C2 [C3 C4]]].
        assert (Hhd : hd <> e).
        { intros E. rewrite E in C1. destruct C1 as [C1|C1]; lia. }
        rewrite (st_ins_other _ _ _ _ Hhd).
        repeat split.
        -- exact C1.
        -- exact C2.
        -- intros x Hx. destruct (Z.eq_dec x e) as [Exe|Exe].
           ++ subst x. rewrite st_ins_same in Hx. lia.
           ++ rewrite (st_ins_other _ _ _ _ Exe) in Hx. apply C3. exact Hx.
        -- intros _. apply C4. left. reflexivity.
      * rewrite (st_ins_other _ _ _ _ EPe).
        assert (HP' : P = 0 \/ (st P > 0)%nat).
        { destruct HP as [HP|HP]; [left; exact HP|right].
          rewrite (st_ins_other _ _ _ _ EPe) in HP. exact HP. }
        specialize (Gch P HP'). unfold chain_at in Gch.
        unfold pv in Gch. destruct (Z.eqb_spec P 0) as [|_]; [contradiction|].
        unfold pst in Gch. destruct (Z.eqb_spec P 0) as [|_]; [contradiction|].
        destruct Gch as [C1 [C2 [C3 C4]]].
        assert (Hne : next (get h P) <> e).
        { intros E. rewrite E in C1. destruct C1 as [C1|C1]; lia. }
        rewrite (st_ins_other _ _ _ _ Hne).
        repeat split.
        -- exact C1.
        -- exact C2.
        -- intros x Hx. destruct (Z.eq_dec x e) as [Exe|Exe].
           ++ subst x. rewrite st_ins_same in Hx. specialize (Gle P). lia.
           ++ rewrite (st_ins_other _ _ _ _ Exe) in Hx. apply C3. exact Hx.
        -- exact C4.
Qed.

Lemma pst_nz st n P : P <> 0 -> pst st n P = st P.
Proof. intros H. unfold pst. destruct (Z.eqb_spec P 0); [contradiction|reflexivity]. Qed.

Lemma pv_nz h hd P : P <> 0 -> pv h hd P = next (get h P).
Proof. intros H. unfold pv. destruct (Z.eqb_spec P 0); [contradiction|reflexivity]. Qed.

Definition u_set (u : Z -> bool) (c : Z) : Z -> bool := fun x => if x =? c then true else u x.

Lemma u_set_same u c : u_set u c c = true.
Proof. unfold u_set. rewrite Z.eqb_refl. reflexivity. Qed.

Lemma u_set_other u c x : x <> c -> u_set u c x = u x.
Proof. intros H. unfold u_set. destruct (Z.eqb_spec x c); [contradiction|reflexivity]. Qed.

Lemma u_set_mono u c x : u x = true -> u_set u c x = true.
Proof. intros H. unfold u_set. destruct (x =? c); [reflexivity|exact H]. Qed.

(* successful CAS at site 55 *)
Lemma GInv_unlink h hd fr st n u pred c :
  GInv h hd fr st n u ->
  (pred = 0 \/ (st pred > 0)%nat) ->
  pv h hd pred = c ->
  (pred <> 0 -> mark (get h pred) = false) ->
  (st c > 0)%nat -> mark (get h c) = true ->
  GInv (if pred =? 0 then h else upd h pred (set_next (next (get h c))))
       (if pred =? 0 then next (get h c) else hd) fr st n (u_set u c).
Proof.
  intros G Hpred Hpv Hpm Hc Hcm.
  pose proof (G_st0 _ _ _ _ _ _ G) as H0.
  assert (Hlive : pred = 0 \/ u pred = false).
  { destruct (Z.eq_dec pred 0) as [E|E]; [left; exact E|right].
    eapply G_unmarked_live; [exact G|]. apply Hpm. exact E. }
  assert (Hc0 : c <> 0). { intros E. rewrite E in Hc. lia. }
  pose proof (G_chain _ _ _ _ _ _ G pred Hpred) as Cp. unfold chain_at in Cp.
  rewrite Hpv in Cp. destruct Cp as [_ [Cp2 [Cp3 Cp4]]].
  specialize (Cp4 Hlive).
  pose proof (G_chain _ _ _ _ _ _ G c (or_intror Hc)) as Cc. unfold chain_at in Cc.
  rewrite (pv_nz _ _ _ Hc0) in Cc. rewrite (pst_nz _ _ _ Hc0) in Cc.
  destruct Cc as [Cc1 [Cc2 [Cc3 Cc4]]].
  specialize (Cc4 (or_intror Cp4)).
  set (succ := next (get h c)) in *.
  set (h' := if pred =? 0 then h else upd h pred (set_next succ)).
  set (hd' := if pred =? 0 then succ else hd).
  assert (Hcp : c <> pred).
  { intros E. subst pred. rewrite (pst_nz _ _ _ Hc0) in Cp2. lia. }
  assert (Hlen : length h' = length h).
  { unfold h'. destruct (pred =? 0); [reflexivity|apply length_upd]. }
  assert (Hmk : forall x, mark (get h' x) = mark (get h x)).
  { intros x. unfold h'. destruct (pred =? 0); [reflexivity|apply mark_upd_next]. }
  assert (Hpv_pred : pv h' hd' pred = succ).
  { unfold pv, h', hd'. destruct (Z.eqb_spec pred 0) as [E|E]; [reflexivity|].
    apply next_upd_next_same.
    destruct Hpred as [Hp|Hp]; [contradiction|].
    apply (G_valid _ _ _ _ _ _ G) in Hp. rewrite (G_fresh _ _ _ _ _ _ G) in Hp. lia. }
  assert (Hpv_other : forall P, P <> pred -> pv h' hd' P = pv h hd P).
  { intros P HP. unfold pv, h', hd'.
    destruct (Z.eqb_spec P 0) as [E|E]; destruct (Z.eqb_spec pred 0) as [E'|E']; try reflexivity.
    - congruence.
    - apply next_upd_next_other. exact HP. }
  assert (Hsc : succ <> c). { intros E. rewrite E in Cc2. lia. }
  destruct G as [Gf Gle Ginj Gval Gunl Gch].
  split.
  - rewrite Hlen. exact Gf.
  - exact Gle.
  - exact Ginj.
  - exact Gval.
  - intros x Hx. rewrite Hmk. destruct (Z.eq_dec x c) as [E|E].
    + subst x. split; assumption.
    + rewrite (u_set_other _ _ _ E) in Hx. apply Gunl. exact Hx.
  - intros P HP. unfold chain_at.
    destruct (Z.eq_dec P pred) as [EP|EP].
    + subst P. rewrite Hpv_pred. repeat split.
      * exact Cc1.
      * lia.
      * intros x Hx. destruct (Z.eq_dec x c) as [E|E]; [subst x; apply u_set_same|].
        apply u_set_mono.
        assert (Hne : st x <> st c).
        { intros E'. apply E. apply Ginj; [exact E'|lia]. }
        destruct (Nat.lt_ge_cases (st x) (st c)) as [L|L].
        -- apply Cc3. lia.
        -- apply Cp3. lia.
      * intros _. rewrite (u_set_other _ _ _ Hsc). exact Cc4.
    + rewrite (Hpv_other P EP).
      pose proof (Gch P HP) as C. unfold chain_at in C. destruct C as [C1 [C2 [C3 C4]]].
      repeat split.
      * exact C1.
      * exact C2.
      * intros x Hx. apply u_set_mono. apply C3. exact Hx.
      * intros HPl.
        assert (HPl' : P = 0 \/ u P = false).
        { destruct HPl as [HPl|HPl]; [left; exact HPl|right].
          unfold u_set in HPl. destruct (P =? c); [discriminate|exact HPl]. }
        specialize (C4 HPl').
        destruct (Z.eq_dec (pv h hd P) c) as [E|E]; [|rewrite (u_set_other _ _ _ E); exact C4].
        exfalso. rewrite E in C2, C3.
        destruct (Z.eq_dec P 0) as [EP0|EP0]; destruct (Z.eq_dec pred 0) as [Ep0|Ep0].
        -- congruence.
        -- subst P. change (pst st n 0) with (S n) in C2, C3.
           rewrite (pst_nz _ _ _ Ep0) in Cp2.
           destruct Hlive as [Hl|Hl]; [contradiction|].
           assert (Hu : u pred = true). { apply C3. specialize (Gle pred). lia. }
           congruence.
        -- subst pred. change (pst st n 0) with (S n) in Cp2, Cp3.
           rewrite (pst_nz _ _ _ EP0) in C2.
           destruct HPl' as [Hl|Hl]; [contradiction|].
           assert (Hu : u P = true). { apply Cp3. specialize (Gle P). lia. }
           congruence.
        -- rewrite (pst_nz _ _ _ EP0) in C2, C3. rewrite (pst_nz _ _ _ Ep0) in Cp2, Cp3.
           destruct HPl' as [Hl|Hl]; [contradiction|].
           destruct Hlive as [Hl'|Hl']; [contradiction|].
           destruct HP as [HP|HP]; [contradiction|].
           destruct (Nat.lt_trichotomy (st P) (st pred)) as [L|[L|L]].
           ++ assert (Hu : u P = true) by (apply Cp3; lia). congruence.
           ++ apply EP. apply Ginj; [exact L|exact HP].
           ++ assert (Hu : u pred = true) by (apply C3; lia). congruence.
Qed.

(* ================================================================== *)
(** * 3. Per-thread invariants and their stability *)

(* registers of a traversal standing at (pred, curr) having reported [aE]
   (uids [acc]), started when [sn] entries had been inserted.  [c] may be 0
   here (end of list); at sites 54/55 it is not. *)
Definition travweak (h : list entry) (st : Z -> nat) (n : nat) (sn : nat) (aE : list Z)
           (pred c : Z) (acc : list Z) : Prop :=
  (c = 0 \/ (st c > 0)%nat) /\
  (pred = 0 \/ (st pred > 0)%nat) /\
  (sn <= n)%nat /\
  acc = map (fun e => uid (get h e)) aE /\
  (forall e, (0 < st e <= sn)%nat -> mark (get h e) = true \/ In e aE \/ (st e <= st c)%nat) /\
  (st c < pst st n pred)%nat /\
  NoDup aE /\
  (forall a, In a aE -> pred <> 0 /\ (st pred <= st a)%nat).

Definition priv (p : pc) : option Z :=
  match p with P50 e => Some e | P51 e _ => Some e | _ => None end.

Definition pcinv (h : list entry) (fr : Z) (g : ghost) (t : nat) (p : pc) : Prop :=
  match p with
  | P50 e => stamp g e = 0%nat /\ 1 <= e < fr
  | P51 e nxt => stamp g e = 0%nat /\ 1 <= e < fr /\ next (get h e) = nxt
  | P54 pred c acc =>
    travweak h (stamp g) (nins g) (snap g t) (accE g t) pred c acc /\ c <> 0
  | P55 pred c succ acc =>
    travweak h (stamp g) (nins g) (snap g t) (accE g t) pred c acc /\ c <> 0 /\
    mark (get h c) = true /\ next (get h c) = succ
  | P56 acc =>
    acc = map (fun e => uid (get h e)) (accE g t) /\ NoDup (accE g t) /\
    (forall a, In a (accE g t) -> (stamp g a > 0)%nat)
  | _ => True
  end.

(* what a step of one thread guarantees to the others; [pe] is the private
   (allocated, not yet inserted) entry of the stepping thread *)
Record rely (h : list entry) (fr : Z) (st : Z -> nat) (n : nat)
            (h' : list entry) (fr' : Z) (st' : Z -> nat) (n' : nat) (pe : option Z) : Prop := mkRely {
  R_st : forall x, st' x = st x \/ (st x = 0%nat /\ pe = Some x /\ st' x = S n /\ 1 <= x);
  R_n : (n <= n')%nat;
  R_mark : forall x, mark (get h x) = true -> mark (get h' x) = true;
  R_uid : forall x, 1 <= x < fr -> uid (get h' x) = uid (get h x);
  R_fr : fr <= fr';
  R_next_marked : forall x, (st x > 0)%nat -> mark (get h x) = true -> next (get h' x) = next (get h x);
  R_next_priv : forall x, st x = 0%nat -> 1 <= x < fr -> pe <> Some x -> next (get h' x) = next (get h x)
}.

Lemma rely_st_pos h fr st n h' fr' st' n' pe x :
  rely h fr st n h' fr' st' n' pe -> (st x > 0)%nat -> st' x = st x.
Proof.
  intros R Hx. destruct (R_st _ _ _ _ _ _ _ _ _ R x) as [E|[E _]]; [exact E|lia].
Qed.

Lemma travweak_stable h hd fr st n u h' fr' st' n' pe sn aE pred c acc :
  GInv h hd fr st n u ->
  rely h fr st n h' fr' st' n' pe ->
  travweak h st n sn aE pred c acc ->
  travweak h' st' n' sn aE pred c acc.
Proof.
  intros G R T.
  pose proof (G_st0 _ _ _ _ _ _ G) as H0.
  assert (Hpos : forall x, (st x > 0)%nat -> st' x = st x).
  { intros x. apply (rely_st_pos _ _ _ _ _ _ _ _ _ _ R). }
  assert (H0' : st' 0 = 0%nat).
  { destruct (R_st _ _ _ _ _ _ _ _ _ R 0) as [E|[_ [_ [_ E]]]]; [rewrite E; exact H0|lia]. }
  destruct T as [T1 [T2 [T3 [T4 [T5 [T6 [T7 T8]]]]]]].
  assert (HaE : forall a, In a aE -> (st a > 0)%nat).
  { intros a Ha. destruct (T8 a Ha) as [Hp Hle].
    destruct T2 as [T2|T2]; [contradiction|lia]. }
  unfold travweak. repeat split.
  - destruct T1 as [T1|T1]; [left; exact T1|right]. rewrite (Hpos c T1). exact T1.
  - destruct T2 as [T2|T2]; [left; exact T2|right]. rewrite (Hpos pred T2). exact T2.
  - pose proof (R_n _ _ _ _ _ _ _ _ _ R). lia.
  - rewrite T4. apply map_ext_in. intros a Ha. symmetry.
    apply (R_uid _ _ _ _ _ _ _ _ _ R). apply (G_valid _ _ _ _ _ _ G). apply HaE. exact Ha.
  - intros e He.
    destruct (R_st _ _ _ _ _ _ _ _ _ R e) as [E|[_ [_ [E _]]]]; [|lia].
    rewrite E in He. destruct (T5 e He) as [A|[A|A]].
    + left. apply (R_mark _ _ _ _ _ _ _ _ _ R). exact A.
    + right. left. exact A.
    + right. right. rewrite E.
      destruct T1 as [T1|T1]; [subst c; lia|]. rewrite (Hpos c T1). exact A.
  - pose proof (R_n _ _ _ _ _ _ _ _ _ R) as Hn.
    destruct (Z.eq_dec pred 0) as [Ep|Ep].
    + subst pred. change (pst st' n' 0) with (S n'). change (pst st n 0) with (S n) in T6.
      destruct T1 as [T1|T1]; [subst c; lia|]. rewrite (Hpos c T1). lia.
    + rewrite (pst_nz _ _ _ Ep). rewrite (pst_nz _ _ _ Ep) in T6.
      destruct T2 as [T2|T2]; [contradiction|]. rewrite (Hpos pred T2).
      destruct T1 as [T1|T1]; [subst c; lia|]. rewrite (Hpos c T1). exact T6.
  - exact T7.
  - apply (T8 a H).
  - destruct (T8 a H) as [Hp Hle]. rewrite (Hpos a (HaE a H)).
    destruct T2 as [T2|T2]; [contradiction|]. rewrite (Hpos pred T2). exact Hle.
Qed.

Lemma pcinv_stable h hd fr g h' fr' g' pe t p :
  GInv h hd fr (stamp g) (nins g) (unl g) ->
  rely h fr (stamp g) (nins g) h' fr' (stamp g') (nins g') pe ->
  snap g' t = snap g t -> accE g' t = accE g t ->
  (forall e, priv p = Some e -> pe <> Some e) ->
  pcinv h fr g t p -> pcinv h' fr' g' t p.
Proof.
  intros G R Hsn Hac Hpe Hp.
  pose proof (R_fr _ _ _ _ _ _ _ _ _ R) as Hfr.
  destruct p as [| |e|e nxt|e| |pred c acc|pred c succ acc|acc|]; cbn [pcinv] in *; try exact I.
  - destruct Hp as [A B]. specialize (Hpe e eq_refl).
    split; [|lia].
    destruct (R_st _ _ _ _ _ _ _ _ _ R e) as [E|[_ [E _]]]; [rewrite E; exact A|contradiction].
  - destruct Hp as [A [B C]]. specialize (Hpe e eq_refl).
    split; [|split; [lia|]].
    + destruct (R_st _ _ _ _ _ _ _ _ _ R e) as [E|[_ [E _]]]; [rewrite E; exact A|contradiction].
    + rewrite (R_next_priv _ _ _ _ _ _ _ _ _ R e A B Hpe). exact C.
  - destruct Hp as [T Hc]. split; [|exact Hc]. rewrite Hsn, Hac.
    eapply travweak_stable; eassumption.
  - destruct Hp as [T [Hc [Hm Hn]]].
    assert (Hcs : (stamp g c > 0)%nat).
    { destruct T as [[T1|T1] _]; [contradiction|exact T1]. }
    split; [|split; [exact Hc|split]].
    + rewrite Hsn, Hac. eapply travweak_stable; eassumption.
    + apply (R_mark _ _ _ _ _ _ _ _ _ R). exact Hm.
    + rewrite (R_next_marked _ _ _ _ _ _ _ _ _ R c Hcs Hm). exact Hn.
  - destruct Hp as [A [B C]]. rewrite Hac. split; [|split].
    + rewrite A. apply map_ext_in. intros a Ha. symmetry.
      apply (R_uid _ _ _ _ _ _ _ _ _ R). apply (G_valid _ _ _ _ _ _ G). apply C. exact Ha.
    + exact B.
    + intros a Ha. rewrite (rely_st_pos _ _ _ _ _ _ _ _ _ _ R (C a Ha)). apply C. exact Ha.
Qed.

(** rely for the different kinds of shared-state transitions *)

Lemma rely_refl h fr st n pe : rely h fr st n h fr st n pe.
Proof.
  split; intros; try reflexivity; try lia; try assumption.
Qed.

Lemma rely_frame h fr st n h' fr' pe :
  fr <= fr' ->
  (forall x, mark (get h x) = true -> mark (get h' x) = true) ->
  (forall x, 1 <= x < fr -> uid (get h' x) = uid (get h x)) ->
  (forall x, 1 <= x < fr -> pe <> Some x -> next (get h' x) = next (get h x)) ->
  (forall x, (st x > 0)%nat -> 1 <= x < fr /\ pe <> Some x) ->
  rely h fr st n h' fr' st n pe.
Proof.
  intros Hfr Hmk Huid Hnx Hval. split.
  - intros x. left. reflexivity.
  - lia.
  - exact Hmk.
  - exact Huid.
  - exact Hfr.
  - intros x Hx _. destruct (Hval x Hx) as [A B]. apply Hnx; assumption.
  - intros x _ A B. apply Hnx; assumption.
Qed.

Lemma rely_insert h fr st n e :
  st e = 0%nat -> 1 <= e ->
  rely h fr st n h fr (st_ins st n e) (S n) (Some e).
Proof.
  intros He Hv. split; intros; try reflexivity; try lia; try assumption.
  destruct (Z.eq_dec x e) as [E|E].
  - subst x. right. rewrite st_ins_same. repeat split; assumption.
  - left. apply st_ins_other. exact E.
Qed.

Lemma rely_unlink h fr st n pred succ pe :
  (pred = 0 \/ (st pred > 0)%nat) ->
  (pred <> 0 -> mark (get h pred) = false) ->
  rely h fr st n (if pred =? 0 then h else upd h pred (set_next succ)) fr st n pe.
Proof.
  intros Hp Hpm. destruct (Z.eqb_spec pred 0) as [E|E]; [apply rely_refl|].
  destruct Hp as [Hp|Hp]; [contradiction|]. specialize (Hpm E).
  split.
  - intros x. left. reflexivity.
  - lia.
  - intros x Hx. rewrite mark_upd_next. exact Hx.
  - intros x _. apply uid_upd_next.
  - lia.
  - intros x _ Hx. apply next_upd_next_other. intros E'. subst x. congruence.
  - intros x Hx _ _. apply next_upd_next_other. intros E'. subst x. lia.
Qed.

(* ================================================================== *)
(** * 4. The invariant *)

Record Inv (s : state) (g : ghost) : Prop := mkInv {
  I_G : GInv (heap s) (head s) (fresh s) (stamp g) (nins g) (unl g);
  I_T : forall t th, nth_error (threads s) t = Some th -> pcinv (heap s) (fresh s) g t (tpc th);
  I_priv : forall t t' th th' e,
      nth_error (threads s) t = Some th -> nth_error (threads s) t' = Some th' ->
      priv (tpc th) = Some e -> priv (tpc th') = Some e -> t = t';
  I_alloc : forall x, 1 <= x < fresh s ->
      (stamp g x > 0)%nat \/
      exists t th, nth_error (threads s) t = Some th /\ priv (tpc th) = Some x
}.

Lemma priv_valid h fr g t p e : pcinv h fr g t p -> priv p = Some e -> stamp g e = 0%nat /\ 1 <= e < fr.
Proof.
  intros Hp He. destruct p; cbn [priv] in He; try discriminate; inversion He; subst;
    cbn [pcinv] in Hp.
  - exact Hp.
  - destruct Hp as [A [B _]]. split; assumption.
Qed.

Lemma Inv_step_intro s g t th h' hd' fr' g' p' ops' mine' :
  Inv s g -> nth_error (threads s) t = Some th ->
  GInv h' hd' fr' (stamp g') (nins g') (unl g') ->
  rely (heap s) (fresh s) (stamp g) (nins g) h' fr' (stamp g') (nins g') (priv (tpc th)) ->
  (forall t', t' <> t -> snap g' t' = snap g t' /\ accE g' t' = accE g t') ->
  pcinv h' fr' g' t p' ->
  ((fr' = fresh s /\ (priv p' = None \/ priv p' = priv (tpc th)) /\
    (forall x, priv (tpc th) = Some x -> priv p' = Some x \/ (stamp g' x > 0)%nat)) \/
   (fr' = fresh s + 1 /\ priv p' = Some (fresh s) /\ priv (tpc th) = None)) ->
  Inv (mkS h' hd' (upd_nth (threads s) t (fun _ => mkT p' ops' mine')) fr') g'.
Proof.
  intros [IG IT IP IA] Hth G' R Hgh Hp' Hfr.
  assert (Hnew : nth_error (upd_nth (threads s) t (fun _ => mkT p' ops' mine')) t
                 = Some (mkT p' ops' mine')).
  { rewrite nth_error_upd_nth, Nat.eqb_refl, Hth. reflexivity. }
  assert (Hold : forall t1, t1 <> t ->
            nth_error (upd_nth (threads s) t (fun _ => mkT p' ops' mine')) t1
            = nth_error (threads s) t1).
  { intros t1 Hne. rewrite nth_error_upd_nth.
    destruct (Nat.eqb_spec t1 t); [contradiction|reflexivity]. }
  split; cbn [heap head fresh threads].
  - exact G'.
  - intros t1 th1 H1. destruct (Nat.eq_dec t1 t) as [E|E].
    + subst t1. rewrite Hnew in H1. inversion H1; subst th1. cbn [tpc]. exact Hp'.
    + rewrite (Hold t1 E) in H1. destruct (Hgh t1 E) as [Hsn Hac].
      apply (pcinv_stable (heap s) (head s) (fresh s) g h' fr' g' (priv (tpc th)) t1 (tpc th1) IG R Hsn Hac).
      * intros e He Hpe. apply E. eapply IP; eassumption.
      * apply IT. exact H1.
  - intros t1 t2 th1 th2 e H1 H2 P1 P2.
    destruct (Nat.eq_dec t1 t) as [E1|E1]; destruct (Nat.eq_dec t2 t) as [E2|E2].
    + congruence.
    + subst t1. rewrite Hnew in H1. inversion H1; subst th1. cbn [tpc] in P1.
      rewrite (Hold t2 E2) in H2.
      destruct Hfr as [[_ [[F|F] _]]|[_ [F _]]].
      * congruence.
      * symmetry. eapply IP; try eassumption. congruence.
      * exfalso. rewrite F in P1. inversion P1; subst e.
        destruct (priv_valid _ _ _ _ _ _ (IT t2 th2 H2) P2) as [_ V]. lia.
    + subst t2. rewrite Hnew in H2. inversion H2; subst th2. cbn [tpc] in P2.
      rewrite (Hold t1 E1) in H1.
      destruct Hfr as [[_ [[F|F] _]]|[_ [F _]]].
      * congruence.
      * eapply IP; try eassumption. congruence.
      * exfalso. rewrite F in P2. inversion P2; subst e.
        destruct (priv_valid _ _ _ _ _ _ (IT t1 th1 H1) P1) as [_ V]. lia.
    + rewrite (Hold t1 E1) in H1. rewrite (Hold t2 E2) in H2. eapply IP; eassumption.
  - intros x Hx.
    assert (Hcase : x = fresh s /\ fr' = fresh s + 1 /\ priv p' = Some (fresh s) \/ 1 <= x < fresh s).
    { destruct Hfr as [[F _]|[F [F' _]]]; [right; lia|].
      destruct (Z.eq_dec x (fresh s)); [left; repeat split; assumption|right; lia]. }
    destruct Hcase as [[Ex [_ F]]|Hx'].
    + right. exists t, (mkT p' ops' mine'). split; [exact Hnew|]. cbn [tpc]. rewrite F, Ex. reflexivity.
    + destruct (IA x Hx') as [A|[t1 [th1 [H1 P1]]]].
      * left. rewrite (rely_st_pos _ _ _ _ _ _ _ _ _ _ R A). exact A.
      * destruct (Nat.eq_dec t1 t) as [E|E].
        -- subst t1. rewrite Hth in H1. inversion H1; subst th1.
           destruct Hfr as [[_ [_ F]]|[_ [_ F]]]; [|congruence].
           destruct (F x P1) as [F'|F']; [|left; exact F'].
           right. exists t, (mkT p' ops' mine'). split; [exact Hnew|exact F'].
        -- right. exists t1, th1. split; [|exact P1]. rewrite (Hold t1 E). exact H1.
Qed.

(* ================================================================== *)
(** * 5. Traversal lemmas *)

Lemma NoDup_snoc {A} (l : list A) (x : A) : NoDup l -> ~ In x l -> NoDup (l ++ [x]).
Proof.
  induction l as [|y r IH]; intros Hnd Hx; cbn [app].
  - constructor; [intros []|constructor].
  - inversion Hnd as [|? ? Hy Hr]; subst. constructor.
    + intros Hin. apply in_app_or in Hin. destruct Hin as [Hin|[Hin|[]]].
      * contradiction.
      * subst. apply Hx. left. reflexivity.
    + apply IH; [exact Hr|]. intros Hin. apply Hx. right. exact Hin.
Qed.

(* site 53: pred = head, curr = value of head *)
Lemma trav_start h hd fr st n u :
  GInv h hd fr st n u -> travweak h st n n [] 0 hd [].
Proof.
  intros G.
  pose proof (G_chain _ _ _ _ _ _ G 0 (or_introl eq_refl)) as C. unfold chain_at in C.
  change (pv h hd 0) with hd in C. change (pst st n 0) with (S n) in C.
  destruct C as [C1 [C2 [C3 _]]].
  unfold travweak. repeat split.
  - exact C1.
  - left. reflexivity.
  - lia.
  - intros e He. destruct (Nat.le_gt_cases (st e) (st hd)) as [L|L].
    + right. right. exact L.
    + left. apply (G_unl _ _ _ _ _ _ G). apply C3. lia.
  - exact C2.
  - constructor.
  - destruct H.
  - destruct H.
Qed.

(* site 54 on an unmarked entry: report it, pred := curr, curr := next curr *)
Lemma trav_advance h hd fr st n u sn aE pred c acc :
  GInv h hd fr st n u ->
  travweak h st n sn aE pred c acc -> c <> 0 ->
  travweak h st n sn (aE ++ [c]) c (next (get h c)) (acc ++ [uid (get h c)]).
Proof.
  intros G T Hc.
  destruct T as [T1 [T2 [T3 [T4 [T5 [T6 [T7 T8]]]]]]].
  destruct T1 as [T1|T1]; [contradiction|].
  pose proof (G_chain _ _ _ _ _ _ G c (or_intror T1)) as C. unfold chain_at in C.
  rewrite (pv_nz _ _ _ Hc), (pst_nz _ _ _ Hc) in C.
  destruct C as [C1 [C2 [C3 _]]].
  unfold travweak. repeat split.
  - exact C1.
  - right. exact T1.
  - exact T3.
  - rewrite map_app, T4. reflexivity.
  - intros e He. destruct (T5 e He) as [A|[A|A]].
    + left. exact A.
    + right. left. apply in_or_app. left. exact A.
    + destruct (Nat.eq_dec (st e) (st c)) as [E|E].
      * right. left. apply in_or_app. right. left. symmetry.
        apply (G_inj _ _ _ _ _ _ G); [exact E|lia].
      * destruct (Nat.le_gt_cases (st e) (st (next (get h c)))) as [L|L].
        -- right. right. exact L.
        -- left. apply (G_unl _ _ _ _ _ _ G). apply C3. lia.
  - rewrite (pst_nz _ _ _ Hc). exact C2.
  - apply NoDup_snoc; [exact T7|]. intros Hin. destruct (T8 c Hin) as [Hp Hle].
    rewrite (pst_nz _ _ _ Hp) in T6. lia.
  - exact Hc.
  - apply in_app_or in H. destruct H as [H|[H|[]]].
    + destruct (T8 a H) as [Hp Hle]. rewrite (pst_nz _ _ _ Hp) in T6. lia.
    + subst a. lia.
Qed.

(* site 55, CAS succeeded on a marked curr: curr := next curr *)
Lemma trav_skip h hd fr st n u sn aE pred c acc :
  GInv h hd fr st n u ->
  travweak h st n sn aE pred c acc -> c <> 0 -> mark (get h c) = true ->
  travweak h st n sn aE pred (next (get h c)) acc.
Proof.
  intros G T Hc Hm.
  destruct T as [T1 [T2 [T3 [T4 [T5 [T6 [T7 T8]]]]]]].
  destruct T1 as [T1|T1]; [contradiction|].
  pose proof (G_chain _ _ _ _ _ _ G c (or_intror T1)) as C. unfold chain_at in C.
  rewrite (pv_nz _ _ _ Hc), (pst_nz _ _ _ Hc) in C.
  destruct C as [C1 [C2 [C3 _]]].
  unfold travweak. repeat split.
  - exact C1.
  - exact T2.
  - exact T3.
  - exact T4.
  - intros e He. destruct (T5 e He) as [A|[A|A]].
    + left. exact A.
    + right. left. exact A.
    + destruct (Nat.eq_dec (st e) (st c)) as [E|E].
      * left. assert (Hec : e = c) by (apply (G_inj _ _ _ _ _ _ G); [exact E|lia]).
        subst e. exact Hm.
      * destruct (Nat.le_gt_cases (st e) (st (next (get h c)))) as [L|L].
        -- right. right. exact L.
        -- left. apply (G_unl _ _ _ _ _ _ G). apply C3. lia.
  - lia.
  - exact T7.
  - apply (T8 a H).
  - apply (T8 a H).
Qed.

(* site 55, CAS failed: curr := current value of pred *)
Lemma trav_reload h hd fr st n u sn aE pred c acc :
  GInv h hd fr st n u ->
  travweak h st n sn aE pred c acc ->
  travweak h st n sn aE pred (pv h hd pred) acc.
Proof.
  intros G T.
  destruct T as [T1 [T2 [T3 [T4 [T5 [T6 [T7 T8]]]]]]].
  pose proof (G_chain _ _ _ _ _ _ G pred T2) as C. unfold chain_at in C.
  destruct C as [C1 [C2 [C3 _]]].
  unfold travweak. repeat split.
  - exact C1.
  - exact T2.
  - exact T3.
  - exact T4.
  - intros e He. destruct (T5 e He) as [A|[A|A]].
    + left. exact A.
    + right. left. exact A.
    + destruct (Nat.le_gt_cases (st e) (st (pv h hd pred))) as [L|L].
      * right. right. exact L.
      * left. apply (G_unl _ _ _ _ _ _ G). apply C3. lia.
  - exact C2.
  - exact T7.
  - apply (T8 a H).
  - apply (T8 a H).
Qed.

(* end of the list: everything inserted before the traversal started is
   marked or has been reported *)
Lemma trav_end h hd fr st n u sn aE pred acc :
  GInv h hd fr st n u ->
  travweak h st n sn aE pred 0 acc ->
  forall e, (0 < st e <= sn)%nat -> mark (get h e) = true \/ In e aE.
Proof.
  intros G T e He.
  pose proof (G_st0 _ _ _ _ _ _ G) as H0.
  destruct T as [_ [_ [_ [_ [T5 _]]]]].
  destruct (T5 e He) as [A|[A|A]]; [left; exact A|right; exact A|lia].
Qed.

(* ================================================================== *)
(** * 6. The ghost step and preservation of the invariant *)

Definition g_set_trav (g : ghost) (t : nat) (sn : nat) (aE : list Z) : ghost :=
  mkG (stamp g) (nins g) (unl g)
      (fun u => if Nat.eqb u t then sn else snap g u)
      (fun u => if Nat.eqb u t then aE else accE g u).

(* The ghost state after thread [t] steps from [s].  It only records history:
   - a successful CAS at 51 stamps the entry with the next insertion number;
   - site 53 snapshots the number of inserted entries and clears the report list;
   - site 54 on an unmarked entry appends it to the report list;
   - a successful CAS at 55 flags the entry as unlinked. *)
Definition gnext (s : state) (g : ghost) (t : nat) : ghost :=
  match nth_error (threads s) t with
  | None => g
  | Some th =>
    match tpc th with
    | P51 e nxt =>
      if head s =? nxt
      then mkG (st_ins (stamp g) (nins g) e) (S (nins g)) (unl g) (snap g) (accE g)
      else g
    | P53 => g_set_trav g t (nins g) []
    | P54 pred c acc =>
      if mark (get (heap s) c) then g else g_set_trav g t (snap g t) (accE g t ++ [c])
    | P55 pred c succ acc =>
      if (pred_val s pred =? c) && negb (pred_tag s pred)
      then mkG (stamp g) (nins g) (u_set (unl g) c) (snap g) (accE g)
      else g
    | _ => g
    end
  end.

Lemma g_set_trav_other g t sn aE t' :
  t' <> t -> snap (g_set_trav g t sn aE) t' = snap g t' /\ accE (g_set_trav g t sn aE) t' = accE g t'.
Proof.
  intros H. cbn [g_set_trav snap accE]. destruct (Nat.eqb_spec t' t); [contradiction|].
  split; reflexivity.
Qed.

Lemma g_set_trav_snap g t sn aE : snap (g_set_trav g t sn aE) t = sn.
Proof. cbn [g_set_trav snap]. rewrite Nat.eqb_refl. reflexivity. Qed.

Lemma g_set_trav_accE g t sn aE : accE (g_set_trav g t sn aE) t = aE.
Proof. cbn [g_set_trav accE]. rewrite Nat.eqb_refl. reflexivity. Qed.

Lemma same_ghost_frame (g : ghost) (t : nat) :
  forall t', t' <> t -> snap g t' = snap g t' /\ accE g t' = accE g t'.
Proof. intros; split; reflexivity. Qed.

Lemma Inv_local s g t th g' p' ops' mine' :
  Inv s g -> nth_error (threads s) t = Some th ->
  stamp g' = stamp g -> nins g' = nins g -> unl g' = unl g ->
  (forall t', t' <> t -> snap g' t' = snap g t' /\ accE g' t' = accE g t') ->
  pcinv (heap s) (fresh s) g' t p' ->
  priv (tpc th) = None -> priv p' = None ->
  Inv (mkS (heap s) (head s) (upd_nth (threads s) t (fun _ => mkT p' ops' mine')) (fresh s)) g'.
Proof.
  intros Hinv Hth E1 E2 E3 Hgh Hp Hpr Hpr'.
  apply (Inv_step_intro s g t th (heap s) (head s) (fresh s) g' p' ops' mine' Hinv Hth).
  - rewrite E1, E2, E3. apply (I_G _ _ Hinv).
  - rewrite E1, E2. apply rely_refl.
  - exact Hgh.
  - exact Hp.
  - left. split; [reflexivity|]. split; [left; exact Hpr'|]. intros x Hx. congruence.
Qed.

Lemma pcinv_cont h fr g t pred c acc :
  travweak h (stamp g) (nins g) (snap g t) (accE g t) pred c acc ->
  pcinv h fr g t (fst (trav_continue pred c acc)).
Proof.
  intros T. unfold trav_continue. destruct (Z.eqb_spec c 0) as [E|E]; cbn [fst pcinv].
  - exact I.
  - split; assumption.
Qed.

Lemma priv_cont pred c acc : priv (fst (trav_continue pred c acc)) = None.
Proof. unfold trav_continue. destruct (c =? 0); reflexivity. Qed.

Lemma get_overflow h x : Z.of_nat (length h) < x -> get h x = dflt.
Proof.
  intros H. unfold get. destruct (x <=? 0); [reflexivity|]. apply nth_overflow. lia.
Qed.

Lemma cas55_cond s pred c :
  (pred_val s pred =? c) && negb (pred_tag s pred) = true ->
  pv (heap s) (head s) pred = c /\ (pred <> 0 -> mark (get (heap s) pred) = false).
Proof.
  intros H. apply andb_prop in H. destruct H as [A B]. apply Z.eqb_eq in A.
  split; [exact A|]. intros Hp. unfold pred_tag in B.
  destruct (Z.eqb_spec pred 0); [contradiction|].
  destruct (mark (get (heap s) pred)); [discriminate|reflexivity].
Qed.

Theorem Inv_step s g t s' o :
  Inv s g -> step s t = Some (s', o) -> Inv s' (gnext s g t).
Proof.
  intros Hinv Hstep.
  pose proof (I_G _ _ Hinv) as G.
  unfold step in Hstep. unfold gnext.
  destruct (nth_error (threads s) t) as [th|] eqn:Hth; [|discriminate].
  pose proof (I_T _ _ Hinv t th Hth) as Hpc0.
  cbv zeta in Hstep. unfold set_thread in Hstep.
  destruct (tpc th) eqn:Hpc.
  - (* PStart *)
    injection Hstep as Hs Ho; subst s' o.
    apply (Inv_local s g t th g); try reflexivity; try assumption.
    + apply same_ghost_frame.
    + rewrite Hpc. reflexivity.
  - (* POp *)
    destruct (tops th) as [|[id|k|] r] eqn:Hops.
    + injection Hstep as Hs Ho; subst s' o.
      apply (Inv_local s g t th g); try reflexivity; try assumption.
      * apply same_ghost_frame.
      * rewrite Hpc. reflexivity.
    + (* insert: allocate *)
      injection Hstep as Hs Ho; subst s' o.
      pose proof (G_fresh _ _ _ _ _ _ G) as Hf.
      assert (Hold : forall x, 1 <= x < fresh s ->
                get (heap s ++ [mkE id 0 false]) x = get (heap s) x).
      { intros x Hx. apply get_app_old. lia. }
      apply (Inv_step_intro s g t th (heap s ++ [mkE id 0 false]) (head s) (fresh s + 1) g
                            (P50 (fresh s)) r (tmine th ++ [fresh s]) Hinv Hth).
      * apply (GInv_frame _ _ _ _ _ _ _ _ G).
        -- rewrite app_length. cbn [length]. lia.
        -- lia.
        -- intros x Hx. rewrite Hold; [reflexivity|]. apply (G_valid _ _ _ _ _ _ G). exact Hx.
        -- intros x Hx. destruct (Z_lt_le_dec (Z.of_nat (length (heap s))) x) as [L|L].
           ++ rewrite get_overflow in Hx by exact L. discriminate.
           ++ rewrite get_app_old by lia. exact Hx.
      * rewrite Hpc. cbn [priv]. apply rely_frame.
        -- lia.
        -- intros x Hx. destruct (Z_lt_le_dec (Z.of_nat (length (heap s))) x) as [L|L].
           ++ rewrite get_overflow in Hx by exact L. discriminate.
           ++ rewrite get_app_old by lia. exact Hx.
        -- intros x Hx. rewrite Hold by exact Hx. reflexivity.
        -- intros x Hx _. rewrite Hold by exact Hx. reflexivity.
        -- intros x Hx. split; [|discriminate]. apply (G_valid _ _ _ _ _ _ G). exact Hx.
      * apply same_ghost_frame.
      * cbn [pcinv]. split; [|lia].
        destruct (stamp g (fresh s)) eqn:E; [reflexivity|].
        assert (Hk : (stamp g (fresh s) > 0)%nat) by lia.
        apply (G_valid _ _ _ _ _ _ G) in Hk. lia.
      * right. rewrite Hpc. repeat split.
    + (* delete *)
      destruct (k <? 0); [discriminate|].
      destruct (nth_error (tmine th) (Z.to_nat k)) as [e|]; [|discriminate].
      injection Hstep as Hs Ho; subst s' o.
      apply (Inv_local s g t th g); try reflexivity; try assumption.
      * apply same_ghost_frame.
      * rewrite Hpc. reflexivity.
    + (* traverse *)
      injection Hstep as Hs Ho; subst s' o.
      apply (Inv_local s g t th g); try reflexivity; try assumption.
      * apply same_ghost_frame.
      * rewrite Hpc. reflexivity.
  - (* P50 *)
    injection Hstep as Hs Ho; subst s' o.
    cbn [pcinv] in Hpc0. destruct Hpc0 as [He Hv].
    pose proof (G_fresh _ _ _ _ _ _ G) as Hf.
    apply (Inv_step_intro s g t th (upd (heap s) e (set_next (head s))) (head s) (fresh s) g
                          (P51 e (head s)) (tops th) (tmine th) Hinv Hth).
    + apply (GInv_frame _ _ _ _ _ _ _ _ G).
      * rewrite length_upd. exact Hf.
      * lia.
      * intros x Hx. apply next_upd_next_other. intros E. subst x. lia.
      * intros x Hx. rewrite mark_upd_next. exact Hx.
    + rewrite Hpc. cbn [priv]. apply rely_frame.
      * lia.
      * intros x Hx. rewrite mark_upd_next. exact Hx.
      * intros x _. apply uid_upd_next.
      * intros x _ Hx. apply next_upd_next_other. congruence.
      * intros x Hx. split; [apply (G_valid _ _ _ _ _ _ G); exact Hx|].
        intros E. inversion E; subst x. lia.
    + apply same_ghost_frame.
    + cbn [pcinv]. split; [exact He|split; [exact Hv|]]. apply next_upd_next_same. lia.
    + left. rewrite Hpc. cbn [priv]. split; [reflexivity|split; [right; reflexivity|]].
      intros x Hx. left. exact Hx.
  - (* P51 *)
    cbn [pcinv] in Hpc0. destruct Hpc0 as [He [Hv Hn]].
    pose proof (G_fresh _ _ _ _ _ _ G) as Hf.
    destruct (Z.eqb_spec (head s) nxt) as [Ehd|Ehd].
    + (* CAS succeeds *)
      injection Hstep as Hs Ho; subst s' o.
      apply (Inv_step_intro s g t th (heap s) e (fresh s)
               (mkG (st_ins (stamp g) (nins g) e) (S (nins g)) (unl g) (snap g) (accE g))
               POp (tops th) (tmine th) Hinv Hth); cbn [stamp nins unl snap accE].
      * apply (GInv_insert (heap s) (head s)); try assumption. congruence.
      * rewrite Hpc. cbn [priv]. apply rely_insert; [exact He|lia].
      * intros; split; reflexivity.
      * exact I.
      * left. rewrite Hpc. cbn [priv]. split; [reflexivity|split; [left; reflexivity|]].
        intros x Hx. inversion Hx; subst x. right. rewrite st_ins_same. lia.
    + (* CAS fails: reload *)
      injection Hstep as Hs Ho; subst s' o.
      apply (Inv_step_intro s g t th (upd (heap s) e (set_next (head s))) (head s) (fresh s) g
                            (P51 e (head s)) (tops th) (tmine th) Hinv Hth).
      * apply (GInv_frame _ _ _ _ _ _ _ _ G).
        -- rewrite length_upd. exact Hf.
        -- lia.
        -- intros x Hx. apply next_upd_next_other. intros E. subst x. lia.
        -- intros x Hx. rewrite mark_upd_next. exact Hx.
      * rewrite Hpc. cbn [priv]. apply rely_frame.
        -- lia.
        -- intros x Hx. rewrite mark_upd_next. exact Hx.
        -- intros x _. apply uid_upd_next.
        -- intros x _ Hx. apply next_upd_next_other. congruence.
        -- intros x Hx. split; [apply (G_valid _ _ _ _ _ _ G); exact Hx|].
           intros E. inversion E; subst x. lia.
      * apply same_ghost_frame.
      * cbn [pcinv]. split; [exact He|split; [exact Hv|]]. apply next_upd_next_same. lia.
      * left. rewrite Hpc. cbn [priv]. split; [reflexivity|split; [right; reflexivity|]].
        intros x Hx. left. exact Hx.
  - (* P52 *)
    injection Hstep as Hs Ho; subst s' o.
    pose proof (G_fresh _ _ _ _ _ _ G) as Hf.
    apply (Inv_step_intro s g t th (upd (heap s) e set_mark) (head s) (fresh s) g
                          POp (tops th) (tmine th) Hinv Hth).
    + apply (GInv_frame _ _ _ _ _ _ _ _ G).
      * rewrite length_upd. exact Hf.
      * lia.
      * intros x Hx. apply next_upd_mark.
      * intros x Hx. apply mark_upd_mark_mono. exact Hx.
    + rewrite Hpc. cbn [priv]. apply rely_frame.
      * lia.
      * intros x Hx. apply mark_upd_mark_mono. exact Hx.
      * intros x _. apply uid_upd_mark.
      * intros x _ _. apply next_upd_mark.
      * intros x Hx. split; [apply (G_valid _ _ _ _ _ _ G); exact Hx|discriminate].
    + apply same_ghost_frame.
    + exact I.
    + left. rewrite Hpc. cbn [priv]. split; [reflexivity|split; [left; reflexivity|]].
      intros x Hx. discriminate.
  - (* P53 *)
    destruct (trav_continue 0 (head s) []) as [p o'] eqn:Htc.
    assert (Hp : p = fst (trav_continue 0 (head s) [])) by (rewrite Htc; reflexivity).
    injection Hstep as Hs Ho; subst s' o.
    apply (Inv_local s g t th (g_set_trav g t (nins g) [])); try reflexivity; try assumption.
    + apply g_set_trav_other.
    + rewrite Hp. apply pcinv_cont. rewrite g_set_trav_snap, g_set_trav_accE.
      cbn [g_set_trav stamp nins]. apply (trav_start _ _ _ _ _ _ G).
    + rewrite Hpc. reflexivity.
    + rewrite Hp. apply priv_cont.
  - (* P54 *)
    cbn [pcinv] in Hpc0. destruct Hpc0 as [T Hc].
    destruct (mark (get (heap s) curr)) eqn:Hm.
    + injection Hstep as Hs Ho; subst s' o.
      apply (Inv_local s g t th g); try reflexivity; try assumption.
      * apply same_ghost_frame.
      * cbn [pcinv]. split; [exact T|split; [exact Hc|split; [exact Hm|reflexivity]]].
      * rewrite Hpc. reflexivity.
    + destruct (trav_continue curr (next (get (heap s) curr)) (acc ++ [uid (get (heap s) curr)]))
        as [p o'] eqn:Htc.
      assert (Hp : p = fst (trav_continue curr (next (get (heap s) curr))
                                          (acc ++ [uid (get (heap s) curr)])))
        by (rewrite Htc; reflexivity).
      injection Hstep as Hs Ho; subst s' o.
      apply (Inv_local s g t th (g_set_trav g t (snap g t) (accE g t ++ [curr])));
        try reflexivity; try assumption.
      * apply g_set_trav_other.
      * rewrite Hp. apply pcinv_cont. rewrite g_set_trav_snap, g_set_trav_accE.
        cbn [g_set_trav stamp nins]. apply (trav_advance _ _ _ _ _ _ _ _ _ _ _ G T Hc).
      * rewrite Hpc. reflexivity.
      * rewrite Hp. apply priv_cont.
  - (* P55 *)
    cbn [pcinv] in Hpc0. destruct Hpc0 as [T [Hc [Hm Hn]]].
    destruct ((pred_val s pred =? curr) && negb (pred_tag s pred)) eqn:Hcas.
    + (* CAS succeeds *)
      destruct (cas55_cond _ _ _ Hcas) as [Hpv Hpm].
      destruct (trav_continue pred succ acc) as [p o'] eqn:Htc.
      assert (Hp : p = fst (trav_continue pred succ acc)) by (rewrite Htc; reflexivity).
      injection Hstep as Hs Ho; subst s' o.
      assert (Hcs : (stamp g curr > 0)%nat).
      { destruct T as [[T1|T1] _]; [contradiction|exact T1]. }
      assert (Hps : pred = 0 \/ (stamp g pred > 0)%nat).
      { destruct T as [_ [T2 _]]. exact T2. }
      assert (R : rely (heap s) (fresh s) (stamp g) (nins g)
                       (if pred =? 0 then heap s else upd (heap s) pred (set_next succ))
                       (fresh s) (stamp g) (nins g) (priv (tpc th))).
      { apply rely_unlink; assumption. }
      apply (Inv_step_intro s g t th
               (if pred =? 0 then heap s else upd (heap s) pred (set_next succ))
               (if pred =? 0 then succ else head s) (fresh s)
               (mkG (stamp g) (nins g) (u_set (unl g) curr) (snap g) (accE g))
               p (tops th) (tmine th) Hinv Hth); cbn [stamp nins unl snap accE].
      * rewrite <- Hn. apply GInv_unlink; assumption.
      * exact R.
      * intros; split; reflexivity.
      * rewrite Hp. apply pcinv_cont. cbn [stamp nins snap accE].
        apply (travweak_stable _ _ _ _ _ _ _ _ _ _ _ _ _ _ _ _ G R).
        rewrite <- Hn. apply (trav_skip _ _ _ _ _ _ _ _ _ _ _ G T Hc Hm).
      * left. rewrite Hpc, Hp, priv_cont. cbn [priv].
        split; [reflexivity|split; [left; reflexivity|]]. intros x Hx. discriminate.
    + destruct (pred_tag s pred) eqn:Htag.
      * (* stalled *)
        injection Hstep as Hs Ho; subst s' o.
        apply (Inv_local s g t th g); try reflexivity; try assumption.
        -- apply same_ghost_frame.
        -- cbn [pcinv]. destruct T as [T1 [T2 [T3 [T4 [T5 [T6 [T7 T8]]]]]]].
           split; [exact T4|split; [exact T7|]].
           intros a Ha. destruct (T8 a Ha) as [Hp Hle].
           destruct T2 as [T2|T2]; [contradiction|lia].
        -- rewrite Hpc. reflexivity.
      * destruct (trav_continue pred (pred_val s pred) acc) as [p o'] eqn:Htc.
        assert (Hp : p = fst (trav_continue pred (pred_val s pred) acc)) by (rewrite Htc; reflexivity).
        injection Hstep as Hs Ho; subst s' o.
        apply (Inv_local s g t th g); try reflexivity; try assumption.
        -- apply same_ghost_frame.
        -- rewrite Hp. apply pcinv_cont.
           apply (trav_reload _ _ _ _ _ _ _ _ _ _ _ G T).
        -- rewrite Hpc. reflexivity.
        -- rewrite Hp. apply priv_cont.
  - (* P56 *)
    injection Hstep as Hs Ho; subst s' o.
    apply (Inv_local s g t th g); try reflexivity; try assumption.
    + apply same_ghost_frame.
    + rewrite Hpc. reflexivity.
  - discriminate.
Qed.

(* ================================================================== *)
(** * 7. Initial state, runs, reachable states *)

Definition ginit : ghost :=
  mkG (fun _ => 0%nat) 0%nat (fun _ => false) (fun _ => 0%nat) (fun _ => []).

Lemma Inv_init prog : Inv (init prog) ginit.
Proof.
  unfold init, ginit. split; cbn [heap head fresh threads stamp nins unl].
  - split.
    + reflexivity.
    + intros x. lia.
    + intros x y _ H. lia.
    + intros x H. lia.
    + intros x H. discriminate.
    + intros P HP. destruct HP as [HP|HP]; [|lia]. subst P.
      unfold chain_at. change (pv [] 0 0) with 0. change (pst (fun _ : Z => 0%nat) 0 0) with 1%nat.
      repeat split.
      * left. reflexivity.
      * lia.
      * intros x Hx. lia.
  - intros t th H. apply nth_error_In in H. apply in_map_iff in H.
    destruct H as [l [E _]]. subst th. exact I.
  - intros t t' th th' e H _ P _. apply nth_error_In in H. apply in_map_iff in H.
    destruct H as [l [E _]]. subst th. discriminate.
  - intros x Hx. lia.
Qed.

(* run a schedule; steps that cannot execute are skipped (as in [replay]) *)
Fixpoint run (s : state) (sched : list nat) : state :=
  match sched with
  | [] => s
  | t :: r => match step s t with
              | None => run s r
              | Some (s', _) => run s' r
              end
  end.

Fixpoint grun (s : state) (g : ghost) (sched : list nat) : state * ghost :=
  match sched with
  | [] => (s, g)
  | t :: r => match step s t with
              | None => grun s g r
              | Some (s', _) => grun s' (gnext s g t) r
              end
  end.

Lemma grun_run s g sched : fst (grun s g sched) = run s sched.
Proof.
  revert s g. induction sched as [|t r IH]; intros s g; cbn [grun run]; [reflexivity|].
  destruct (step s t) as [[s' o]|]; apply IH.
Qed.

Lemma Inv_grun s g sched : Inv s g -> Inv (fst (grun s g sched)) (snd (grun s g sched)).
Proof.
  revert s g. induction sched as [|t r IH]; intros s g Hinv; cbn [grun]; [exact Hinv|].
  destruct (step s t) as [[s' o]|] eqn:E.
  - apply IH. eapply Inv_step; eassumption.
  - apply IH. exact Hinv.
Qed.

Lemma run_app s a b : run s (a ++ b) = run (run s a) b.
Proof.
  revert s. induction a as [|t r IH]; intros s; cbn [app run]; [reflexivity|].
  destruct (step s t) as [[s' o]|]; apply IH.
Qed.

(* Every state reached from an initial state satisfies the invariant for some
   ghost state. *)
Theorem reachable_Inv prog sched : exists g, Inv (run (init prog) sched) g.
Proof.
  exists (snd (grun (init prog) ginit sched)). rewrite <- (grun_run _ ginit).
  apply Inv_grun. apply Inv_init.
Qed.

(** ** Ghost-free characterisation of "the insert of e has completed" *)

Definition is_priv (p : pc) (e : Z) : bool :=
  match p with P50 x => x =? e | P51 x _ => x =? e | _ => false end.

(* e has been allocated and no thread is still between its allocation and its
   successful CAS at site 51 *)
Definition insertedb (s : state) (e : Z) : bool :=
  (1 <=? e) && (e <? fresh s) && forallb (fun th => negb (is_priv (tpc th) e)) (threads s).

Definition inserted (s : state) (e : Z) : Prop := insertedb s e = true.

Lemma is_priv_spec p e : is_priv p e = true <-> priv p = Some e.
Proof.
  destruct p; cbn [is_priv priv]; try (split; intros; discriminate).
  - rewrite Z.eqb_eq. split; intros H; [subst; reflexivity|inversion H; reflexivity].
  - rewrite Z.eqb_eq. split; intros H; [subst; reflexivity|inversion H; reflexivity].
Qed.

Lemma inserted_stamp s g e : Inv s g -> (inserted s e <-> (stamp g e > 0)%nat).
Proof.
  intros Hinv. unfold inserted, insertedb. split.
  - intros H. apply andb_prop in H. destruct H as [H H3]. apply andb_prop in H. destruct H as [H1 H2].
    apply Z.leb_le in H1. apply Z.ltb_lt in H2.
    destruct (I_alloc _ _ Hinv e (conj H1 H2)) as [A|[t [th [Hth P]]]]; [exact A|exfalso].
    rewrite forallb_forall in H3. specialize (H3 th (nth_error_In _ _ Hth)).
    apply is_priv_spec in P. rewrite P in H3. discriminate.
  - intros H. pose proof (G_valid _ _ _ _ _ _ (I_G _ _ Hinv) e H) as V.
    apply andb_true_intro. split; [apply andb_true_intro; split|].
    + apply Z.leb_le. lia.
    + apply Z.ltb_lt. lia.
    + apply forallb_forall. intros th Hin. apply In_nth_error in Hin. destruct Hin as [t Hth].
      destruct (is_priv (tpc th) e) eqn:E; [|reflexivity]. exfalso.
      apply is_priv_spec in E.
      destruct (priv_valid _ _ _ _ _ _ (I_T _ _ Hinv t th Hth) E) as [Z0 _]. lia.
Qed.

(* ================================================================== *)
(** * 8. Shape of the physical chain *)

(* [path h x l]: following [next] from x visits exactly the entries l and then
   reaches null *)
Inductive path (h : list entry) : Z -> list Z -> Prop :=
| path_nil : path h 0 []
| path_cons x l : x <> 0 -> path h (next (get h x)) l -> path h x (x :: l).

Lemma chain_from h hd fr st n u :
  GInv h hd fr st n u ->
  forall k x, (st x <= k)%nat -> (x = 0 \/ (st x > 0)%nat) ->
  exists l, path h x l /\ NoDup l /\
            (forall y, In y l -> (0 < st y <= st x)%nat) /\
            (forall e, (0 < st e <= st x)%nat -> u e = false -> In e l) /\
            ((x = 0 \/ u x = false) -> forall y, In y l -> u y = false).
Proof.
  intros G. pose proof (G_st0 _ _ _ _ _ _ G) as H0.
  induction k as [|k IH]; intros x Hk Hx.
  - assert (x = 0) by (destruct Hx as [Hx|Hx]; [exact Hx|lia]). subst x.
    exists []. split; [constructor|split; [constructor|]].
    split; [intros y []|split; [intros e He; lia|intros _ y []]].
  - destruct (Z.eq_dec x 0) as [E|E].
    + subst x. exists []. split; [constructor|split; [constructor|]].
      split; [intros y []|split; [intros e He; lia|intros _ y []]].
    + destruct Hx as [Hx|Hx]; [contradiction|].
      pose proof (G_chain _ _ _ _ _ _ G x (or_intror Hx)) as C. unfold chain_at in C.
      rewrite (pv_nz _ _ _ E), (pst_nz _ _ _ E) in C. destruct C as [C1 [C2 [C3 C4]]].
      destruct (IH (next (get h x))) as [l [P [ND [B [Cov Lv]]]]]; [lia|exact C1|].
      exists (x :: l). split; [constructor; assumption|]. split; [|split; [|split]].
      * constructor; [|exact ND]. intros Hin. specialize (B x Hin). lia.
      * intros y [Hy|Hy]; [subst y; lia|]. specialize (B y Hy). lia.
      * intros e He Hu. destruct (Nat.eq_dec (st e) (st x)) as [Ee|Ee].
        -- left. apply (G_inj _ _ _ _ _ _ G); [symmetry; exact Ee|lia].
        -- right. destruct (Nat.le_gt_cases (st e) (st (next (get h x)))) as [L|L].
           ++ apply Cov; [lia|exact Hu].
           ++ assert (Hu' : u e = true) by (apply C3; lia). congruence.
      * intros Hl y [Hy|Hy].
        -- subst y. destruct Hl as [Hl|Hl]; [contradiction|exact Hl].
        -- apply Lv; [|exact Hy]. right. apply C4. right.
           destruct Hl as [Hl|Hl]; [contradiction|exact Hl].
Qed.

(* The physical chain from the head is finite and acyclic, contains every
   inserted entry that is not marked, and contains no unlinked entry. *)
Theorem chain_shape s g :
  Inv s g ->
  exists l, path (heap s) (head s) l /\ NoDup l /\
            (forall e, inserted s e -> mark (get (heap s) e) = false -> In e l) /\
            (forall y, In y l -> inserted s y /\ unl g y = false).
Proof.
  intros Hinv. pose proof (I_G _ _ Hinv) as G.
  pose proof (G_chain _ _ _ _ _ _ G 0 (or_introl eq_refl)) as C. unfold chain_at in C.
  change (pv (heap s) (head s) 0) with (head s) in C.
  change (pst (stamp g) (nins g) 0) with (S (nins g)) in C.
  destruct C as [C1 [C2 [C3 C4]]].
  destruct (chain_from _ _ _ _ _ _ G (stamp g (head s)) (head s) (le_n _) C1)
    as [l [P [ND [B [Cov Lv]]]]].
  exists l. split; [exact P|split; [exact ND|split]].
  - intros e He Hm. apply (inserted_stamp _ _ _ Hinv) in He.
    pose proof (G_unmarked_live _ _ _ _ _ _ e G Hm) as Hu.
    apply Cov; [|exact Hu].
    destruct (Nat.le_gt_cases (stamp g e) (stamp g (head s))) as [L|L]; [lia|].
    assert (Hu' : unl g e = true). { apply C3. pose proof (G_le _ _ _ _ _ _ G e). lia. }
    congruence.
  - intros y Hy. split.
    + apply (inserted_stamp _ _ _ Hinv). specialize (B y Hy). lia.
    + apply Lv; [|exact Hy]. right. apply C4. left. reflexivity.
Qed.

Corollary chain_shape_reachable prog sched :
  let s := run (init prog) sched in
  exists l, path (heap s) (head s) l /\ NoDup l /\
            (forall e, inserted s e -> mark (get (heap s) e) = false -> In e l) /\
            (forall y, In y l -> inserted s y).
Proof.
  intros s. destruct (reachable_Inv prog sched) as [g Hinv]. fold s in Hinv.
  destruct (chain_shape s g Hinv) as [l [P [ND [A B]]]].
  exists l. repeat split; try assumption. intros y Hy. apply (B y Hy).
Qed.

(* From the entries a traversal stands on (its curr and the owner of its
   pred), every older unmarked entry is reachable by following [next]. *)
Theorem trav_position_reach s g t th x :
  Inv s g -> nth_error (threads s) t = Some th ->
  (exists pred c acc, tpc th = P54 pred c acc /\ (x = c \/ (x = pred /\ pred <> 0))) \/
  (exists pred c succ acc, tpc th = P55 pred c succ acc /\ (x = c \/ (x = pred /\ pred <> 0))) ->
  (stamp g x > 0)%nat /\
  exists l, path (heap s) x l /\ NoDup l /\
            (forall e, (0 < stamp g e <= stamp g x)%nat -> mark (get (heap s) e) = false -> In e l).
Proof.
  intros Hinv Hth Hpc. pose proof (I_G _ _ Hinv) as G.
  pose proof (I_T _ _ Hinv t th Hth) as Hp.
  assert (Hx : (stamp g x > 0)%nat).
  { destruct Hpc as [[pred [c [acc [E Hx]]]]|[pred [c [succ [acc [E Hx]]]]]];
      rewrite E in Hp; cbn [pcinv] in Hp.
    - destruct Hp as [[T1 [T2 _]] Hc]. destruct Hx as [Hx|[Hx Hx']]; subst x.
      + destruct T1; [contradiction|assumption].
      + destruct T2; [contradiction|assumption].
    - destruct Hp as [[T1 [T2 _]] [Hc _]]. destruct Hx as [Hx|[Hx Hx']]; subst x.
      + destruct T1; [contradiction|assumption].
      + destruct T2; [contradiction|assumption]. }
  split; [exact Hx|].
  destruct (chain_from _ _ _ _ _ _ G (stamp g x) x (le_n _) (or_intror Hx))
    as [l [P [ND [B [Cov Lv]]]]].
  exists l. split; [exact P|split; [exact ND|]].
  intros e He Hm. apply Cov; [exact He|]. apply (G_unmarked_live _ _ _ _ _ _ e G Hm).
Qed.

(* ================================================================== *)
(** * 9. Effect of one step on the shared words *)

Ltac destr_step H :=
  repeat (match type of H with
          | context [match ?x with _ => _ end] => destruct x eqn:?
          end; try discriminate H).

(* marks are monotone; user ids never change; entries are never deallocated *)
Theorem step_heap_facts s t s' o :
  step s t = Some (s', o) ->
  (forall x, mark (get (heap s) x) = true -> mark (get (heap s') x) = true) /\
  (forall x, 1 <= x <= Z.of_nat (length (heap s)) -> uid (get (heap s') x) = uid (get (heap s) x)) /\
  (length (heap s) <= length (heap s'))%nat.
Proof.
  intros Hstep. unfold step in Hstep. cbv zeta in Hstep. destr_step Hstep;
    injection Hstep as Hs Ho; subst s' o; cbn [heap];
    (split; [|split]);
    try (intros x Hx; first [ exact Hx | reflexivity
                            | rewrite mark_upd_next; exact Hx
                            | apply uid_upd_next
                            | apply mark_upd_mark_mono; exact Hx
                            | apply uid_upd_mark ]);
    try (rewrite ?length_upd; lia).
  - intros x Hx. destruct (Z_lt_le_dec (Z.of_nat (length (heap s))) x) as [L|L].
    + rewrite get_overflow in Hx by exact L. discriminate.
    + rewrite get_app_old by lia. exact Hx.
  - intros x Hx. rewrite get_app_old by lia. reflexivity.
  - rewrite app_length. lia.
Qed.

Corollary marks_monotone s t s' o x :
  step s t = Some (s', o) -> mark (get (heap s) x) = true -> mark (get (heap s') x) = true.
Proof. intros H. apply (step_heap_facts _ _ _ _ H). Qed.

Definition pc_of (s : state) (t : nat) : option pc := option_map tpc (nth_error (threads s) t).

Lemma pv_frame h hd h' P :
  (P <> 0 -> next (get h' P) = next (get h P)) -> pv h' hd P = pv h hd P.
Proof.
  intros H. unfold pv. destruct (Z.eqb_spec P 0); [reflexivity|apply H; assumption].
Qed.

(* How the word [P] (the head if P = 0, else the next field of an inserted
   entry) can change in one step:
   - not at all; or
   - P is the head and a thread's CAS at site 51 installs its private entry e
     whose next is the old head (insertion happens only at the head); or
   - a thread's CAS at site 55 with pred = P redirects the word from c to
     next(c), where c is MARKED and P's owner is unmarked (an unmarked entry
     is never unlinked; next only skips marked successors). *)
Theorem step_word s g t s' o P :
  Inv s g -> step s t = Some (s', o) -> (P = 0 \/ (stamp g P > 0)%nat) ->
  pv (heap s') (head s') P = pv (heap s) (head s) P
  \/ (P = 0 /\ exists e, pc_of s t = Some (P51 e (head s)) /\ stamp g e = 0%nat /\
        head s' = e /\ next (get (heap s') e) = head s /\ heap s' = heap s)
  \/ (exists c succ acc, pc_of s t = Some (P55 P c succ acc) /\
        pv (heap s) (head s) P = c /\ mark (get (heap s) c) = true /\
        (P <> 0 -> mark (get (heap s) P) = false) /\
        pv (heap s') (head s') P = next (get (heap s) c)).
Proof.
  intros Hinv Hstep HP.
  pose proof (I_G _ _ Hinv) as G. pose proof (G_fresh _ _ _ _ _ _ G) as Hf.
  assert (HPv : P <> 0 -> 1 <= P < fresh s).
  { intros HP0. destruct HP as [HP|HP]; [contradiction|]. apply (G_valid _ _ _ _ _ _ G). exact HP. }
  unfold step in Hstep. unfold pc_of.
  destruct (nth_error (threads s) t) as [th|] eqn:Hth; [|discriminate].
  pose proof (I_T _ _ Hinv t th Hth) as Hpc0. cbn [option_map].
  cbv zeta in Hstep. unfold set_thread in Hstep.
  destruct (tpc th) eqn:Hpc.
  - injection Hstep as Hs Ho; subst s' o. left. reflexivity.
  - destruct (tops th) as [|[id|k|] r] eqn:Hops.
    + injection Hstep as Hs Ho; subst s' o. left. reflexivity.
    + injection Hstep as Hs Ho; subst s' o. left. cbn [heap head]. apply pv_frame.
      intros HP0. rewrite get_app_old; [reflexivity|]. specialize (HPv HP0). lia.
    + destr_step Hstep. injection Hstep as Hs Ho; subst s' o. left. reflexivity.
    + injection Hstep as Hs Ho; subst s' o. left. reflexivity.
  - injection Hstep as Hs Ho; subst s' o. left. cbn [heap head]. apply pv_frame.
    intros HP0. apply next_upd_next_other. intros E. subst e.
    cbn [pcinv] in Hpc0. destruct HP as [HP|HP]; [contradiction|lia].
  - cbn [pcinv] in Hpc0. destruct Hpc0 as [He [Hv Hn]].
    destruct (Z.eqb_spec (head s) nxt) as [Ehd|Ehd].
    + injection Hstep as Hs Ho; subst s' o. cbn [heap head].
      destruct (Z.eq_dec P 0) as [EP|EP].
      * right. left. split; [exact EP|]. exists e. rewrite Ehd.
        repeat split; try assumption; try reflexivity.
      * left. unfold pv. destruct (Z.eqb_spec P 0); [contradiction|reflexivity].
    + injection Hstep as Hs Ho; subst s' o. left. cbn [heap head]. apply pv_frame.
      intros HP0. apply next_upd_next_other. intros E. subst e.
      destruct HP as [HP|HP]; [contradiction|lia].
  - injection Hstep as Hs Ho; subst s' o. left. cbn [heap head]. apply pv_frame.
    intros _. apply next_upd_mark.
  - destr_step Hstep. injection Hstep as Hs Ho; subst s' o. left. reflexivity.
  - destr_step Hstep; injection Hstep as Hs Ho; subst s' o; left; reflexivity.
  - cbn [pcinv] in Hpc0. destruct Hpc0 as [T [Hc [Hm Hn]]].
    destruct ((pred_val s pred =? curr) && negb (pred_tag s pred)) eqn:Hcas.
    + destruct (cas55_cond _ _ _ Hcas) as [Hpv Hpm].
      destruct (trav_continue pred succ acc) as [p o'].
      injection Hstep as Hs Ho; subst s' o. cbn [heap head].
      destruct (Z.eq_dec P pred) as [EP|EP].
      * subst P. right. right. exists curr, succ, acc.
        split; [reflexivity|split; [exact Hpv|split; [exact Hm|split; [exact Hpm|]]]].
        rewrite Hn. unfold pv. destruct (Z.eqb_spec pred 0) as [E|E]; [reflexivity|].
        apply next_upd_next_same. specialize (HPv E). lia.
      * left. unfold pv.
        destruct (Z.eqb_spec P 0) as [E|E]; destruct (Z.eqb_spec pred 0) as [E'|E']; try reflexivity.
        -- congruence.
        -- apply next_upd_next_other. exact EP.
    + destr_step Hstep; injection Hstep as Hs Ho; subst s' o; left; reflexivity.
  - injection Hstep as Hs Ho; subst s' o. left. reflexivity.
  - discriminate.
Qed.

(* Insertion only at the head (ghost-free): if an entry becomes inserted in a
   step, it is the new head, its next is the old head, and no other word of
   the heap changed. *)
Theorem insert_only_at_head prog sched t s' o e :
  let s := run (init prog) sched in
  step s t = Some (s', o) -> ~ inserted s e -> inserted s' e ->
  head s' = e /\ next (get (heap s') e) = head s /\ heap s' = heap s /\
  o = [51; e; head s; 2000; 0; 0].
Proof.
  intros s Hstep Hn Hi.
  destruct (reachable_Inv prog sched) as [g Hinv]. fold s in Hinv.
  pose proof (Inv_step _ _ _ _ _ Hinv Hstep) as Hinv'.
  rewrite (inserted_stamp _ _ _ Hinv) in Hn. rewrite (inserted_stamp _ _ _ Hinv') in Hi.
  assert (He : stamp g e = 0%nat) by lia. clear Hn.
  pose proof (I_G _ _ Hinv) as G.
  unfold gnext in Hi. unfold step in Hstep.
  destruct (nth_error (threads s) t) as [th|] eqn:Hth; [|discriminate].
  pose proof (I_T _ _ Hinv t th Hth) as Hpc0.
  cbv zeta in Hstep.
  destruct (tpc th) eqn:Hpc; try (exfalso; lia).
  - cbn [pcinv] in Hpc0. destruct Hpc0 as [He0 [Hv Hnx]].
    destruct (Z.eqb_spec (head s) nxt) as [Ehd|Ehd]; [|exfalso; lia].
    cbn [stamp] in Hi.
    assert (e0 = e).
    { destruct (Z.eq_dec e e0) as [E|E]; [symmetry; exact E|].
      rewrite (st_ins_other _ _ _ _ E) in Hi. lia. }
    subst e0. injection Hstep as Hs Ho; subst s' o. cbn [heap head].
    rewrite Ehd. repeat split; try reflexivity. exact Hnx.
  - cbn [g_set_trav stamp] in Hi. exfalso; lia.
  - destruct (mark (get (heap s) curr)); cbn [g_set_trav stamp] in Hi; exfalso; lia.
  - destruct ((pred_val s pred =? curr) && negb (pred_tag s pred)); cbn [stamp] in Hi; exfalso; lia.
Qed.

(* ================================================================== *)
(** * 10. C18_unlink_once *)

(* the [a] fields of the observation triples [site a b] with site = k *)
Fixpoint sites (k : Z) (o : list Z) : list Z :=
  match o with
  | site :: a :: b :: r => if site =? k then a :: sites k r else sites k r
  | _ => []
  end.

(* entries whose unlink CAS (site 55) succeeded in a step with observations o:
   observation [1255 entry 0] *)
Definition finalized (o : list Z) : list Z := sites 1255 o.
(* user ids passed to [finalize]: observation [1256 uid 0] *)
Definition finalize_calls (o : list Z) : list Z := sites 1256 o.

(* the entry that thread t's step from s unlinks, if any *)
Definition unlink_of (s : state) (t : nat) : option Z :=
  match nth_error (threads s) t with
  | Some th =>
    match tpc th with
    | P55 pred c succ acc =>
      if (pred_val s pred =? c) && negb (pred_tag s pred) then Some c else None
    | _ => None
    end
  | None => None
  end.

Lemma sites_result k ok acc : k < 2000 -> sites k (result ok acc) = [].
Proof.
  intros Hk. unfold result. cbn [sites].
  destruct (Z.eqb_spec 2002 k) as [E|E]; [lia|].
  induction acc as [|u r IH]; cbn [flat_map app sites]; [reflexivity|].
  destruct (Z.eqb_spec 2003 k) as [E'|E']; [lia|exact IH].
Qed.

Lemma sites_cont k pred c acc p o :
  trav_continue pred c acc = (p, o) -> k < 2000 -> sites k o = [].
Proof.
  intros H Hk. unfold trav_continue in H. destruct (c =? 0); inversion H; subst.
  - apply sites_result. exact Hk.
  - reflexivity.
Qed.

Lemma step_sites s t s' o :
  step s t = Some (s', o) ->
  finalized o = match unlink_of s t with Some c => [c] | None => [] end /\
  finalize_calls o = map (fun c => uid (get (heap s) c)) (finalized o).
Proof.
  intros Hstep. unfold finalized, finalize_calls, unlink_of.
  unfold step in Hstep. cbv zeta in Hstep.
  destruct (nth_error (threads s) t) as [th|]; [|discriminate].
  destruct (tpc th) eqn:Hpc.
  - injection Hstep as Hs Ho; subst s' o. split; reflexivity.
  - destr_step Hstep; injection Hstep as Hs Ho; subst s' o; split; reflexivity.
  - injection Hstep as Hs Ho; subst s' o. split; reflexivity.
  - destr_step Hstep; injection Hstep as Hs Ho; subst s' o; split; reflexivity.
  - injection Hstep as Hs Ho; subst s' o. split; reflexivity.
  - destruct (trav_continue 0 (head s) []) as [p o'] eqn:Htc.
    injection Hstep as Hs Ho; subst s' o. cbn [app sites Z.eqb Pos.eqb].
    rewrite !(fun k => sites_cont k _ _ _ _ _ Htc) by lia. split; reflexivity.
  - destruct (mark (get (heap s) curr)).
    + injection Hstep as Hs Ho; subst s' o. split; reflexivity.
    + destruct (trav_continue curr _ _) as [p o'] eqn:Htc.
      injection Hstep as Hs Ho; subst s' o. cbn [app sites Z.eqb Pos.eqb].
      rewrite !(fun k => sites_cont k _ _ _ _ _ Htc) by lia. split; reflexivity.
  - destruct ((pred_val s pred =? curr) && negb (pred_tag s pred)).
    + destruct (trav_continue pred succ acc) as [p o'] eqn:Htc.
      injection Hstep as Hs Ho; subst s' o. cbn [app sites Z.eqb Pos.eqb].
      rewrite !(fun k => sites_cont k _ _ _ _ _ Htc) by lia. split; reflexivity.
    + destruct (pred_tag s pred).
      * injection Hstep as Hs Ho; subst s' o. split; reflexivity.
      * destruct (trav_continue pred _ acc) as [p o'] eqn:Htc.
        injection Hstep as Hs Ho; subst s' o. cbn [app sites Z.eqb Pos.eqb].
        rewrite !(fun k => sites_cont k _ _ _ _ _ Htc) by lia. split; reflexivity.
  - injection Hstep as Hs Ho; subst s' o. cbn [app sites Z.eqb Pos.eqb].
    rewrite !sites_result by lia. split; reflexivity.
  - discriminate.
Qed.

Lemma unlink_of_facts s g t c :
  Inv s g -> unlink_of s t = Some c ->
  unl g c = false /\ mark (get (heap s) c) = true /\ (stamp g c > 0)%nat /\
  unl (gnext s g t) c = true.
Proof.
  intros Hinv H. pose proof (I_G _ _ Hinv) as G.
  unfold unlink_of in H. unfold gnext.
  destruct (nth_error (threads s) t) as [th|] eqn:Hth; [|discriminate].
  pose proof (I_T _ _ Hinv t th Hth) as Hp.
  destruct (tpc th) eqn:Hpc; try discriminate.
  destruct ((pred_val s pred =? curr) && negb (pred_tag s pred)) eqn:Hcas; [|discriminate].
  inversion H; subst c. cbn [pcinv] in Hp. destruct Hp as [T [Hc [Hm Hn]]].
  destruct (cas55_cond _ _ _ Hcas) as [Hpv Hpm].
  destruct T as [T1 [T2 _]].
  assert (Hlive : pred = 0 \/ unl g pred = false).
  { destruct (Z.eq_dec pred 0) as [E|E]; [left; exact E|right].
    apply (G_unmarked_live _ _ _ _ _ _ pred G). apply Hpm. exact E. }
  pose proof (G_chain _ _ _ _ _ _ G pred T2) as C. unfold chain_at in C.
  rewrite Hpv in C. destruct C as [_ [_ [_ C4]]].
  split; [apply C4; exact Hlive|]. split; [exact Hm|]. split.
  - destruct T1; [contradiction|assumption].
  - cbn [unl]. apply u_set_same.
Qed.

Lemma gnext_unl_mono s g t x : unl g x = true -> unl (gnext s g t) x = true.
Proof.
  intros H. unfold gnext.
  destruct (nth_error (threads s) t) as [th|]; [|exact H].
  destruct (tpc th); try exact H.
  - destruct (head s =? nxt); exact H.
  - destruct (mark (get (heap s) curr)); exact H.
  - destruct ((pred_val s pred =? curr) && negb (pred_tag s pred)); [|exact H].
    cbn [unl]. apply u_set_mono. exact H.
Qed.

Lemma unlink_once_gen sched : forall s g,
  Inv s g ->
  NoDup (flat_map finalized (replay_from s sched)) /\
  forall c, In c (flat_map finalized (replay_from s sched)) -> unl g c = false.
Proof.
  induction sched as [|t r IH]; intros s g Hinv; cbn [replay_from].
  - split; [constructor|intros c []].
  - destruct (t <? 0).
    + cbn [flat_map]. change (finalized [-999]) with (@nil Z). cbn [app]. apply IH. exact Hinv.
    + destruct (step s (Z.to_nat t)) as [[s' o]|] eqn:Hstep.
      * cbn [flat_map]. destruct (step_sites _ _ _ _ Hstep) as [Hf _]. rewrite Hf.
        pose proof (Inv_step _ _ _ _ _ Hinv Hstep) as Hinv'.
        destruct (IH s' _ Hinv') as [ND Hu].
        destruct (unlink_of s (Z.to_nat t)) as [c|] eqn:Hun.
        -- destruct (unlink_of_facts _ _ _ _ Hinv Hun) as [U0 [_ [_ U1]]].
           cbn [app]. split.
           ++ constructor; [|exact ND]. intros Hin. apply Hu in Hin. congruence.
           ++ intros c' [E|Hin]; [subst c'; exact U0|].
              destruct (unl g c') eqn:E; [|reflexivity].
              apply (gnext_unl_mono s g (Z.to_nat t)) in E. rewrite (Hu c' Hin) in E. discriminate.
        -- cbn [app]. split; [exact ND|]. intros c' Hin.
           destruct (unl g c') eqn:E; [|reflexivity].
           apply (gnext_unl_mono s g (Z.to_nat t)) in E. rewrite (Hu c' Hin) in E. discriminate.
      * cbn [flat_map]. change (finalized [-999]) with (@nil Z). cbn [app]. apply IH. exact Hinv.
Qed.

(* For every program and every schedule: over the whole run, each entry is
   unlinked by at most one successful CAS at site 55 (observation 1255). *)
Theorem C18_unlink_once prog sched :
  NoDup (flat_map finalized (replay prog sched)).
Proof.
  unfold replay. apply (unlink_once_gen sched (init prog) ginit). apply Inv_init.
Qed.

(* In every step, the calls of [finalize] (observation 1256) are exactly the
   user ids of the entries unlinked in that step: finalize is called once per
   successful unlink CAS and never otherwise. *)
Theorem C18_finalize_calls s t s' o :
  step s t = Some (s', o) ->
  finalize_calls o = map (fun c => uid (get (heap s) c)) (finalized o) /\
  (length (finalized o) <= 1)%nat.
Proof.
  intros Hstep. destruct (step_sites _ _ _ _ Hstep) as [A B]. split; [exact B|].
  rewrite A. destruct (unlink_of s t); cbn [length]; lia.
Qed.

(* Only marked, inserted entries are unlinked, and only out of the word of an
   unmarked predecessor (or the head). *)
Theorem C18_unlink_marked prog sched t s' o c :
  let s := run (init prog) sched in
  step s t = Some (s', o) -> In c (finalized o) ->
  mark (get (heap s) c) = true /\ inserted s c.
Proof.
  intros s Hstep Hin.
  destruct (reachable_Inv prog sched) as [g Hinv]. fold s in Hinv.
  destruct (step_sites _ _ _ _ Hstep) as [A _]. rewrite A in Hin.
  destruct (unlink_of s t) as [c'|] eqn:Hun; [|destruct Hin].
  destruct Hin as [E|[]]. subst c'.
  destruct (unlink_of_facts _ _ _ _ Hinv Hun) as [_ [M [S _]]].
  split; [exact M|]. apply (inserted_stamp _ _ _ Hinv). exact S.
Qed.

(* ================================================================== *)
(** * 11. C18_complete_scan and C18_no_dup *)

(* pcs of a traversal that can still return Ok *)
Definition trav_pc (p : pc) : bool :=
  match p with P53 | P54 _ _ _ | P55 _ _ _ _ => true | _ => false end.
(* ... that has already executed site 53 *)
Definition in_trav (p : pc) : bool :=
  match p with P54 _ _ _ | P55 _ _ _ _ => true | _ => false end.

Lemma cont_finish pred c acc p o :
  trav_continue pred c acc = (p, o) -> p = POp -> c = 0 /\ o = result 1 acc.
Proof.
  unfold trav_continue. destruct (Z.eqb_spec c 0) as [E|E]; intros H Hp; inversion H; subst.
  - split; reflexivity.
  - discriminate.
Qed.

Lemma travweak_end_facts h hd fr st n u sn aE pred acc :
  GInv h hd fr st n u ->
  travweak h st n sn aE pred 0 acc ->
  acc = map (fun e => uid (get h e)) aE /\ NoDup aE /\
  (forall a, In a aE -> (st a > 0)%nat) /\
  (forall e, (0 < st e <= sn)%nat -> mark (get h e) = true \/ In e aE).
Proof.
  intros G T. pose proof (trav_end _ _ _ _ _ _ _ _ _ _ G T) as Hend.
  destruct T as [T1 [T2 [T3 [T4 [T5 [T6 [T7 T8]]]]]]].
  split; [exact T4|split; [exact T7|split; [|exact Hend]]].
  intros a Ha. destruct (T8 a Ha) as [Hp Hle]. destruct T2 as [T2|T2]; [contradiction|lia].
Qed.

(* The step in which a traversal returns Ok: its result lists (the uids of) a
   duplicate-free list of entries containing every entry inserted before the
   traversal's site 53 that is not marked now. *)
Lemma trav_finish s g t th s' o th' :
  Inv s g -> nth_error (threads s) t = Some th -> trav_pc (tpc th) = true ->
  step s t = Some (s', o) -> nth_error (threads s') t = Some th' -> tpc th' = POp ->
  exists pre aE sn,
    sites 2002 pre = [] /\
    o = pre ++ result 1 (map (fun e => uid (get (heap s) e)) aE) /\ NoDup aE /\
    (forall a, In a aE -> (stamp g a > 0)%nat) /\
    (forall e, (0 < stamp g e <= sn)%nat -> mark (get (heap s) e) = true \/ In e aE) /\
    (tpc th = P53 -> sn = nins g) /\ (in_trav (tpc th) = true -> sn = snap g t).
Proof.
  intros Hinv Hth Htp Hstep Hth' Hpc'.
  pose proof (I_G _ _ Hinv) as G.
  pose proof (I_T _ _ Hinv t th Hth) as Hp.
  unfold step in Hstep. rewrite Hth in Hstep. cbv zeta in Hstep. unfold set_thread in Hstep.
  assert (Hnew : forall h' hd' fr' p ops mine,
             s' = mkS h' hd' (upd_nth (threads s) t (fun _ => mkT p ops mine)) fr' -> p = POp).
  { intros h' hd' fr' p ops mine E. rewrite E in Hth'. cbn [threads] in Hth'.
    rewrite nth_error_upd_nth, Nat.eqb_refl, Hth in Hth'. cbn [option_map] in Hth'.
    inversion Hth'; subst th'. exact Hpc'. }
  destruct (tpc th) eqn:Hpc; try discriminate Htp.
  - (* P53 *)
    destruct (trav_continue 0 (head s) []) as [p o'] eqn:Htc.
    injection Hstep as Hs Ho. symmetry in Hs. apply Hnew in Hs.
    destruct (cont_finish _ _ _ _ _ Htc Hs) as [Hc Ho'].
    pose proof (trav_start _ _ _ _ _ _ G) as T. rewrite Hc in T.
    destruct (travweak_end_facts _ _ _ _ _ _ _ _ _ _ G T) as [A [B [C D]]].
    exists [53; 0; 0], [], (nins g). subst o o'. cbn [map].
    split; [reflexivity|split; [reflexivity|split; [exact B|split; [exact C|split; [exact D|split]]]]].
    + reflexivity.
    + intros; discriminate.
  - (* P54 *)
    cbn [pcinv] in Hp. destruct Hp as [T Hc].
    destruct (mark (get (heap s) curr)) eqn:Hm.
    + injection Hstep as Hs Ho. symmetry in Hs. apply Hnew in Hs. discriminate.
    + destruct (trav_continue curr (next (get (heap s) curr)) (acc ++ [uid (get (heap s) curr)]))
        as [p o'] eqn:Htc.
      injection Hstep as Hs Ho. symmetry in Hs. apply Hnew in Hs.
      destruct (cont_finish _ _ _ _ _ Htc Hs) as [Hn Ho'].
      pose proof (trav_advance _ _ _ _ _ _ _ _ _ _ _ G T Hc) as T'. rewrite Hn in T'.
      destruct (travweak_end_facts _ _ _ _ _ _ _ _ _ _ G T') as [A [B [C D]]].
      exists [54; curr; 0; 1254; next (get (heap s) curr); 0], (accE g t ++ [curr]), (snap g t).
      subst o o'. rewrite <- A.
      split; [reflexivity|split; [reflexivity|split; [exact B|split; [exact C|split; [exact D|split]]]]].
      * intros; discriminate.
      * reflexivity.
  - (* P55 *)
    cbn [pcinv] in Hp. destruct Hp as [T [Hc [Hm Hn]]].
    destruct ((pred_val s pred =? curr) && negb (pred_tag s pred)) eqn:Hcas.
    + destruct (trav_continue pred succ acc) as [p o'] eqn:Htc.
      injection Hstep as Hs Ho. symmetry in Hs. apply Hnew in Hs.
      destruct (cont_finish _ _ _ _ _ Htc Hs) as [Hsu Ho'].
      pose proof (trav_skip _ _ _ _ _ _ _ _ _ _ _ G T Hc Hm) as T'. rewrite Hn, Hsu in T'.
      destruct (travweak_end_facts _ _ _ _ _ _ _ _ _ _ G T') as [A [B [C D]]].
      exists [55; curr; succ; 1255; curr; 0; 1256; uid (get (heap s) curr); 0], (accE g t), (snap g t).
      subst o o'. rewrite <- A.
      split; [reflexivity|split; [reflexivity|split; [exact B|split; [exact C|split; [exact D|split]]]]].
      * intros; discriminate.
      * reflexivity.
    + destruct (pred_tag s pred) eqn:Htag.
      * injection Hstep as Hs Ho. symmetry in Hs. apply Hnew in Hs. discriminate.
      * destruct (trav_continue pred (pred_val s pred) acc) as [p o'] eqn:Htc.
        injection Hstep as Hs Ho. symmetry in Hs. apply Hnew in Hs.
        destruct (cont_finish _ _ _ _ _ Htc Hs) as [Hv Ho'].
        pose proof (trav_reload _ _ _ _ _ _ _ _ _ _ _ G T) as T'.
        change (pv (heap s) (head s) pred) with (pred_val s pred) in T'. rewrite Hv in T'.
        destruct (travweak_end_facts _ _ _ _ _ _ _ _ _ _ G T') as [A [B [C D]]].
        exists [55; curr; succ], (accE g t), (snap g t).
        subst o o'. rewrite <- A.
        split; [reflexivity|split; [reflexivity|split; [exact B|split; [exact C|split; [exact D|split]]]]].
        -- intros; discriminate.
        -- reflexivity.
Qed.

(* history invariant: once n0 entries have been inserted while thread t was
   outside a traversal, every later traversal of t has a snapshot >= n0 *)
Definition SB (n0 : nat) (t : nat) (s : state) (g : ghost) : Prop :=
  (n0 <= nins g)%nat /\
  forall th, nth_error (threads s) t = Some th -> in_trav (tpc th) = true -> (n0 <= snap g t)%nat.

Lemma SB_step n0 t s g u s' o :
  step s u = Some (s', o) -> SB n0 t s g -> SB n0 t s' (gnext s g u).
Proof.
  intros Hstep [Hn Hs].
  unfold step in Hstep. unfold gnext.
  destruct (nth_error (threads s) u) as [thu|] eqn:Hu; [|discriminate].
  cbv zeta in Hstep. unfold set_thread in Hstep.
  assert (Hgen : forall g' h' hd' fr' p ops mine,
     (n0 <= nins g')%nat ->
     (forall t', t' <> u -> snap g' t' = snap g t') ->
     (in_trav p = true -> u = t -> (n0 <= snap g' u)%nat) ->
     SB n0 t (mkS h' hd' (upd_nth (threads s) u (fun _ => mkT p ops mine)) fr') g').
  { intros g' h' hd' fr' p ops mine H1 H2 H3. split; [exact H1|].
    intros th Hth Hit. cbn [threads] in Hth. rewrite nth_error_upd_nth in Hth.
    destruct (Nat.eqb_spec t u) as [E|E].
    - subst t. rewrite Hu in Hth. cbn [option_map] in Hth. inversion Hth; subst th.
      cbn [tpc] in Hit. apply H3; [exact Hit|reflexivity].
    - rewrite (H2 t E). apply (Hs th Hth Hit). }
  assert (Hold : in_trav (tpc thu) = true -> u = t -> (n0 <= snap g u)%nat).
  { intros Hit E. subst u. apply (Hs thu Hu Hit). }
  destruct (tpc thu) eqn:Hpc.
  - injection Hstep as Hs' Ho; subst s' o.
    apply Hgen; [exact Hn|reflexivity|intros H; discriminate H].
  - destr_step Hstep; injection Hstep as Hs' Ho; subst s' o;
      (apply Hgen; [exact Hn|reflexivity|intros H; discriminate H]).
  - injection Hstep as Hs' Ho; subst s' o.
    apply Hgen; [exact Hn|reflexivity|intros H; discriminate H].
  - destruct (head s =? nxt); injection Hstep as Hs' Ho; subst s' o.
    + apply Hgen; [cbn [nins]; lia|reflexivity|intros H; discriminate H].
    + apply Hgen; [exact Hn|reflexivity|intros H; discriminate H].
  - injection Hstep as Hs' Ho; subst s' o.
    apply Hgen; [exact Hn|reflexivity|intros H; discriminate H].
  - destruct (trav_continue 0 (head s) []) as [p o'].
    injection Hstep as Hs' Ho; subst s' o.
    apply Hgen.
    + exact Hn.
    + intros t' Ht'. apply (g_set_trav_other g u (nins g) [] t' Ht').
    + intros _ _. rewrite g_set_trav_snap. exact Hn.
  - destruct (mark (get (heap s) curr)).
    + injection Hstep as Hs' Ho; subst s' o.
      apply Hgen; [exact Hn|reflexivity|]. intros _ E. apply Hold; [reflexivity|exact E].
    + destruct (trav_continue curr _ _) as [p o'].
      injection Hstep as Hs' Ho; subst s' o.
      apply Hgen.
      * exact Hn.
      * intros t' Ht'. apply (g_set_trav_other g u (snap g u) _ t' Ht').
      * intros _ E. rewrite g_set_trav_snap. apply Hold; [reflexivity|exact E].
  - destruct ((pred_val s pred =? curr) && negb (pred_tag s pred)).
    + destruct (trav_continue pred succ acc) as [p o'].
      injection Hstep as Hs' Ho; subst s' o.
      apply Hgen; [exact Hn|reflexivity|]. intros _ E. cbn [snap]. apply Hold; [reflexivity|exact E].
    + destruct (pred_tag s pred).
      * injection Hstep as Hs' Ho; subst s' o.
        apply Hgen; [exact Hn|reflexivity|intros H; discriminate H].
      * destruct (trav_continue pred _ acc) as [p o'].
        injection Hstep as Hs' Ho; subst s' o.
        apply Hgen; [exact Hn|reflexivity|]. intros _ E. apply Hold; [reflexivity|exact E].
  - injection Hstep as Hs' Ho; subst s' o.
    apply Hgen; [exact Hn|reflexivity|intros H; discriminate H].
  - discriminate.
Qed.

(* stamps of inserted entries never change *)
Lemma stamp_stable_step s g u s' o e :
  Inv s g -> step s u = Some (s', o) -> (stamp g e > 0)%nat -> stamp (gnext s g u) e = stamp g e.
Proof.
  intros Hinv Hstep He. unfold gnext. unfold step in Hstep.
  destruct (nth_error (threads s) u) as [thu|] eqn:Hu; [|reflexivity].
  pose proof (I_T _ _ Hinv u thu Hu) as Hp.
  destruct (tpc thu) eqn:Hpc; try reflexivity.
  - destruct (head s =? nxt); [|reflexivity]. cbn [stamp pcinv] in *.
    apply st_ins_other. intros E. subst e0. lia.
  - destruct (mark (get (heap s) curr)); reflexivity.
  - destruct ((pred_val s pred =? curr) && negb (pred_tag s pred)); reflexivity.
Qed.

Lemma grun_SB n0 t e : forall sched s g,
  Inv s g -> SB n0 t s g -> (stamp g e > 0)%nat ->
  SB n0 t (fst (grun s g sched)) (snd (grun s g sched)) /\
  stamp (snd (grun s g sched)) e = stamp g e.
Proof.
  induction sched as [|u r IH]; intros s g Hinv Hsb He; cbn [grun].
  - split; [exact Hsb|reflexivity].
  - destruct (step s u) as [[s' o]|] eqn:Hstep.
    + pose proof (stamp_stable_step _ _ _ _ _ _ Hinv Hstep He) as Hst.
      destruct (IH s' (gnext s g u)) as [A B].
      * eapply Inv_step; eassumption.
      * eapply SB_step; eassumption.
      * lia.
      * split; [exact A|]. rewrite B. exact Hst.
    + apply IH; assumption.
Qed.

(** C18_complete_scan.
    Let s0 be any reachable state in which thread t is not inside a traversal
    (in particular: t is about to execute site 53), and let e be an entry whose
    insert has completed in s0 (its CAS at site 51 succeeded).  After any
    further interleaving leading to s1, if the step of t from s1 is the last
    step of a traversal returning Ok (t stands at site 53/54/55 in s1 and is
    back at the operation boundary afterwards; a Stalled traversal ends at
    site 56 instead), and e is not marked in s1, then the result observation
    [2002 1 n 2003 u1 0 ...] of that step lists the user id of e. *)
Theorem C18_complete_scan prog sched0 sched1 t th0 th1 s2 o th2 e :
  let s0 := run (init prog) sched0 in
  let s1 := run s0 sched1 in
  nth_error (threads s0) t = Some th0 -> in_trav (tpc th0) = false ->
  inserted s0 e ->
  nth_error (threads s1) t = Some th1 -> trav_pc (tpc th1) = true ->
  step s1 t = Some (s2, o) ->
  nth_error (threads s2) t = Some th2 -> tpc th2 = POp ->
  mark (get (heap s1) e) = false ->
  exists pre acc, sites 2002 pre = [] /\ o = pre ++ result 1 acc /\
                  In (uid (get (heap s1) e)) acc.
Proof.
  intros s0 s1 Hth0 Hout Hins Hth1 Htp Hstep Hth2 Hpc2 Hm.
  set (g0 := snd (grun (init prog) ginit sched0)).
  assert (Hinv0 : Inv s0 g0).
  { unfold s0, g0. rewrite <- (grun_run _ ginit). apply Inv_grun. apply Inv_init. }
  set (g1 := snd (grun s0 g0 sched1)).
  assert (Hs1 : s1 = fst (grun s0 g0 sched1)) by (unfold s1; rewrite grun_run; reflexivity).
  assert (Hinv1 : Inv s1 g1). { rewrite Hs1. apply Inv_grun. exact Hinv0. }
  assert (He : (stamp g0 e > 0)%nat) by (apply (inserted_stamp _ _ _ Hinv0); exact Hins).
  assert (Hsb0 : SB (nins g0) t s0 g0).
  { split; [lia|]. intros th Hth Hit. rewrite Hth0 in Hth. inversion Hth; subst th. congruence. }
  destruct (grun_SB (nins g0) t e sched1 s0 g0 Hinv0 Hsb0 He) as [Hsb1 Hst1].
  rewrite <- Hs1 in Hsb1. fold g1 in Hsb1, Hst1.
  destruct (trav_finish _ _ _ _ _ _ _ Hinv1 Hth1 Htp Hstep Hth2 Hpc2)
    as [pre [aE [sn [Hpre [Ho [ND [Pos [Cov [S53 Sin]]]]]]]]].
  exists pre, (map (fun e => uid (get (heap s1) e)) aE). split; [exact Hpre|]. split; [exact Ho|].
  assert (Hsn : (nins g0 <= sn)%nat).
  { destruct Hsb1 as [Hn1 Hb1].
    destruct (tpc th1) eqn:Hpc1; try discriminate Htp.
    - rewrite (S53 eq_refl). exact Hn1.
    - rewrite (Sin eq_refl). apply (Hb1 th1 Hth1). rewrite Hpc1. reflexivity.
    - rewrite (Sin eq_refl). apply (Hb1 th1 Hth1). rewrite Hpc1. reflexivity. }
  pose proof (G_le _ _ _ _ _ _ (I_G _ _ Hinv0) e) as Hle.
  destruct (Cov e) as [A|A].
  - rewrite Hst1. lia.
  - congruence.
  - apply (in_map (fun e => uid (get (heap s1) e))). exact A.
Qed.

(** C18_no_dup.  The result of every traversal, whether it returns Ok
    (ok = 1) or Stalled (ok = 0, the step at site 56), is the list of user ids
    of a duplicate-free list of inserted entries: within one traversal (there
    is at most one restart per traversal operation, which ends it) no entry is
    reported twice. *)
Theorem C18_no_dup prog sched t th1 s2 o th2 :
  let s1 := run (init prog) sched in
  nth_error (threads s1) t = Some th1 ->
  (trav_pc (tpc th1) = true \/ exists acc, tpc th1 = P56 acc) ->
  step s1 t = Some (s2, o) ->
  nth_error (threads s2) t = Some th2 -> tpc th2 = POp ->
  exists pre ok ents,
    sites 2002 pre = [] /\
    o = pre ++ result ok (map (fun e => uid (get (heap s1) e)) ents) /\
    NoDup ents /\ (forall e, In e ents -> inserted s1 e).
Proof.
  intros s1 Hth1 Hpc1 Hstep Hth2 Hpc2.
  destruct (reachable_Inv prog sched) as [g Hinv]. fold s1 in Hinv.
  destruct Hpc1 as [Htp|[acc Hpc1]].
  - destruct (trav_finish _ _ _ _ _ _ _ Hinv Hth1 Htp Hstep Hth2 Hpc2)
      as [pre [aE [sn [Hpre [Ho [ND [Pos _]]]]]]].
    exists pre, 1, aE. split; [exact Hpre|]. split; [exact Ho|split; [exact ND|]].
    intros e He. apply (inserted_stamp _ _ _ Hinv). apply Pos. exact He.
  - pose proof (I_T _ _ Hinv t th1 Hth1) as Hp. rewrite Hpc1 in Hp. cbn [pcinv] in Hp.
    destruct Hp as [A [B C]].
    unfold step in Hstep. rewrite Hth1 in Hstep. cbv zeta in Hstep. rewrite Hpc1 in Hstep.
    injection Hstep as Hs Ho.
    exists [56; 0; 0], 0, (accE g t). rewrite <- A. split; [reflexivity|]. split; [symmetry; exact Ho|split; [exact B|]].
    intros e He. apply (inserted_stamp _ _ _ Hinv). apply C. exact He.
Qed.

(* ================================================================== *)
(** * 11b. Ghost-free corollaries about reachable states *)

(* once the insert of e has completed, it stays completed *)
Theorem inserted_stable prog sched t s' o e :
  let s := run (init prog) sched in
  step s t = Some (s', o) -> inserted s e -> inserted s' e.
Proof.
  intros s Hstep Hi.
  destruct (reachable_Inv prog sched) as [g Hinv]. fold s in Hinv.
  pose proof (Inv_step _ _ _ _ _ Hinv Hstep) as Hinv'.
  apply (inserted_stamp _ _ _ Hinv) in Hi. apply (inserted_stamp _ _ _ Hinv').
  rewrite (stamp_stable_step _ _ _ _ _ _ Hinv Hstep Hi). exact Hi.
Qed.

(* How a shared word P of the list (the head if P = 0, else the next field of
   an inserted entry P) can change in one step from a reachable state: *)
Theorem word_changes prog sched t s' o P :
  let s := run (init prog) sched in
  step s t = Some (s', o) -> (P = 0 \/ inserted s P) ->
  (* unchanged *)
  pv (heap s') (head s') P = pv (heap s) (head s) P
  (* insertion, only at the head: the new entry points to the old head *)
  \/ (P = 0 /\ exists e, pc_of s t = Some (P51 e (head s)) /\
        ~ inserted s e /\ inserted s' e /\
        head s' = e /\ next (get (heap s') e) = head s /\ heap s' = heap s)
  (* unlink: redirected from a MARKED inserted entry c to next(c), by a CAS
     whose pred is P, and P's owner is not marked *)
  \/ (exists c succ acc, pc_of s t = Some (P55 P c succ acc) /\
        pv (heap s) (head s) P = c /\ inserted s c /\ mark (get (heap s) c) = true /\
        (P <> 0 -> mark (get (heap s) P) = false) /\
        pv (heap s') (head s') P = next (get (heap s) c)).
Proof.
  intros s Hstep HP.
  destruct (reachable_Inv prog sched) as [g Hinv]. fold s in Hinv.
  pose proof (Inv_step _ _ _ _ _ Hinv Hstep) as Hinv'.
  assert (HP' : P = 0 \/ (stamp g P > 0)%nat).
  { destruct HP as [HP|HP]; [left; exact HP|right]. apply (inserted_stamp _ _ _ Hinv). exact HP. }
  destruct (step_word _ _ _ _ _ _ Hinv Hstep HP') as [A|[[EP [e [Hpc [He [H1 [H2 H3]]]]]]|B]].
  - left. exact A.
  - right. left. split; [exact EP|]. exists e.
    split; [exact Hpc|]. split; [|split; [|repeat split; assumption]].
    + rewrite (inserted_stamp _ _ _ Hinv). lia.
    + apply (inserted_stamp _ _ _ Hinv'). unfold gnext. unfold pc_of in Hpc.
      destruct (nth_error (threads s) t) as [th|]; [|discriminate].
      cbn [option_map] in Hpc. inversion Hpc as [Hpc']. rewrite Hpc'.
      rewrite Z.eqb_refl. cbn [stamp]. rewrite st_ins_same. lia.
  - right. right. destruct B as [c [succ [acc [Hpc [Hv [Hm [Hpm Hn]]]]]]].
    exists c, succ, acc. repeat split; try assumption.
    apply (inserted_stamp _ _ _ Hinv).
    pose proof (G_chain _ _ _ _ _ _ (I_G _ _ Hinv) P HP') as C. unfold chain_at in C.
    rewrite Hv in C. destruct C as [[C1|C1] _]; [|exact C1].
    rewrite C1 in Hm. change (get (heap s) 0) with dflt in Hm. discriminate.
Qed.

(* ================================================================== *)
(** * 12. Example: the hypotheses are satisfiable *)

(* First recorded case of `circ-verif-harness list --seed 7` (see tq7.txt):
   thread 1 inserts 1,2,3 (user ids = entry ids) and marks entry 1; thread 2
   then traverses, unlinks entry 1 (pred = entry 2) and returns Ok [3; 2]. *)
Definition ex_prog : list Z := [-1;2;2;-1;0;1;1;0;0;2;0;3;-1;2;0;4;2;2;2].
(* ... up to the point where thread 2 stands at site 53 of its first traversal *)
Definition ex_sched0 : list nat := [0;0;0;0;0;0;1;1;1;1;1;1;1;1;1;1;1;1;1;2;2]%nat.
(* ... sites 53, 54, 54, 54; the next step of thread 2 is the CAS at site 55 *)
Definition ex_sched1 : list nat := [2;2;2;2]%nat.

Definition ex_th := mkT P53 [OIns 4; OTrav; OTrav; OTrav] [].

Example ex_complete_scan :
  exists s2 o,
    step (run (run (init ex_prog) ex_sched0) ex_sched1) 2 = Some (s2, o) /\
    exists pre acc, sites 2002 pre = [] /\ o = pre ++ result 1 acc /\ In 3 acc.
Proof.
  eexists. eexists. split.
  - vm_compute. reflexivity.
  - eapply (C18_complete_scan ex_prog ex_sched0 ex_sched1 2
             (mkT P53 [OIns 4; OTrav; OTrav; OTrav] [])
             (mkT (P55 2 1 0 [3; 2]) [OIns 4; OTrav; OTrav; OTrav] [])
             _ _
             (mkT POp [OIns 4; OTrav; OTrav; OTrav] []) 3);
      vm_compute; reflexivity.
Qed.

(* the same step is a successful unlink of the marked entry 1 *)
Example ex_unlink :
  exists s2 o,
    step (run (run (init ex_prog) ex_sched0) ex_sched1) 2 = Some (s2, o) /\
    finalized o = [1] /\ finalize_calls o = [1] /\
    mark (get (heap (run (run (init ex_prog) ex_sched0) ex_sched1)) 1) = true.
Proof.
  eexists. eexists. split; [vm_compute; reflexivity|].
  repeat split; vm_compute; reflexivity.
Qed.

(* the invariant holds of that (non-trivial) state, for the ghost state
   computed along the run *)
Example ex_inv :
  Inv (run (init ex_prog) (ex_sched0 ++ ex_sched1))
      (snd (grun (init ex_prog) ginit (ex_sched0 ++ ex_sched1))).
Proof.
  rewrite <- (grun_run _ ginit). apply Inv_grun. apply Inv_init.
Qed.

Print Assumptions Inv_step.
Print Assumptions chain_shape_reachable.
Print Assumptions trav_position_reach.
Print Assumptions step_heap_facts.
Print Assumptions step_word.
Print Assumptions insert_only_at_head.
Print Assumptions inserted_stable.
Print Assumptions word_changes.
Print Assumptions C18_unlink_once.
Print Assumptions C18_finalize_calls.
Print Assumptions C18_unlink_marked.
Print Assumptions C18_complete_scan.
Print Assumptions C18_no_dup.
Print Assumptions ex_complete_scan.
