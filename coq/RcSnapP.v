(* C02 -- what is proved about the validity of Snapshots over the model Rc.v (partial; see the end of the file
   for the full statement, which is evaluated on every replayed state by RcSnapCheck.v but not proved).

   The argument of the library has two legs:
   (1) a ROOT (count fell to zero by a decrement) is destructed only by a deferred try_destruct, and that
       only starts after a grace period: no critical section active when it was deferred is still active
       (closure_grace), and a thread inside a critical section is within one epoch of the global epoch
       (cs_skew) -- RcEpochP.v;
   (2) a CHILD reached by the cascade is destructed at once only if the stamp merged from its own count word,
       the link it hung on and its parent are ALL at least RECLAIM_AGE epochs old (below), RECLAIM_AGE covers
       the grace period (C12_threshold_covers_grace), and the modular test never takes a recent stamp for an
       old one (C12_reclaim_sound); otherwise the child is handed to (1). *)
From Coq Require Import ZArith List Bool Lia.
Import ListNotations.
Require Import Params StateW ModularW DisposeW Bits StateP ModularP Rc RcEpochP.
Local Open Scope Z_scope.

(* the merged stamp is old only if each of the three stamps is old *)
Theorem merged_old_all c a1 a2 a3 : epoch_ok c ->
  0 <= a1 < 16 -> 0 <= a2 < 16 -> 0 <= a3 < 16 -> a1 <= c + 2 -> a2 <= c + 2 -> a3 <= c + 2 ->
  reclaim_now c (merged c a1 a2 a3 mod 16) = true ->
  reclaim_now c a1 = true /\ reclaim_now c a2 = true /\ reclaim_now c a3 = true.
Proof.
  intros Hc H1 H2 H3 L1 L2 L3 H.
  assert (Hm : 0 <= merged c a1 a2 a3 mod 16 < 16) by (apply Z.mod_pos_bound; lia).
  pose proof (merged_decode c a1 a2 a3 Hc H1 H2 H3 L1 L2 L3) as Hd.
  pose proof (decode_window c (merged c a1 a2 a3 mod 16)) as Hw.
  assert (Hle : merged c a1 a2 a3 mod 16 <= c + 2).
  { destruct (Z_le_gt_dec 14 c) as [Hbig|Hsmall]; [lia|].
    assert (Hdec : forall a, 0 <= a < 16 -> a <= c + 2 -> decode c a = a).
    { intros a Ha Hl. unfold decode. unfold epoch_ok in Hc. rewrite Z.mod_small; lia. }
    rewrite fold_max3 by assumption. rewrite !Hdec by assumption.
    rewrite Z.mod_small; lia. }
  rewrite reclaim_now_threshold in H by assumption.
  rewrite !reclaim_now_threshold by assumption.
  rewrite Hd in H. apply Z.leb_le in H.
  repeat split; apply Z.leb_le; lia.
Qed.

(* the same for the stamp the repaired code writes (the maximum clamped one epoch ahead, finding D13) *)
Theorem child_stamp_old_all c a1 a2 a3 : epoch_ok c -> STAMP_CLAMPED = true ->
  0 <= a1 < 16 -> 0 <= a2 < 16 -> 0 <= a3 < 16 -> a1 <= c + 2 -> a2 <= c + 2 -> a3 <= c + 2 ->
  reclaim_now c (child_stamp c a1 a2 a3 mod 16) = true ->
  reclaim_now c a1 = true /\ reclaim_now c a2 = true /\ reclaim_now c a3 = true.
Proof.
  intros Hc Hcl H1 H2 H3 L1 L2 L3 H.
  destruct (child_stamp_spec c a1 a2 a3 Hc Hcl H1 H2 H3 L1 L2 L3) as [S1 S2].
  pose proof (decode_window c (merged c a1 a2 a3 mod 16)) as Hw.
  destruct (Z_le_gt_dec (decode c (merged c a1 a2 a3 mod 16)) (c + 1)) as [Hle|Hgt].
  - rewrite (S1 Hle) in H. apply merged_old_all; assumption.
  - exfalso. assert (He : decode c (merged c a1 a2 a3 mod 16) = c + 2) by lia.
    rewrite (S2 He) in H.
    assert (R : 0 <= (c + 1) mod 16 < 16) by (apply Z.mod_pos_bound; lia).
    destruct (Z_le_gt_dec 13 c) as [Hbig|Hsmall].
    + rewrite reclaim_now_threshold in H by (try assumption; lia).
      rewrite decode_exact in H by lia. apply Z.leb_le in H. unfold RECLAIM_AGE in H. lia.
    + unfold epoch_ok in Hc. rewrite Z.mod_small in H by lia.
      rewrite reclaim_now_threshold in H by (try assumption; lia).
      assert (decode c (c + 1) = c + 1) by (unfold decode; rewrite Z.mod_small; lia).
      apply Z.leb_le in H. unfold RECLAIM_AGE in H. lia.
Qed.

Lemma pending_advance_to fuel : forall s g, pending (advance_to fuel s g) = pending s.
Proof.
  induction fuel as [|n IH]; intros s g; cbn [advance_to]; [reflexivity|].
  destruct (G s <? g); [|reflexivity]. rewrite IH. destruct (can_advance s); reflexivity.
Qed.
Lemma pending_see_epoch s g : pending (see_epoch s g) = pending s.
Proof. apply pending_advance_to. Qed.

(* ---- the cascade's decision about a child, in the model *)
Theorem child_disposed_only_if_old s t rec x o d w k s' obs :
  gett s t = Some x -> frames x = FDisp116 o d w :: k -> 0 < d ->
  micro s t rec = Some (s', obs) ->
  exists x', gett s' t = Some x' /\
    ((frames x' = FDisp130 o d w (G s') :: k /\ reclaim_now (G s') (epoch w) = true /\ pending s' = pending s) \/
     (frames x' = k /\ reclaim_now (G s') (epoch w) = false /\
      exists p, pending s' = pending s ++ [p] /\ pk p = KDestruct /\ po p = o /\ pG p = G s')).
Proof.
  intros Ht Hf Hd Hm. unfold micro in Hm. rewrite Ht, Hf in Hm.
  set (s1 := see_epoch s (oracle_epoch s rec 1016)) in *.
  assert (Hp1 : pending s1 = pending s) by (subst s1; apply pending_see_epoch).
  assert (Hgt : gett s1 t = Some x).
  { unfold gett in *. subst s1. rewrite RcDepthP.threads_see_epoch. exact Ht. }
  unfold dispose_here in Hm.
  assert (Hz : (d =? 0) = false) by (apply Z.eqb_neq; lia). rewrite Hz, andb_false_r, orb_false_l in Hm.
  assert (Hpos : (0 <? d) = true) by (apply Z.ltb_lt; exact Hd). rewrite Hpos in Hm.
  destruct (reclaim_now (G s1) (epoch w)) eqn:Hr; inversion Hm; subst s' obs; clear Hm.
  - exists (with_frames x (FDisp130 o d w (G s1) :: k)). split.
    + unfold gett, sett in *. cbn. eapply RcDepthP.nth_set_nth_same. exact Hgt.
    + left. cbn. auto.
  - exists (with_frames x k). split.
    + unfold gett, sett in *. cbn. eapply RcDepthP.nth_set_nth_same. exact Hgt.
    + right. cbn. split; [reflexivity|]. split; [exact Hr|].
      eexists. split; [rewrite Hp1; reflexivity|]. cbn. auto.
Qed.

(* ---- the statement of C02 over the model, and its executable form *)
Require Import RcSnapCheck.

Definition snap_valid (s : state) : Prop :=
  forall t x o ts n, gett s t = Some x -> In (HSnap (o, ts) n) (vars x) ->
    incs x = true -> n = serial x -> o <> O -> obj_live s o = true.

(* C02: in every state reached by every program under every schedule and oracle (that the abstract EBR layer
   accepts: err = 0), every Snapshot obtained in the still active critical section refers to an object that is
   neither destructed, dropped nor freed.  NOT PROVED in this development; evaluated on every state of every
   replayed implementation trace (rc_snapcheck), and supported by the lemmas above. *)
Definition C02_statement : Prop :=
  forall prog sched, let s := RcDepthP.srun (init prog) sched in err s = 0 -> snap_valid s.

Lemma first_code_zero {A} (f : A -> Z) l : first_code f l = 0 -> forall a, In a l -> f a = 0.
Proof.
  induction l as [|b r IH]; cbn; [intros _ a []|].
  destruct (f b =? 0) eqn:E; [|intros H; rewrite H in E; discriminate].
  intros H a [<-|Ha]; [apply Z.eqb_eq; exact E | apply IH; assumption].
Qed.

(* the checker is sound for the statement: verdict 0 implies the Prop *)
Theorem snap_b_sound s : snap_b s = 0 -> snap_valid s.
Proof.
  unfold snap_b. intros H t x o ts n Hx Hin Hi Hn Ho.
  destruct (first_code (fun x0 => first_code (handle_code s x0) (vars x0)) (threads s) =? 0) eqn:E1; cbn in H.
  - apply Z.eqb_eq in E1.
    pose proof (first_code_zero _ _ E1 x (nth_error_In _ _ Hx)) as H1. cbn in H1.
    pose proof (first_code_zero _ _ H1 _ Hin) as H2. cbn in H2.
    rewrite Hi in H2. subst n. rewrite Nat.eqb_refl in H2. cbn in H2.
    destruct (Nat.eqb o 0) eqn:Eo; [apply Nat.eqb_eq in Eo; contradiction|]. cbn in H2.
    destruct (obj_live s o); [reflexivity | discriminate].
  - exfalso. apply Z.eqb_neq in E1. apply E1. exact H.
Qed.

Print Assumptions merged_old_all.
Print Assumptions child_stamp_old_all.
Print Assumptions child_disposed_only_if_old.
Print Assumptions snap_b_sound.
