(* Extraction of the executable models to OCaml (ExtrOcamlBasic only; Z/N/positive/nat stay the
   extracted inductive types).  Depends on model files only, never on proof files. *)
Require Extraction.
Require ExtrOcamlBasic.
Require Import Params StateW ModularW DisposeW TaggedW EpochW Ebr.
Require Queue RegList Cell Traits Rc RcCheck RcChain RcSnapCheck GuardSeq RcSnapInv OnceLock.

(* uniquely named entry points for the OCaml driver *)
Definition queue_replay := Queue.replay.
Definition list_replay := RegList.replay.
Definition cell_replay := Cell.replay.
Definition traits_line := Traits.traits_line.
Extraction Language OCaml.
Extraction "model.ml"
  Params.wrap Params.bnot Params.sext
  Params.HIGH_TAG_WIDTH Params.MAX_OBJECTS Params.MANUAL_EVENTS_BETWEEN_COLLECT Params.COLLECTS_TRIALS
  Params.COUNTS_BETWEEN_ADVANCE Params.DATA_WORDS Params.EXPIRE_AFTER
  StateW.EPOCH_WIDTH StateW.EPOCH_MASK_HEIGHT StateW.EPOCH StateW.DESTRUCTED StateW.WEAKED
  StateW.TOTAL_COUNT_WIDTH StateW.WEAK_WIDTH StateW.STRONG_WIDTH StateW.STRONG StateW.WEAK StateW.COUNT StateW.WEAK_COUNT
  StateW.epoch StateW.strong StateW.weak StateW.destructed StateW.weaked StateW.with_epoch StateW.add_strong
  StateW.sub_strong StateW.add_weak StateW.with_destructed StateW.with_weaked StateW.alloc_word
  ModularW.m_trans ModularW.m_inver ModularW.m_max ModularW.m_le
  DisposeW.DEPTH_CAP DisposeW.REPIN_EVERY DisposeW.ROOT_ALWAYS DisposeW.reclaim_now DisposeW.merged DisposeW.dispose_here
  TaggedW.f_low_bits TaggedW.t_tag TaggedW.t_high_tag TaggedW.t_as_raw TaggedW.t_is_null TaggedW.t_with_tag
  TaggedW.t_with_high_tag TaggedW.t_ptr_eq
  EpochW.e_starting EpochW.e_wrapping_sub EpochW.e_is_pinned EpochW.e_pinned EpochW.e_unpinned EpochW.e_successor
  EpochW.e_value EpochW.is_expired
  Ebr.ebr_replay Rc.rc_replay RcCheck.rc_invcheck RcChain.chain_line RcSnapCheck.rc_snapcheck RcSnapInv.rc_snapinv GuardSeq.guard_line GuardSeq.tls_line queue_replay list_replay cell_replay traits_line OnceLock.once_line.
