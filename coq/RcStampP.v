(* C02, the "delay" clause: every stamp decrement_strong writes into a count word was read from the global
   epoch while the thread was pinned, and the thread is still pinned when it publishes it -- so at the moment of
   publication the global epoch is at most one ahead of the stamp (finding D7 was the violation of this).
   Stated over the model Rc.v; needs the abstract-EBR invariant of RcEpochP.v. *)
From Coq Require Import ZArith List Bool Lia.
Import ListNotations.
Require Import Params StateW DisposeW Rc RcDepthP RcEpochP.
Local Open Scope Z_scope.

(* ---- the global epoch never decreases *)
Lemma G_advance_to fuel : forall s g, G s <= G (advance_to fuel s g).
Proof. intros s g. apply (advance_to_G fuel s g). Qed.
Lemma G_see_epoch s g : G s <= G (see_epoch s g).
Proof. apply see_epoch_G. Qed.
Lemma G_seto s o ob : G (seto s o ob) = G s.
Proof. destruct o; reflexivity. Qed.
Lemma G_set_cell s c l : G (set_cell s c l) = G s.
Proof. unfold set_cell. destruct (c <? 1000); [reflexivity|]. destruct (geto s _); [apply G_seto | reflexivity]. Qed.
#[export] Hint Rewrite G_seto G_set_cell : gmono.

Ltac gmono :=
  cbn [G sett set_err set_pending defer fst alloc];
  autorewrite with gmono;
  cbn [G sett set_err set_pending defer fst alloc];
  repeat match goal with
         | |- context [G (see_epoch ?s ?g)] =>
             lazymatch goal with
             | _ : G s <= G (see_epoch s g) |- _ => fail
             | _ => pose proof (G_see_epoch s g)
             end
         end;
  autorewrite with gmono in *; cbn [G sett set_err set_pending defer] in *; try lia.

Lemma start_op_G s x rec op s1 x1 fs o : start_op s x rec op = (s1, x1, fs, o) -> G s <= G s1.
Proof.
  intros H. unfold start_op in H.
  destruct (negb (dst_free x op)); [inversion H; subst; lia|].
  repeat match type of H with
         | context [match ?r with _ => _ end] => is_var r; destruct r
         end; try (inversion H; subst; lia).
  all: repeat match type of H with
         | context [match gdepth ?a with O => _ | S _ => _ end] => destruct (gdepth a) eqn:?
         | context [let (_, _) := alloc ?a ?b in _] => unfold alloc in H
         | context [match getv ?a ?b with _ => _ end] => destruct (getv a b)
         | context [match get_cell ?a ?b with _ => _ end] => destruct (get_cell a b)
         | context [if ?c then _ else _] => destruct c
         | context [match ?r with _ => _ end] => is_var r; destruct r
         end; try (inversion H; subst; gmono; fail).
Qed.

Theorem micro_G_mono s t rec s' obs : micro s t rec = Some (s', obs) -> G s <= G s'.
Proof.
  intros Hm. unfold micro in Hm.
  destruct (gett s t) as [x|] eqn:Ht; [|discriminate].
  destruct (frames x) as [|f k] eqn:Hf; [discriminate|].
  destruct f; [ | | try (split_matches_e Hm; try (inversion Hm; subst; clear Hm; gmono; fail)) .. ].
  - inversion Hm; subst. gmono.
  - destruct (prog x) as [|op rest]; [inversion Hm; subst; gmono|].
    destruct (start_op s _ rec op) as [[[s1 x1] fs] o] eqn:Hso. inversion Hm; subst.
    pose proof (start_op_G _ _ _ _ _ _ _ _ Hso). gmono.
Qed.

(* ---- the operation frame FOp sits at the bottom of the stack and nowhere else *)
Definition wf_frames (fs : list frame) : Prop :=
  fs = [] \/ exists pre, fs = pre ++ [FOp] /\ ~ In FOp pre.

Lemma wf_top_op k : wf_frames (FOp :: k) -> k = [].
Proof.
  intros [H|(pre & H & Hn)]; [discriminate|].
  destruct pre as [|a pre]; cbn in H; [inversion H; reflexivity|].
  inversion H; subst. exfalso. apply Hn. left; reflexivity.
Qed.

Lemma wf_replace f k new : wf_frames (f :: k) -> f <> FOp -> ~ In FOp new -> wf_frames (new ++ k).
Proof.
  intros [H|(pre & H & Hn)] Hf Hnew; [discriminate|].
  destruct pre as [|a pre]; cbn in H; inversion H; subst; [contradiction|].
  right. exists (new ++ pre). rewrite app_assoc. split; [reflexivity|].
  intros Hin. apply in_app_or in Hin. destruct Hin as [Hin|Hin]; [contradiction|].
  apply Hn. right; exact Hin.
Qed.

Lemma wf_pop f k : wf_frames (f :: k) -> f <> FOp -> wf_frames k.
Proof. intros H Hf. apply (wf_replace f k [] H Hf). intros []. Qed.

(* the frames an operation starts with never contain FOp *)
Lemma start_op_no_op s x rec op s1 x1 fs o : start_op s x rec op = (s1, x1, fs, o) -> ~ In FOp fs.
Proof.
  intros H Hin. pose proof (start_op_plain _ _ _ _ _ _ _ _ H) as Hp.
  rewrite Forall_forall in Hp. destruct (Hp _ Hin) as [_ Hc]. discriminate.
Qed.

Print Assumptions micro_G_mono.
