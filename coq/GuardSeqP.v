(* GuardSeqP.v -- proofs about the model GuardSeq.v (C16, C20). No axioms. *)
From Coq Require Import ZArith List Bool Lia.
Import ListNotations.
Require Import GuardSeq.
Local Open Scope Z_scope.

(* ------------------------------------------------------------------------------------------ *)
(* Well-formed closure bodies and programs                                                    *)
(* ------------------------------------------------------------------------------------------ *)
(* [body_ok n ops]: every guard index names one of the guards the body holds (n of them now),
   no thread-level operation occurs, and the same holds for the closures the body defers *)
Section BodyOk.
  Variable deep : op -> bool.
  Fixpoint body_ok_with (n : nat) (ops : list op) {struct ops} : bool :=
    match ops with
    | [] => true
    | o :: r =>
        deep o &&
        match o with
        | Cs => body_ok_with (S n) r
        | DropGuard i => (i <? n)%nat && body_ok_with (pred n) r
        | Reactivate i => (i <? n)%nat && body_ok_with n r
        | ReactivateAfter i _ => (i <? n)%nat && body_ok_with n r
        | Flush i => (i <? n)%nat && body_ok_with n r
        | Defer i _ _ => (i <? n)%nat && body_ok_with n r
        | DropHandle => false
        | DropCollector => false
        | Probe => body_ok_with n r
        end
    end.
End BodyOk.

Fixpoint op_deep (o : op) : bool :=
  match o with
  | Defer _ _ b => body_ok_with op_deep O b
  | _ => true
  end.

Definition body_ok : nat -> list op -> bool := body_ok_with op_deep.

Lemma op_deep_defer : forall i id b, op_deep (Defer i id b) = body_ok O b.
Proof. reflexivity. Qed.

Definition clo_ok (c : clo) : Prop := body_ok O (cbody c) = true.

(* the abstract view a program is checked against: number of live guards, handle, collector *)
Record abs := mkAbs { an : nat; ah : bool; ac : bool }.

Definition wf_op (a : abs) (o : op) : option abs :=
  if negb (ah a) && (an a =? 0)%nat then
    match o with
    | DropCollector => if ac a then Some (mkAbs (an a) (ah a) false) else None
    | _ => None
    end
  else
    match o with
    | Cs => if ah a then Some (mkAbs (S (an a)) (ah a) (ac a)) else None
    | DropGuard i => if (i <? an a)%nat then Some (mkAbs (pred (an a)) (ah a) (ac a)) else None
    | Reactivate i => if (i <? an a)%nat then Some a else None
    | ReactivateAfter i _ => if (i <? an a)%nat then Some a else None
    | Flush i => if (i <? an a)%nat then Some a else None
    | Defer i _ b => if (i <? an a)%nat && body_ok O b then Some a else None
    | DropHandle => if ah a then Some (mkAbs (an a) false (ac a)) else None
    | DropCollector => None
    | Probe => None
    end.

Fixpoint wf_from (a : abs) (p : list op) : bool :=
  match p with
  | [] => true
  | o :: r => match wf_op a o with Some a' => wf_from a' r | None => false end
  end.

Definition wf_prog (p : list op) : bool := wf_from (mkAbs O true true) p.

(* ------------------------------------------------------------------------------------------ *)
(* Bookkeeping                                                                                *)
(* ------------------------------------------------------------------------------------------ *)
(* the fields no function running inside a collection changes *)
Definition core (s : state) :=
  (hc s, live s, handle_alive s, finalized s, coll_alive s, unpins s, finals s, others s,
   maxobj s, err s).

(* all pending closures, oldest first *)
Definition pend (s : state) : list clo := concat (map snd (sealed s)) ++ bag s.

Fixpoint cnt (x : Z) (l : list Z) : Z :=
  match l with [] => 0 | y :: r => (if x =? y then 1 else 0) + cnt x r end.

Lemma cnt_app : forall x a b, cnt x (a ++ b) = cnt x a + cnt x b.
Proof. induction a; simpl; intros; [lia | rewrite IHa; lia]. Qed.

Lemma cnt_rev : forall x a, cnt x (rev a) = cnt x a.
Proof. induction a; simpl; [lia | rewrite cnt_app; simpl; lia]. Qed.

Lemma cnt_nonneg : forall x a, 0 <= cnt x a.
Proof. induction a; simpl; [lia | destruct (x =? a); lia]. Qed.

(* conservation: everything ever deferred has run or is pending (closure ids are >= 0; the
   negative entries of the log are the probes of closure bodies) *)
Definition cons (s : state) : Prop :=
  forall x, 0 <= x -> cnt x (deferred s) = cnt x (log s) + cnt x (map cid (pend s)).

Definition PO (s : state) : Prop := Forall clo_ok (pend s).

Definition allowed (c : Z) : Prop := c = E_OVERFLOW \/ c = E_LOOP.

Definition okres {A} (r : res A) (Q : A -> Prop) : Prop :=
  match r with Ok a => Q a | Err c => allowed c end.

Lemma okres_bind : forall A B (r : res A) (f : A -> res B) (Q : A -> Prop) (Q' : B -> Prop),
  okres r Q -> (forall a, Q a -> okres (f a) Q') -> okres (bind r f) Q'.
Proof. intros. destruct r; simpl in *; auto. Qed.

Lemma bind_bind : forall A B C (r : res A) (f : A -> res B) (g : B -> res C),
  bind (bind r f) g = bind r (fun a => bind (f a) g).
Proof. intros. destruct r; reflexivity. Qed.

Lemma okres_weaken : forall A (r : res A) (Q Q' : A -> Prop),
  okres r Q -> (forall a, Q a -> Q' a) -> okres r Q'.
Proof. intros. destruct r; simpl in *; auto. Qed.

Lemma okres_ok : forall A (r : res A) (Q : A -> Prop) a, okres r Q -> r = Ok a -> Q a.
Proof. intros. subst. exact H. Qed.

(* ------------------------------------------------------------------------------------------ *)
(* Primitives                                                                                 *)
(* ------------------------------------------------------------------------------------------ *)
Ltac prims := unfold flush, defer_, incr_advance, schedule_collection, push_to_global, push_bag,
  try_advance, repin_without_collect, acquire_handle in *.

Ltac splitifs :=
  repeat match goal with
  | |- context [if ?b then _ else _] => destruct b eqn:?
  | |- context [match bag ?s with _ => _ end] => destruct (bag s) eqn:?
  end.

(* a state transformer that only touches epochs, bags and counters *)
Record quiet (f : state -> state) : Prop := {
  q_core : forall s, core (f s) = core s;
  q_gc : forall s, gc (f s) = gc s;
  q_coll : forall s, collecting (f s) = collecting s;
  q_pin : forall s, pinned s = true -> pinned (f s) = true;
  q_pin' : forall s, collecting s = false -> pinned (f s) = pinned s;
  q_log : forall s, log (f s) = log s;
  q_def : forall s, deferred (f s) = deferred s;
  q_pend : forall s, pend (f s) = pend s
}.

Lemma pend_push_bag : forall s, pend (push_bag s) = pend s.
Proof.
  intros. unfold pend, push_bag. simpl.
  rewrite map_app, concat_app. simpl. rewrite !app_nil_r. reflexivity.
Qed.

Lemma quiet_try_advance : quiet try_advance.
Proof. split; intros; prims; splitifs; simpl; auto. Qed.

Lemma quiet_push_bag : quiet push_bag.
Proof. split; intros; try apply pend_push_bag; prims; splitifs; simpl; auto. Qed.

Lemma quiet_push_to_global : quiet push_to_global.
Proof.
  split; intros; unfold push_to_global; destruct (bag s) eqn:E; auto;
    try apply quiet_push_bag; auto.
Qed.

Lemma quiet_schedule_collection : quiet schedule_collection.
Proof.
  split; intros; prims; simpl; try (rewrite H; simpl); splitifs; simpl; auto; try congruence.
Qed.

Lemma quiet_comp : forall f g, quiet f -> quiet g -> quiet (fun s => g (f s)).
Proof.
  intros f g [] []. split; intros; simpl; try congruence.
  - auto.
  - rewrite q_pin'1; auto. rewrite q_coll0; auto.
Qed.

Lemma quiet_flush : quiet flush.
Proof. apply (quiet_comp push_to_global schedule_collection);
  [apply quiet_push_to_global | apply quiet_schedule_collection]. Qed.

Lemma quiet_incr_advance : quiet incr_advance.
Proof. split; intros; prims; simpl; splitifs; simpl; auto. Qed.

Lemma quiet_id : quiet (fun s => s).
Proof. split; auto. Qed.

(* Local::defer = an optional seal-and-schedule, the push, incr_advance *)
Definition pre_defer (s : state) : state :=
  if maxobj s <=? Z.of_nat (length (bag s)) then schedule_collection (push_bag s) else s.

Lemma quiet_pre_defer : quiet pre_defer.
Proof.
  pose proof (quiet_comp push_bag schedule_collection quiet_push_bag quiet_schedule_collection) as Q.
  split; intros; unfold pre_defer; destruct (maxobj s <=? _); auto; apply Q; auto.
Qed.

Definition push_item (c : clo) (s : state) : state :=
  set_deferred (cid c :: deferred s) (set_bag (bag s ++ [c]) s).

Lemma defer_split : forall s c, defer_ s c = incr_advance (push_item c (pre_defer s)).
Proof. reflexivity. Qed.

Lemma pend_push_item : forall c s, pend (push_item c s) = pend s ++ [c].
Proof. intros. unfold pend, push_item. simpl. rewrite app_assoc. reflexivity. Qed.

Record deferlike (c : clo) (f : state -> state) : Prop := {
  d_core : forall s, core (f s) = core s;
  d_gc : forall s, gc (f s) = gc s;
  d_coll : forall s, collecting (f s) = collecting s;
  d_pin : forall s, pinned s = true -> pinned (f s) = true;
  d_pin' : forall s, collecting s = false -> pinned (f s) = pinned s;
  d_log : forall s, log (f s) = log s;
  d_def : forall s, deferred (f s) = cid c :: deferred s;
  d_pend : forall s, pend (f s) = pend s ++ [c]
}.

Lemma deferlike_defer : forall c, deferlike c (fun s => defer_ s c).
Proof.
  intros c.
  pose proof quiet_pre_defer as [A1 A2 A3 A4 A5 A6 A7 A8].
  pose proof quiet_incr_advance as [B1 B2 B3 B4 B5 B6 B7 B8].
  split; intros; rewrite defer_split.
  - rewrite B1. unfold push_item, core; simpl. apply A1.
  - rewrite B2. simpl. apply A2.
  - rewrite B3. simpl. apply A3.
  - apply B4. simpl. apply A4; auto.
  - rewrite B5; simpl; [apply A5; auto | rewrite A3; auto].
  - rewrite B6. simpl. apply A6.
  - rewrite B7. simpl. rewrite A7. reflexivity.
  - rewrite B8, pend_push_item, A8. reflexivity.
Qed.

(* conservation and well-formedness of the pending closures under the two kinds of transformers *)
Lemma cons_quiet : forall f s, quiet f -> cons s -> cons (f s).
Proof. intros f s [] H x. rewrite q_log0, q_def0, q_pend0. apply H. Qed.

Lemma PO_quiet : forall f s, quiet f -> PO s -> PO (f s).
Proof. intros f s [] H. unfold PO. rewrite q_pend0. exact H. Qed.

Lemma cons_deferlike : forall c f s, deferlike c f -> cons s -> cons (f s).
Proof.
  intros c f s [] H x. rewrite d_log0, d_def0, d_pend0, map_app, cnt_app. simpl.
  specialize (H x). lia.
Qed.

Lemma PO_deferlike : forall c f s, deferlike c f -> clo_ok c -> PO s -> PO (f s).
Proof.
  intros c f s [] Hc H. unfold PO. rewrite d_pend0. apply Forall_app. split; auto.
Qed.

(* ------------------------------------------------------------------------------------------ *)
(* Inside a collection                                                                        *)
(* ------------------------------------------------------------------------------------------ *)
Definition len {A} (l : list A) : Z := Z.of_nat (length l).

(* conservation with the closures that were popped but have not run yet *)
Definition cons_x (extra : list clo) (s : state) : Prop :=
  forall x, 0 <= x ->
    cnt x (deferred s) = cnt x (log s) + cnt x (map cid extra) + cnt x (map cid (pend s)).

Lemma cons_x_nil : forall s, cons_x [] s <-> cons s.
Proof. unfold cons_x, cons; simpl; split; intros H x; specialize (H x); lia. Qed.

Definition inside (extra : list clo) (s : state) : Prop :=
  collecting s = true /\ pinned s = true /\ cons_x extra s /\ PO s /\ Forall clo_ok extra.

Lemma inside_ext : forall extra s s',
  collecting s' = collecting s -> pinned s' = pinned s -> deferred s' = deferred s ->
  log s' = log s -> pend s' = pend s -> inside extra s -> inside extra s'.
Proof.
  unfold inside, cons_x, PO. intros extra s s' H1 H2 H3 H4 H5 (A & B & C & D & E).
  rewrite H1, H2, H3, H4, H5. auto.
Qed.

Lemma inside_quiet : forall f extra s, quiet f -> inside extra s -> inside extra (f s).
Proof.
  intros f extra s [] (A & B & C & D & E). unfold inside, cons_x, PO.
  rewrite q_coll0, q_log0, q_def0, q_pend0. auto.
Qed.

Lemma inside_deferlike : forall c f extra s, deferlike c f -> clo_ok c -> inside extra s -> inside extra (f s).
Proof.
  intros c f extra s [] Hc (A & B & C & D & E). unfold inside, cons_x, PO.
  rewrite d_coll0, d_log0, d_def0, d_pend0. repeat split; auto.
  - intros x. rewrite map_app, cnt_app. simpl. specialize (C x). lia.
  - apply Forall_app; split; auto.
Qed.

(* what the unpin function one level down must do in the two situations in which it is called *)
Definition unpin_last (s : state) : state :=
  let s2 := set_gc (gc s - 1) (set_collecting false (set_collecting true s)) in
  set_unpins (unpins s2 + 1) (set_ann 0 (set_pinned false s2)).

Definition u_ok (u : state -> res state) : Prop :=
  (forall s, collecting s = true -> 2 <= gc s -> u s = Ok (set_gc (gc s - 1) s)) /\
  (forall s, collecting s = false -> gc s = 1 -> must_collect s = false -> hc s <> 0 ->
     u s = Ok (unpin_last s)).

Lemma u_ok_lvl : forall u k, u_ok (unpin_lvl u k).
Proof.
  intros u k. split; intros s H1 H2.
  - unfold unpin_lvl. rewrite H1. rewrite andb_false_r. simpl.
    destruct (gc s =? 1) eqn:E; [apply Z.eqb_eq in E; lia | reflexivity].
  - intros H3 H4. unfold unpin_lvl. rewrite H1, H2. simpl.
    assert (L : coll_loop u k (set_collecting true s) = Ok (set_collecting true s)).
    { destruct k; simpl; rewrite H3; reflexivity. }
    rewrite L. simpl. destruct (hc s =? 0) eqn:E; [apply Z.eqb_eq in E; lia|].
    unfold unpin_last. rewrite H2. reflexivity.
Qed.

Lemma u_ok_at : forall l, u_ok (unpin_at (S l)).
Proof. intros. simpl. apply u_ok_lvl. Qed.

Lemma length_remove_nth : forall A i (l : list A), (i < length l)%nat ->
  length (remove_nth i l) = pred (length l).
Proof.
  induction i; destruct l; simpl; intros; try lia.
  rewrite IHi by lia. destruct l; simpl in *; lia.
Qed.

Lemma nth_error_lt : forall A i (l : list A), (i < length l)%nat -> exists x, nth_error l i = Some x.
Proof.
  intros. destruct (nth_error l i) eqn:E; eauto.
  apply nth_error_None in E. lia.
Qed.

Ltac zify_b := repeat match goal with
  | H : (_ <? _)%nat = true |- _ => apply Nat.ltb_lt in H
  | H : (_ <? _)%nat = false |- _ => apply Nat.ltb_ge in H
  | H : (_ =? _)%nat = true |- _ => apply Nat.eqb_eq in H
  | H : (_ =? _)%nat = false |- _ => apply Nat.eqb_neq in H
  | H : (_ =? _) = true |- _ => apply Z.eqb_eq in H
  | H : (_ =? _) = false |- _ => apply Z.eqb_neq in H
  | H : (_ <=? _) = true |- _ => apply Z.leb_le in H
  | H : (_ <=? _) = false |- _ => apply Z.leb_gt in H
  | H : (_ <? _) = true |- _ => apply Z.ltb_lt in H
  | H : (_ <? _) = false |- _ => apply Z.ltb_ge in H
  | H : _ && _ = true |- _ => apply andb_prop in H; destruct H
  end.

(* the result of a closure-level operation *)
Definition body_post (extra : list clo) (s : state) (lg : list Z) (p : state * list Z) : Prop :=
  inside extra (fst p) /\ core (fst p) = core s /\ gc (fst p) - len (snd p) = gc s - len lg.

Lemma inside_probe : forall extra s v, v < 0 -> inside extra s -> inside extra (set_log (v :: log s) s).
Proof.
  intros extra s v Hv (A & B & C & D & E). unfold inside, cons_x, PO in *.
  change (pend (set_log (v :: log s) s)) with (pend s). simpl.
  repeat split; auto. intros x Hx. specialize (C x Hx).
  destruct (x =? v) eqn:Ev; zify_b; lia.
Qed.

Lemma pin_inside : forall extra s, inside extra s -> 1 <= gc s ->
  okres (pin s) (fun s' => s' = set_gc (gc s + 1) s).
Proof.
  intros. unfold pin. destruct (MAXC <=? gc s); simpl; [left; reflexivity|].
  destruct (gc s =? 0) eqn:E; zify_b; [lia | reflexivity].
Qed.

Lemma gstep_inside : forall u extra s lg o r,
  u_ok u -> inside extra s -> 1 <= gc s - len lg -> body_ok (length lg) (o :: r) = true ->
  okres (gstep u s lg o)
        (fun p => body_post extra s lg p /\ body_ok (length (snd p)) r = true).
Proof.
  intros u extra s lg o r [U1 U2] I G B. unfold len in *.
  assert (C : collecting s = true) by apply I.
  simpl in B. apply andb_prop in B. destruct B as [D B].
  destruct o; simpl in B; zify_b; try discriminate.
  - (* Cs *)
    simpl. eapply okres_bind; [apply (pin_inside extra); auto; lia|].
    intros a ->. simpl. unfold body_post, len; simpl. rewrite app_length; simpl. split; [split; [|split]|].
    + eapply inside_ext; [..|exact I]; reflexivity.
    + reflexivity.
    + lia.
    + rewrite Nat.add_1_r. exact B.
  - (* DropGuard *)
    simpl. destruct (nth_error_lt _ i lg H) as [x ->].
    rewrite U1 by (auto; lia). simpl. unfold body_post, len; simpl.
    rewrite length_remove_nth by auto. split; [split; [|split]|].
    + eapply inside_ext; [..|exact I]; reflexivity.
    + reflexivity.
    + lia.
    + exact H0.
  - (* Reactivate *)
    simpl. destruct (nth_error_lt _ i lg H) as [x ->].
    unfold repin_with. rewrite U1 by (simpl; auto; lia). simpl.
    unfold pin. simpl. destruct (MAXC <=? gc s - 1); simpl; [left; reflexivity|].
    destruct (gc s - 1 =? 0) eqn:E; zify_b; [lia|]. simpl.
    unfold release_handle_with. simpl.
    destruct (gc s - 1 + 1 =? 0) eqn:E2; zify_b; [lia|]. simpl.
    unfold body_post, len; simpl. split; [split; [|split]|].
    + eapply inside_ext; [..|exact I]; reflexivity.
    + unfold core; simpl. repeat f_equal. lia.
    + lia.
    + exact H0.
  - (* ReactivateAfter *)
    simpl. destruct (nth_error_lt _ i lg H) as [x ->].
    unfold reactivate_after_with. rewrite U1 by (simpl; auto; lia). simpl.
    unfold pin. simpl. destruct (MAXC <=? gc s - 1); simpl; [left; reflexivity|].
    destruct (gc s - 1 =? 0) eqn:E; zify_b; [lia|]. simpl.
    unfold release_handle_with. simpl.
    destruct (gc s - 1 + 1 =? 0) eqn:E2; zify_b; [lia|]. simpl.
    unfold body_post, len; simpl. split; [split; [|split]|].
    + eapply inside_ext; [..|exact I]; reflexivity.
    + unfold core; simpl. repeat f_equal. lia.
    + lia.
    + exact H0.
  - (* Flush *)
    simpl. destruct (nth_error_lt _ i lg H) as [x ->]. simpl.
    pose proof quiet_flush as Q. unfold body_post, len; simpl. split; [split; [|split]|].
    + apply inside_quiet; auto.
    + apply Q.
    + rewrite (q_gc _ Q). reflexivity.
    + exact H0.
  - (* Defer *)
    simpl. destruct (nth_error_lt _ i lg H) as [x ->]. simpl.
    pose proof (deferlike_defer (Clo id body)) as Q. unfold body_post, len; simpl. split; [split; [|split]|].
    + apply (inside_deferlike (Clo id body) (fun s => defer_ s (Clo id body))); auto.
    + apply (d_core _ _ Q).
    + rewrite (d_gc _ _ Q). reflexivity.
    + exact H0.
  - (* Probe *)
    unfold gstep, okres, body_post, len. cbn [fst snd]. split; [split; [|split]|].
    + apply inside_probe; auto. pose proof (Z.abs_nonneg (ann s)). lia.
    + reflexivity.
    + reflexivity.
    + exact B.
Qed.

Lemma run_body_inside : forall u extra, u_ok u -> forall ops s lg,
  inside extra s -> 1 <= gc s - len lg -> body_ok (length lg) ops = true ->
  okres (run_body u s lg ops) (body_post extra s lg).
Proof.
  intros u extra U. induction ops as [|o r IH]; intros s lg I G B.
  - simpl. unfold body_post; simpl. auto.
  - simpl. eapply okres_bind; [apply (gstep_inside u extra s lg o r); auto|].
    intros [s1 lg1] [(I1 & C1 & G1) B1]. simpl in *.
    eapply okres_weaken; [apply IH; auto; lia|].
    intros [s2 lg2] (I2 & C2 & G2). unfold body_post in *; simpl in *.
    split; [exact I2 | split; [congruence | lia]].
Qed.

Lemma drop_all_inside : forall u extra, u_ok u -> forall lg s,
  inside extra s -> 1 <= gc s - len lg ->
  okres (drop_all u s lg) (fun s' => inside extra s' /\ core s' = core s /\ gc s' = gc s - len lg).
Proof.
  intros u extra [U1 U2]. induction lg as [|g r IH]; intros s I G; unfold len in *; simpl length in *.
  - simpl. split; [auto | split; [auto | lia]].
  - simpl. rewrite U1 by (try apply I; lia). simpl.
    eapply okres_weaken; [apply IH|].
    + eapply inside_ext; [..|exact I]; reflexivity.
    + simpl. lia.
    + intros s' (I' & C' & G'). simpl in *. split; [auto | split; [auto | lia]].
Qed.

Lemma inside_log : forall c extra s, inside (c :: extra) s -> inside extra (set_log (cid c :: log s) s).
Proof.
  intros c extra s (A & B & C & D & E). unfold inside, cons_x, PO in *. simpl.
  repeat split; auto.
  - intros x. specialize (C x). simpl in C.
    change (pend (set_log (cid c :: log s) s)) with (pend s). lia.
  - inversion E; auto.
Qed.

Lemma run_clo_inside : forall u extra c s, u_ok u ->
  inside (c :: extra) s -> 1 <= gc s ->
  okres (run_clo u s c) (fun s' => inside extra s' /\ core s' = core s /\ gc s' = gc s).
Proof.
  intros u extra c s U I G. unfold run_clo.
  assert (K : clo_ok c) by (destruct I as (_ & _ & _ & _ & E); inversion E; auto).
  eapply okres_bind.
  - apply (run_body_inside u extra U (cbody c) (set_log (cid c :: log s) s) []).
    + apply inside_log; auto.
    + simpl. unfold len; simpl. lia.
    + exact K.
  - intros [s1 lg1] (I1 & C1 & G1). simpl in *.
    eapply okres_weaken; [apply (drop_all_inside u extra U lg1 s1); auto|].
    + unfold len in *; simpl in *. lia.
    + intros s' (I' & C' & G'). unfold len in *; simpl in *.
      split; [auto | split; [rewrite C', C1; reflexivity | lia]].
Qed.

Lemma run_bag_inside : forall u extra, u_ok u -> forall b s,
  inside (b ++ extra) s -> 1 <= gc s ->
  okres (run_bag u s b) (fun s' => inside extra s' /\ core s' = core s /\ gc s' = gc s).
Proof.
  intros u extra U. induction b as [|c r IH]; intros s I G.
  - simpl. auto.
  - simpl. eapply okres_bind; [apply (run_clo_inside u (r ++ extra) c s U); auto|].
    intros s1 (I1 & C1 & G1). simpl.
    eapply okres_weaken; [apply IH; auto; lia|].
    intros s2 (I2 & C2 & G2). split; [auto | split; congruence].
Qed.

Lemma clo_ok_node : clo_ok node_clo.
Proof. reflexivity. Qed.

Lemma inside_pop : forall s e b rest, sealed s = (e, b) :: rest ->
  inside [] s -> inside (b ++ []) (set_sealed rest s).
Proof.
  intros s e b rest E (A & B & C & D & _). unfold inside, cons_x, PO, pend in *. simpl.
  rewrite E in *. simpl in *. repeat split; auto.
  - intros x. specialize (C x). rewrite app_nil_r.
    rewrite <- app_assoc, map_app, cnt_app in C. lia.
  - rewrite <- app_assoc in D. apply Forall_app in D. apply D.
  - rewrite app_nil_r. rewrite <- app_assoc in D. apply Forall_app in D. apply D.
Qed.

Lemma trials_inside : forall u, u_ok u -> forall n s,
  inside [] s -> 1 <= gc s ->
  okres (trials u n s) (fun s' => inside [] s' /\ core s' = core s /\ gc s' = gc s).
Proof.
  intros u U. induction n as [|n IH]; intros s I G.
  - simpl. auto.
  - simpl. destruct (sealed s) as [|[e b] rest] eqn:E; [simpl; auto|].
    destruct (RECLAIM_AGE <=? GuardSeq.G s - e); [|simpl; auto].
    pose proof (deferlike_defer node_clo) as Q.
    eapply okres_bind.
    + apply (run_bag_inside u [] U b).
      * apply (inside_deferlike node_clo (fun s => defer_ s node_clo)); auto.
        { apply clo_ok_node. }
        { eapply inside_pop; eauto. }
      * rewrite (d_gc _ _ Q). simpl. exact G.
    + intros s1 (I1 & C1 & G1). simpl.
      eapply okres_weaken; [apply IH; auto; try lia|].
      * rewrite G1, (d_gc _ _ Q). simpl. exact G.
      * intros s2 (I2 & C2 & G2). split; [auto | split].
        { rewrite C2, C1, (d_core _ _ Q). reflexivity. }
        { rewrite G2, G1, (d_gc _ _ Q). reflexivity. }
Qed.

Lemma collect_inside : forall u s, u_ok u -> inside [] s -> 1 <= gc s ->
  okres (collect u s) (fun s' => inside [] s' /\ core s' = core s /\ gc s' = gc s).
Proof.
  intros u s U I Hg. unfold collect.
  pose proof quiet_try_advance as Q.
  eapply okres_weaken.
  - apply trials_inside; [exact U | |].
    + apply inside_quiet; [exact Q|]. eapply inside_ext; [..|exact I]; reflexivity.
    + rewrite (q_gc _ Q). simpl. exact Hg.
  - intros s' (I' & C' & G'). split; [auto | split].
    + rewrite C', (q_core _ Q). reflexivity.
    + rewrite G', (q_gc _ Q). reflexivity.
Qed.

Lemma coll_loop_inside : forall u, u_ok u -> forall k s, inside [] s -> 1 <= gc s ->
  okres (coll_loop u k s)
        (fun s' => inside [] s' /\ core s' = core s /\ gc s' = gc s /\ must_collect s' = false).
Proof.
  intros u U. induction k as [|k IH]; intros s I Hg; simpl.
  - destruct (must_collect s) eqn:M; simpl; [right; reflexivity | auto].
  - destruct (must_collect s) eqn:M; simpl; [|auto].
    eapply okres_bind.
    + apply (collect_inside u (set_must_collect false s)); [exact U | | exact Hg].
      eapply inside_ext; [..|exact I]; reflexivity.
    + intros s1 (I1 & C1 & G1). simpl in *.
      eapply okres_weaken.
      * apply IH.
        { destruct I1 as (A & B & C & D & E). unfold inside, cons_x, PO in *.
          simpl. change (pend (repin_without_collect s1)) with (pend s1). auto. }
        { simpl. lia. }
      * intros s2 (I2 & C2 & G2 & M2). simpl in *.
        split; [auto | split; [|split; [lia | auto]]].
        rewrite C2. unfold repin_without_collect, core in *; simpl. exact C1.
Qed.

(* ------------------------------------------------------------------------------------------ *)
(* The thread's own calls (not inside a collection)                                           *)
(* ------------------------------------------------------------------------------------------ *)
Definition frame (s : state) := (live s, handle_alive s, coll_alive s, others s, maxobj s, err s).

Definition outside (s : state) : Prop := collecting s = false /\ cons s /\ PO s.

Lemma core_frame : forall s s', core s' = core s ->
  frame s' = frame s /\ hc s' = hc s /\ finalized s' = finalized s /\ unpins s' = unpins s /\
  finals s' = finals s.
Proof. unfold core, frame. intros s s' H. inversion H. repeat split; congruence. Qed.

Lemma outside_ext : forall s s',
  collecting s' = collecting s -> deferred s' = deferred s -> log s' = log s -> pend s' = pend s ->
  outside s -> outside s'.
Proof.
  unfold outside, cons, PO. intros s s' H1 H2 H3 H4 (A & B & C). rewrite H1, H2, H3, H4. auto.
Qed.

Definition unpin_post (s s' : state) : Prop :=
  outside s' /\ frame s' = frame s /\ gc s' = gc s - 1 /\
  (2 <= gc s -> pinned s' = pinned s /\ must_collect s' = must_collect s /\ hc s' = hc s /\
                unpins s' = unpins s /\ finals s' = finals s /\ finalized s' = finalized s /\
                bag s' = bag s) /\
  (gc s = 1 -> pinned s' = false /\ must_collect s' = false /\
      (hc s <> 0 -> hc s' = hc s /\ finals s' = finals s /\ finalized s' = finalized s /\
                    unpins s' = unpins s + 1) /\
      (* finalize pins and unpins once more *)
      (hc s = 0 -> hc s' = 0 /\ finals s' = finals s + 1 /\ finalized s' = true /\ bag s' = [] /\
                   unpins s' = unpins s + 2)).

(* normal forms: the same functions as stacks of field updates *)
Definition pin_nf (s : state) : state :=
  set_advc (if (gc s =? 0) && negb (prev s =? GuardSeq.G s) then 0 else advc s)
  (set_prev (if gc s =? 0 then GuardSeq.G s else prev s)
  (set_ann (if gc s =? 0 then GuardSeq.G s else ann s)
  (set_pinned (if gc s =? 0 then true else pinned s)
  (set_gc (gc s + 1) s)))).

Lemma pin_eq : forall s, pin s = if MAXC <=? gc s then Err E_OVERFLOW else Ok (pin_nf s).
Proof.
  intros. unfold pin, pin_nf. destruct (MAXC <=? gc s); auto.
  destruct s; simpl. destruct (gc =? 0); simpl; auto.
  destruct (prev =? G) eqn:E; simpl; auto. zify_b. subst. reflexivity.
Qed.

Definition ptg_nf (s : state) : state :=
  set_bag [] (set_sealed (sealed s ++ match bag s with [] => [] | _ :: _ => [(GuardSeq.G s, bag s)] end) s).

Lemma push_to_global_eq : forall s, push_to_global s = ptg_nf s.
Proof.
  intros. unfold push_to_global, ptg_nf, push_bag. destruct s; simpl.
  destruct bag; simpl; auto. rewrite app_nil_r. reflexivity.
Qed.

Lemma pend_ptg_nf : forall s, pend (ptg_nf s) = pend s.
Proof. intros. rewrite <- push_to_global_eq. apply (q_pend _ quiet_push_to_global). Qed.

(* Local::finalize when called with guard_count = 0 outside a collection *)
Definition finalize_nf (s : state) : state :=
  set_finals (finals s + 1) (set_finalized true (set_hc 0
    (unpin_last (ptg_nf (pin_nf (set_hc 1 s)))))).

Lemma finalize_eq : forall u s, u_ok u -> gc s = 0 -> collecting s = false -> must_collect s = false ->
  finalize_with u s = Ok (finalize_nf s).
Proof.
  intros u s [_ U2] Hg Hc Hm. unfold finalize_with. rewrite pin_eq.
  change (gc (set_hc 1 s)) with (gc s). rewrite Hg.
  change (MAXC <=? 0) with false. cbv iota. unfold bind at 1.
  rewrite push_to_global_eq.
  rewrite U2.
  - unfold bind. cbv beta iota. unfold finalize_nf. f_equal.
  - exact Hc.
  - change (gc s + 1 = 1). lia.
  - exact Hm.
  - change (1 <> 0). lia.
Qed.

Lemma finalize_nf_fields : forall s,
  collecting (finalize_nf s) = false /\ gc (finalize_nf s) = gc s + 1 - 1 /\ hc (finalize_nf s) = 0 /\
  pinned (finalize_nf s) = false /\ must_collect (finalize_nf s) = must_collect s /\
  frame (finalize_nf s) = frame s /\ finalized (finalize_nf s) = true /\
  finals (finalize_nf s) = finals s + 1 /\ unpins (finalize_nf s) = unpins s + 1 /\
  bag (finalize_nf s) = [] /\ deferred (finalize_nf s) = deferred s /\ log (finalize_nf s) = log s /\
  pend (finalize_nf s) = pend s.
Proof.
  intros. repeat split; try reflexivity.
  rewrite <- (pend_ptg_nf s). unfold pend.
  replace (sealed (finalize_nf s)) with (sealed (ptg_nf s)) by reflexivity.
  replace (bag (finalize_nf s)) with (bag (ptg_nf s)) by reflexivity.
  reflexivity.
Qed.

(* the state in which the thread leaves its critical section: after the collection loop *)
Definition left_cs (g0 : Z) (s1 : state) : state :=
  let s2 := set_gc (g0 - 1) s1 in
  set_unpins (unpins s2 + 1) (set_ann 0 (set_pinned false s2)).

Lemma unpin_lvl_eq : forall u k s,
  unpin_lvl u k s =
  bind (if (gc s =? 1) && negb (collecting s)
        then bind (coll_loop u k (set_collecting true s)) (fun s' => Ok (set_collecting false s'))
        else Ok s)
       (fun s1 => if gc s =? 1
                  then (if hc s1 =? 0 then finalize_with u (left_cs (gc s) s1) else Ok (left_cs (gc s) s1))
                  else Ok (set_gc (gc s - 1) s1)).
Proof. reflexivity. Qed.

Lemma outside_intro : forall s s', collecting s' = false -> deferred s' = deferred s ->
  log s' = log s -> pend s' = pend s -> cons s -> PO s -> outside s'.
Proof.
  unfold outside, cons, PO. intros s s' H1 H2 H3 H4 A B. rewrite H2, H3, H4. auto.
Qed.

Lemma unpin_top : forall u k s, u_ok u -> outside s -> pinned s = true -> 1 <= gc s ->
  okres (unpin_lvl u k s) (unpin_post s).
Proof.
  intros u k s U (Oc & Ocons & OPO) P Hg. rewrite unpin_lvl_eq.
  destruct (gc s =? 1) eqn:E1; zify_b.
  - (* the last guard *)
    rewrite Oc. cbv [negb andb].
    eapply okres_bind.
    { eapply okres_bind.
      - apply (coll_loop_inside u U k (set_collecting true s)).
        + unfold inside. repeat split; auto.
          * apply cons_x_nil. exact Ocons.
        + change (1 <= gc s). lia.
      - intros s1 H1. unfold okres.
        instantiate (1 := fun s' => exists s1, s' = set_collecting false s1 /\
          (inside [] s1 /\ core s1 = core s /\ gc s1 = gc s /\ must_collect s1 = false)).
        exists s1. split; [reflexivity | exact H1]. }
    intros s1' (s1 & -> & I1 & C1 & G1 & M1). cbv beta.
    change (hc (set_collecting false s1)) with (hc s1).
    destruct (core_frame _ _ C1) as (F1 & H1 & Z1 & N1 & L1).
    destruct I1 as (_ & P1 & K1 & PO1 & _). apply cons_x_nil in K1.
    unfold frame in F1. inversion F1 as [[F1a F1b F1c F1d F1e F1f]]. clear F1.
    rewrite E1.
    set (X := left_cs 1 (set_collecting false s1)).
    destruct (hc s1 =? 0) eqn:E2; zify_b.
    + (* no handle left: finalize *)
      rewrite (finalize_eq u X U); [| reflexivity | reflexivity | exact M1].
      destruct (finalize_nf_fields X) as (A1 & A2 & A3 & A4 & A5 & A6 & A7 & A8 & A9 & A10 & A11 & A12 & A13).
      unfold okres, unpin_post.
      split; [|split; [|split; [|split]]].
      * apply (outside_intro s1); auto.
      * rewrite A6. unfold frame. subst X. unfold left_cs; cbn [live handle_alive coll_alive others maxobj err set_unpins set_ann set_pinned set_gc set_collecting]. congruence.
      * rewrite A2. change (gc X) with (1 - 1). lia.
      * intros. lia.
      * intros _. rewrite A4, A5, A9, A3, A8, A7, A10.
        change (must_collect X) with (must_collect s1).
        change (unpins X) with (unpins s1 + 1).
        change (finals X) with (finals s1).
        repeat split; try lia; try congruence.
    + (* a handle is left *)
      unfold okres, unpin_post.
      split; [|split; [|split; [|split]]].
      * apply (outside_intro s1); auto.
      * unfold frame. subst X. unfold left_cs; cbn [live handle_alive coll_alive others maxobj err set_unpins set_ann set_pinned set_gc set_collecting]. congruence.
      * change (gc X) with (1 - 1). lia.
      * intros. lia.
      * intros _.
        change (pinned X) with false.
        change (must_collect X) with (must_collect s1).
        change (unpins X) with (unpins s1 + 1).
        change (finals X) with (finals s1).
        change (hc X) with (hc s1).
        change (finalized X) with (finalized s1).
        repeat split; try lia; try congruence.
  - (* an inner guard *)
    cbv [andb]. unfold bind. cbv beta iota.
    unfold okres, unpin_post.
    split; [|split; [|split; [|split]]].
    + apply (outside_intro s); auto.
    + reflexivity.
    + reflexivity.
    + intros. repeat split; reflexivity.
    + intros. lia.
Qed.

(* ------------------------------------------------------------------------------------------ *)
(* Invariant at operation boundaries                                                          *)
(* ------------------------------------------------------------------------------------------ *)
Definition Inv (s : state) : Prop :=
  outside s /\
  pinned s = (0 <? gc s) /\
  gc s = len (live s) /\
  hc s = b2z (handle_alive s) /\
  (gc s = 0 -> must_collect s = false) /\
  finalized s = negb (handle_alive s) && (gc s =? 0) /\
  (finalized s = true -> bag s = []).

Definition abs_of (s : state) : abs := mkAbs (length (live s)) (handle_alive s) (coll_alive s).

Lemma unpin_is : unpin = unpin_lvl (unpin_at 2) LOOPFUEL.
Proof. reflexivity. Qed.

Global Opaque LOOPFUEL.

Lemma u_ok_unpin : u_ok unpin.
Proof. rewrite unpin_is. apply u_ok_lvl. Qed.

Lemma u_ok_2 : u_ok (unpin_at 2).
Proof. apply u_ok_at. Qed.

Lemma unpin_top' : forall s, outside s -> pinned s = true -> 1 <= gc s ->
  okres (unpin s) (unpin_post s).
Proof. intros. rewrite unpin_is. apply unpin_top; auto. apply u_ok_2. Qed.

(* Guard::reactivate / reactivate_after from the thread's own code *)
Definition react_post (s s' : state) : Prop :=
  outside s' /\ frame s' = frame s /\ gc s' = gc s /\ pinned s' = true /\ hc s' = hc s /\
  finals s' = finals s /\ finalized s' = finalized s /\
  unpins s' = unpins s + (if gc s =? 1 then 1 else 0) /\
  (2 <= gc s -> must_collect s' = must_collect s) /\ (gc s = 1 -> must_collect s' = false) /\
  bag s' = bag s' (* placeholder to keep the shape stable *).

Lemma repin_top : forall s, outside s -> pinned s = true -> 1 <= gc s -> 0 <= hc s ->
  okres (repin_with unpin s) (react_post s).
Proof.
  intros s O P Hg Hh. unfold repin_with.
  eapply okres_bind.
  - apply (unpin_top' (acquire_handle s)).
    + destruct O as (A & B & C). apply (outside_intro s); auto.
    + exact P.
    + exact Hg.
  - intros s1 (O1 & F1 & G1 & Big & Last).
    change (gc (acquire_handle s)) with (gc s) in *.
    change (hc (acquire_handle s)) with (hc s + 1) in *.
    change (pinned (acquire_handle s)) with (pinned s) in *.
    change (must_collect (acquire_handle s)) with (must_collect s) in *.
    change (unpins (acquire_handle s)) with (unpins s) in *.
    change (finals (acquire_handle s)) with (finals s) in *.
    change (finalized (acquire_handle s)) with (finalized s) in *.
    change (frame (acquire_handle s)) with (frame s) in *.
    rewrite pin_eq. destruct (MAXC <=? gc s1); [left; reflexivity|].
    unfold bind. unfold release_handle_with.
    change (gc (pin_nf s1)) with (gc s1 + 1).
    destruct (gc s1 + 1 =? 0) eqn:E; zify_b; [lia|]. cbv [andb].
    unfold okres, react_post.
    set (s' := set_hc (hc (pin_nf s1) - 1) (pin_nf s1)).
    change (frame s') with (frame s1).
    change (gc s') with (gc s1 + 1).
    change (pinned s') with (if gc s1 =? 0 then true else pinned s1).
    change (hc s') with (hc s1 - 1).
    change (finals s') with (finals s1).
    change (finalized s') with (finalized s1).
    change (unpins s') with (unpins s1).
    change (must_collect s') with (must_collect s1).
    assert (O' : outside s').
    { destruct O1 as (A & B & C). apply (outside_intro s1); auto. }
    destruct (gc s =? 1) eqn:E1; zify_b.
    + destruct (Last E1) as (L1 & L2 & L3 & _). destruct L3 as (L3 & L4 & L5 & L6); [lia|].
      replace (gc s1) with 0 by lia. cbv iota.
      split; [exact O' | repeat split; auto; try lia; try congruence].
    + destruct Big as (B1 & B2 & B3 & B4 & B5 & B6 & B7); [lia|].
      destruct (gc s1 =? 0) eqn:E2; zify_b; [lia|].
      split; [exact O' | repeat split; auto; try lia; try congruence].
Qed.

Lemma reactivate_after_eq : forall u s p, reactivate_after_with u s p = repin_with u s.
Proof. reflexivity. Qed.

(* ------------------------------------------------------------------------------------------ *)
(* One operation of the thread                                                                *)
(* ------------------------------------------------------------------------------------------ *)
Definition finalizing (s : state) (o : op) : bool :=
  match o with
  | DropHandle => gc s =? 0
  | DropGuard _ => (gc s =? 1) && negb (handle_alive s)
  | _ => false
  end.

Definition step_post (s : state) (o : op) (s' : state) : Prop :=
  others s' = others s /\ maxobj s' = maxobj s /\ err s' = err s /\
  finals s' = finals s + b2z (finalizing s o) /\
  match o with
  | DropCollector => finalized s' = true /\ sealed s' = [] /\ coll_alive s' = false
  | _ => coll_alive s' = coll_alive s
  end /\
  match o with
  | Reactivate _ | ReactivateAfter _ _ =>
      pinned s' = true /\ gc s' = gc s /\ live s' = live s /\ hc s' = hc s /\
      handle_alive s' = handle_alive s /\ finalized s' = finalized s /\
      unpins s' = unpins s + (if gc s =? 1 then 1 else 0)
  | _ => True
  end.

Lemma frame_inv : forall s s', frame s' = frame s ->
  live s' = live s /\ handle_alive s' = handle_alive s /\ coll_alive s' = coll_alive s /\
  others s' = others s /\ maxobj s' = maxobj s /\ err s' = err s.
Proof. unfold frame. intros s s' H. inversion H. auto 10. Qed.

Lemma len_nonneg : forall A (l : list A), 0 <= len l.
Proof. intros. unfold len. lia. Qed.

Lemma b2z_handle : forall s, hc s = b2z (handle_alive s) -> 0 <= hc s.
Proof. intros s H. rewrite H. destruct (handle_alive s); simpl; lia. Qed.

Lemma teardown_inv : forall s, Inv s -> finalized s = true ->
  Inv (teardown (set_coll_alive false s)).
Proof.
  intros s ((Oc & Ocons & OPO) & I1 & I2 & I3 & I4 & I5 & I6) Hf.
  specialize (I6 Hf).
  set (s' := teardown (set_coll_alive false s)).
  assert (Hp : pend s' = []).
  { unfold pend, s', teardown. simpl. exact I6. }
  split; [|repeat split; auto].
  unfold outside. split; [exact Oc | split].
  - intros x. rewrite Hp. simpl.
    change (deferred s') with (deferred s).
    change (log s') with (rev (map cid (concat (map snd (sealed s)))) ++ log s).
    rewrite cnt_app, cnt_rev. specialize (Ocons x). unfold pend in Ocons.
    rewrite I6, app_nil_r in Ocons. lia.
  - unfold PO. rewrite Hp. constructor.
Qed.

Lemma step_res_inv : forall s o a', Inv s -> wf_op (abs_of s) o = Some a' ->
  okres (step_res s o) (fun s' => Inv s' /\ abs_of s' = a' /\ step_post s o s').
Proof.
  intros s o a' HI W.
  pose proof HI as ((Oc & Ocons & OPO) & I1 & I2 & I3 & I4 & I5 & I6).
  assert (O : outside s) by (split; auto).
  assert (Hz : ((length (live s) =? 0)%nat = (gc s =? 0))).
  { rewrite I2. unfold len. destruct (live s); reflexivity. }
  unfold wf_op in W. cbn [ah an ac abs_of] in W. rewrite Hz, <- I5 in W.
  unfold step_res. destruct (finalized s) eqn:Hf.
  - (* the participant is gone: only DropCollector *)
    destruct o; try discriminate.
    destruct (coll_alive s) eqn:Hc; [|discriminate]. inversion W; subst a'. clear W.
    unfold okres. split; [apply teardown_inv; auto | split].
    + reflexivity.
    + unfold step_post. simpl. repeat split; auto; lia.
  - destruct o.
    + (* Cs *)
      destruct (handle_alive s) eqn:Ha; [|discriminate]. inversion W; subst a'. clear W.
      unfold gstep. rewrite pin_eq. destruct (MAXC <=? gc s); [left; reflexivity|].
      unfold bind, fst, snd, okres.
      set (s' := set_live (live s ++ [nextg (pin_nf s)]) (set_nextg (nextg (pin_nf s) + 1) (pin_nf s))).
      split; [|split].
      * unfold Inv.
        change (pinned s') with (if gc s =? 0 then true else pinned s).
        change (gc s') with (gc s + 1).
        change (live s') with (live s ++ [nextg (pin_nf s)]).
        change (hc s') with (hc s). change (handle_alive s') with (handle_alive s).
        change (must_collect s') with (must_collect s).
        change (finalized s') with (finalized s). change (bag s') with (bag s).
        pose proof (len_nonneg _ (live s)).
        split; [apply (outside_intro s); auto|]. repeat split; auto.
        { destruct (gc s =? 0) eqn:E; zify_b.
          - rewrite E. reflexivity.
          - rewrite I1. destruct (0 <? gc s) eqn:E2; destruct (0 <? gc s + 1) eqn:E3; zify_b; auto; lia. }
        { unfold len in *. rewrite app_length. simpl. lia. }
        { rewrite Ha. exact I3. }
        { intros. lia. }
        { rewrite Hf, Ha. reflexivity. }
        { rewrite Hf. discriminate. }
      * unfold abs_of. change (live s') with (live s ++ [nextg (pin_nf s)]).
        change (handle_alive s') with (handle_alive s). change (coll_alive s') with (coll_alive s).
        rewrite app_length, Ha. simpl. rewrite Nat.add_1_r. reflexivity.
      * unfold step_post. simpl. repeat split; auto; lia.
    + (* DropGuard *)
      destruct (i <? length (live s))%nat eqn:Hi; [|discriminate]. inversion W; subst a'. clear W.
      zify_b. unfold gstep. destruct (nth_error_lt _ i (live s) Hi) as [x ->].
      assert (Hg : 1 <= gc s) by (rewrite I2; unfold len; lia).
      assert (Hp : pinned s = true) by (rewrite I1; destruct (0 <? gc s) eqn:E; zify_b; auto; lia).
      rewrite bind_bind. eapply okres_bind; [apply unpin_top'; auto|].
      intros s1 (O1 & F1 & G1 & Big & Last). unfold bind, okres, fst, snd.
      destruct (frame_inv _ _ F1) as (Fl & Fh & Fc & Fo & Fm & Fe).
      set (s' := set_live (remove_nth i (live s)) s1).
      assert (O' : outside s') by (destruct O1 as (A & B & C); apply (outside_intro s1); auto).
      assert (Hh := b2z_handle s I3).
      split; [|split].
      * unfold Inv.
        change (pinned s') with (pinned s1). change (gc s') with (gc s1).
        change (live s') with (remove_nth i (live s)).
        change (hc s') with (hc s1). change (handle_alive s') with (handle_alive s1).
        change (must_collect s') with (must_collect s1).
        change (finalized s') with (finalized s1). change (bag s') with (bag s1).
        assert (Hl : gc s1 = len (remove_nth i (live s))).
        { unfold len. rewrite length_remove_nth by auto. rewrite G1, I2. unfold len. lia. }
        split; [exact O'|].
        destruct (Z.eq_dec (gc s) 1) as [E1|E1].
        { destruct (Last E1) as (L1 & L2 & L3 & L4).
          destruct (Z.eq_dec (hc s) 0) as [E2|E2].
          - destruct (L4 E2) as (M1 & M2 & M3 & M4 & M5).
            assert (handle_alive s = false) by (destruct (handle_alive s); simpl in I3; auto; lia).
            repeat split; auto.
            + rewrite L1, G1, E1. reflexivity.
            + rewrite M1, Fh, H. reflexivity.
            + rewrite M3, Fh, H, G1, E1. reflexivity.
          - destruct (L3 E2) as (M1 & M2 & M3 & M4).
            assert (handle_alive s = true) by (destruct (handle_alive s); simpl in I3; auto; lia).
            repeat split; auto.
            + rewrite L1, G1, E1. reflexivity.
            + rewrite M1, Fh. exact I3.
            + rewrite M3, Fh, H, Hf. reflexivity.
            + rewrite M3, Hf. discriminate. }
        { destruct Big as (B1 & B2 & B3 & B4 & B5 & B6 & B7); [lia|].
          repeat split; auto.
          - rewrite B1, Hp. destruct (0 <? gc s1) eqn:E; zify_b; auto; lia.
          - rewrite B3, Fh. exact I3.
          - intros. lia.
          - rewrite B6, Hf. destruct (gc s1 =? 0) eqn:E; zify_b; [lia|]. rewrite andb_false_r. reflexivity.
          - rewrite B6, Hf. discriminate. }
      * unfold abs_of. change (live s') with (remove_nth i (live s)).
        change (handle_alive s') with (handle_alive s1). change (coll_alive s') with (coll_alive s1).
        rewrite length_remove_nth by auto. rewrite Fh, Fc. reflexivity.
      * unfold step_post.
        change (others s') with (others s1). change (maxobj s') with (maxobj s1).
        change (err s') with (err s1). change (finals s') with (finals s1).
        repeat split; auto. unfold finalizing.
        destruct (Z.eq_dec (gc s) 1) as [E1|E1].
        { destruct (Last E1) as (L1 & L2 & L3 & L4).
          destruct (Z.eq_dec (hc s) 0) as [E2|E2].
          - destruct (L4 E2) as (M1 & M2 & M3 & M4 & M5).
            assert (handle_alive s = false) by (destruct (handle_alive s); simpl in I3; auto; lia).
            rewrite M2, H, E1. reflexivity.
          - destruct (L3 E2) as (M1 & M2 & M3 & M4).
            assert (handle_alive s = true) by (destruct (handle_alive s); simpl in I3; auto; lia).
            rewrite M2, H, E1. simpl. lia. }
        { destruct Big as (B1 & B2 & B3 & B4 & B5 & B6 & B7); [lia|].
          destruct (gc s =? 1) eqn:E; zify_b; [lia|]. simpl. lia. }
    + (* Reactivate *)
      destruct (i <? length (live s))%nat eqn:Hi; [|discriminate]. inversion W; subst a'. clear W.
      zify_b. unfold gstep. destruct (nth_error_lt _ i (live s) Hi) as [x ->].
      assert (Hg : 1 <= gc s) by (rewrite I2; unfold len; lia).
      assert (Hp : pinned s = true) by (rewrite I1; destruct (0 <? gc s) eqn:E; zify_b; auto; lia).
      assert (Hh := b2z_handle s I3).
      rewrite bind_bind. eapply okres_bind; [apply repin_top; auto|].
      intros s1 (O1 & F1 & G1 & P1 & H1 & N1 & Z1 & U1 & M1 & M2 & _). unfold bind, okres, fst, snd.
      destruct (frame_inv _ _ F1) as (Fl & Fh & Fc & Fo & Fm & Fe).
      set (s' := set_live (live s) s1).
      assert (O' : outside s') by (destruct O1 as (A & B & C); apply (outside_intro s1); auto).
      split; [|split].
      * unfold Inv.
        change (pinned s') with (pinned s1). change (gc s') with (gc s1).
        change (live s') with (live s).
        change (hc s') with (hc s1). change (handle_alive s') with (handle_alive s1).
        change (must_collect s') with (must_collect s1).
        change (finalized s') with (finalized s1). change (bag s') with (bag s1).
        split; [exact O'|]. repeat split; auto.
        { rewrite P1, G1. destruct (0 <? gc s) eqn:E; zify_b; auto; lia. }
        { rewrite G1. exact I2. }
        { rewrite H1, Fh. exact I3. }
        { intros. lia. }
        { rewrite Z1, Fh, G1, Hf. exact I5. }
        { rewrite Z1, Hf. discriminate. }
      * unfold abs_of. change (live s') with (live s).
        change (handle_alive s') with (handle_alive s1). change (coll_alive s') with (coll_alive s1).
        rewrite Fh, Fc. reflexivity.
      * unfold step_post.
        change (others s') with (others s1). change (maxobj s') with (maxobj s1).
        change (err s') with (err s1). change (finals s') with (finals s1).
        change (pinned s') with (pinned s1). change (gc s') with (gc s1).
        change (live s') with (live s). change (hc s') with (hc s1).
        change (handle_alive s') with (handle_alive s1). change (finalized s') with (finalized s1).
        change (unpins s') with (unpins s1).
        simpl finalizing. simpl b2z. repeat split; auto; lia.
    + (* ReactivateAfter *)
      destruct (i <? length (live s))%nat eqn:Hi; [|discriminate]. inversion W; subst a'. clear W.
      zify_b. unfold gstep. destruct (nth_error_lt _ i (live s) Hi) as [x ->].
      assert (Hg : 1 <= gc s) by (rewrite I2; unfold len; lia).
      assert (Hp : pinned s = true) by (rewrite I1; destruct (0 <? gc s) eqn:E; zify_b; auto; lia).
      assert (Hh := b2z_handle s I3).
      rewrite bind_bind. rewrite reactivate_after_eq. eapply okres_bind; [apply repin_top; auto|].
      intros s1 (O1 & F1 & G1 & P1 & H1 & N1 & Z1 & U1 & M1 & M2 & _). unfold bind, okres, fst, snd.
      destruct (frame_inv _ _ F1) as (Fl & Fh & Fc & Fo & Fm & Fe).
      set (s' := set_live (live s) s1).
      assert (O' : outside s') by (destruct O1 as (A & B & C); apply (outside_intro s1); auto).
      split; [|split].
      * unfold Inv.
        change (pinned s') with (pinned s1). change (gc s') with (gc s1).
        change (live s') with (live s).
        change (hc s') with (hc s1). change (handle_alive s') with (handle_alive s1).
        change (must_collect s') with (must_collect s1).
        change (finalized s') with (finalized s1). change (bag s') with (bag s1).
        split; [exact O'|]. repeat split; auto.
        { rewrite P1, G1. destruct (0 <? gc s) eqn:E; zify_b; auto; lia. }
        { rewrite G1. exact I2. }
        { rewrite H1, Fh. exact I3. }
        { intros. lia. }
        { rewrite Z1, Fh, G1, Hf. exact I5. }
        { rewrite Z1, Hf. discriminate. }
      * unfold abs_of. change (live s') with (live s).
        change (handle_alive s') with (handle_alive s1). change (coll_alive s') with (coll_alive s1).
        rewrite Fh, Fc. reflexivity.
      * unfold step_post.
        change (others s') with (others s1). change (maxobj s') with (maxobj s1).
        change (err s') with (err s1). change (finals s') with (finals s1).
        change (pinned s') with (pinned s1). change (gc s') with (gc s1).
        change (live s') with (live s). change (hc s') with (hc s1).
        change (handle_alive s') with (handle_alive s1). change (finalized s') with (finalized s1).
        change (unpins s') with (unpins s1).
        simpl finalizing. simpl b2z. repeat split; auto; lia.
    + (* Flush *)
      destruct (i <? length (live s))%nat eqn:Hi; [|discriminate]. inversion W; subst a'. clear W.
      zify_b. unfold gstep. destruct (nth_error_lt _ i (live s) Hi) as [x ->].
      unfold bind, okres, fst, snd.
      assert (Hg : 1 <= gc s) by (rewrite I2; unfold len; lia).
      pose proof quiet_flush as Q.
      set (s' := set_live (live s) (flush s)).
      destruct (core_frame _ _ (q_core _ Q s)) as (F1 & H1 & Z1 & N1 & L1).
      destruct (frame_inv _ _ F1) as (Fl & Fh & Fc & Fo & Fm & Fe).
      assert (O' : outside s').
      { apply (outside_intro s); auto.
        - change (collecting s') with (collecting (flush s)). rewrite (q_coll _ Q). exact Oc.
        - change (deferred s') with (deferred (flush s)). apply (q_def _ Q).
        - change (log s') with (log (flush s)). apply (q_log _ Q).
        - change (pend s') with (pend (flush s)). apply (q_pend _ Q). }
      split; [|split].
      * unfold Inv.
        change (pinned s') with (pinned (flush s)). change (gc s') with (gc (flush s)).
        change (live s') with (live s).
        change (hc s') with (hc (flush s)). change (handle_alive s') with (handle_alive (flush s)).
        change (must_collect s') with (must_collect (flush s)).
        change (finalized s') with (finalized (flush s)). change (bag s') with (bag (flush s)).
        rewrite (q_gc _ Q), (q_pin' _ Q) by auto.
        split; [exact O'|]. repeat split; auto.
        { rewrite H1, Fh. exact I3. }
        { intros. lia. }
        { rewrite Z1, Fh, Hf. exact I5. }
        { rewrite Z1, Hf. discriminate. }
      * unfold abs_of. change (live s') with (live s).
        change (handle_alive s') with (handle_alive (flush s)). change (coll_alive s') with (coll_alive (flush s)).
        rewrite Fh, Fc. reflexivity.
      * unfold step_post.
        change (others s') with (others (flush s)). change (maxobj s') with (maxobj (flush s)).
        change (err s') with (err (flush s)). change (finals s') with (finals (flush s)).
        simpl finalizing. simpl b2z. repeat split; auto; lia.
    + (* Defer *)
      destruct (i <? length (live s))%nat eqn:Hi; [|discriminate].
      destruct (body_ok 0 body) eqn:Hb; [|discriminate]. cbn [andb] in W.
      inversion W; subst a'. clear W.
      zify_b. unfold gstep. destruct (nth_error_lt _ i (live s) Hi) as [x ->].
      unfold bind, okres, fst, snd.
      assert (Hg : 1 <= gc s) by (rewrite I2; unfold len; lia).
      pose proof (deferlike_defer (Clo id body)) as Q. cbv beta in Q.
      set (t := defer_ s (Clo id body)) in *.
      set (s' := set_live (live s) t).
      destruct (core_frame _ _ (d_core _ _ Q s)) as (F1 & H1 & Z1 & N1 & L1).
      fold t in F1, H1, Z1, N1, L1.
      destruct (frame_inv _ _ F1) as (Fl & Fh & Fc & Fo & Fm & Fe).
      assert (O' : outside s').
      { unfold outside. split; [|split].
        - change (collecting s') with (collecting t). unfold t. rewrite (d_coll _ _ Q). exact Oc.
        - intros y. change (deferred s') with (deferred t). change (log s') with (log t).
          change (pend s') with (pend t). unfold t.
          rewrite (d_def _ _ Q), (d_log _ _ Q), (d_pend _ _ Q), map_app, cnt_app.
          specialize (Ocons y). simpl. lia.
        - unfold PO. change (pend s') with (pend t). unfold t. rewrite (d_pend _ _ Q).
          apply Forall_app. split; [exact OPO|]. constructor; [exact Hb | constructor]. }
      split; [|split].
      * unfold Inv.
        change (pinned s') with (pinned t). change (gc s') with (gc t).
        change (live s') with (live s).
        change (hc s') with (hc t). change (handle_alive s') with (handle_alive t).
        change (must_collect s') with (must_collect t).
        change (finalized s') with (finalized t). change (bag s') with (bag t).
        assert (Gt : gc t = gc s) by apply (d_gc _ _ Q).
        assert (Pt : pinned t = pinned s) by (apply (d_pin' _ _ Q); auto).
        rewrite !Gt, Pt.
        split; [exact O'|]. repeat split; auto.
        { rewrite H1, Fh. exact I3. }
        { intros. lia. }
        { rewrite Z1, Fh, Hf. exact I5. }
        { rewrite Z1, Hf. discriminate. }
      * unfold abs_of. change (live s') with (live s).
        change (handle_alive s') with (handle_alive t). change (coll_alive s') with (coll_alive t).
        rewrite Fh, Fc. reflexivity.
      * unfold step_post.
        change (others s') with (others t). change (maxobj s') with (maxobj t).
        change (err s') with (err t). change (finals s') with (finals t).
        simpl finalizing. simpl b2z. repeat split; auto; lia.
    + (* DropHandle *)
      destruct (handle_alive s) eqn:Ha; [|discriminate]. inversion W; subst a'. clear W.
      simpl in I3. unfold release_handle_with.
      change (gc (set_handle_alive false s)) with (gc s).
      change (hc (set_handle_alive false s)) with (hc s). rewrite I3.
      change (1 =? 1) with true. rewrite andb_true_r.
      set (s0 := set_hc (1 - 1) (set_handle_alive false s)).
      destruct (gc s =? 0) eqn:E0; zify_b.
      * (* no guard is live: finalize now *)
        rewrite (finalize_eq unpin s0 u_ok_unpin); [|exact E0 | exact Oc | apply I4; exact E0].
        destruct (finalize_nf_fields s0) as (A1 & A2 & A3 & A4 & A5 & A6 & A7 & A8 & A9 & A10 & A11 & A12 & A13).
        destruct (frame_inv _ _ A6) as (Fl & Fh & Fc & Fo & Fm & Fe).
        unfold okres. split; [|split].
        { unfold Inv. split; [apply (outside_intro s); auto|].
          rewrite A4, A2, A3, A5, A7, A10, Fl, Fh.
          change (gc s0) with (gc s). change (live s0) with (live s).
          change (handle_alive s0) with false. change (must_collect s0) with (must_collect s).
          rewrite E0. repeat split; auto. rewrite <- I2, E0. reflexivity. }
        { unfold abs_of. rewrite Fl, Fh, Fc. reflexivity. }
        { unfold step_post. rewrite Fo, Fm, Fe, A8. unfold finalizing.
          destruct (gc s =? 0) eqn:E; zify_b; [|lia]. simpl. repeat split; auto. }
      * unfold okres. split; [|split].
        { unfold Inv. split; [apply (outside_intro s); auto|].
          change (pinned s0) with (pinned s). change (gc s0) with (gc s).
          change (live s0) with (live s). change (hc s0) with (1 - 1).
          change (handle_alive s0) with false. change (must_collect s0) with (must_collect s).
          change (finalized s0) with (finalized s). change (bag s0) with (bag s).
          repeat split; auto.
          - rewrite Hf. destruct (gc s =? 0) eqn:E; zify_b; [lia | reflexivity].
          - rewrite Hf. discriminate. }
        { reflexivity. }
        { unfold step_post. simpl. destruct (gc s =? 0) eqn:E; zify_b; [lia|]. simpl.
          repeat split; auto; lia. }
    + discriminate.
    + discriminate.
Qed.

(* ------------------------------------------------------------------------------------------ *)
(* Whole programs                                                                             *)
(* ------------------------------------------------------------------------------------------ *)
Fixpoint abs_run (a : abs) (p : list op) : option abs :=
  match p with
  | [] => Some a
  | o :: r => match wf_op a o with Some a' => abs_run a' r | None => None end
  end.

Lemma wf_from_abs_run : forall p a, wf_from a p = true <-> exists a', abs_run a p = Some a'.
Proof.
  induction p as [|o r IH]; intros a; simpl.
  - split; eauto.
  - destruct (wf_op a o); [apply IH|]. split; [discriminate | intros [a' H]; discriminate].
Qed.

Lemma abs_run_app : forall p q a, abs_run a (p ++ q) =
  match abs_run a p with Some a' => abs_run a' q | None => None end.
Proof.
  induction p as [|o r IH]; intros q a; simpl; auto.
  destruct (wf_op a o); auto.
Qed.

Lemma run_app : forall p q s, run s (p ++ q) = run (run s p) q.
Proof. induction p; simpl; intros; auto. Qed.

Lemma Inv_init : forall mo, Inv (init_state mo).
Proof.
  intros. unfold Inv, outside, cons, PO, pend. simpl. repeat split; auto; try discriminate.
Qed.

Lemma step_err : forall s o, err s <> 0 -> fst (step s o) = s.
Proof. intros. unfold step. destruct (err s =? 0) eqn:E; zify_b; [contradiction | reflexivity]. Qed.

Lemma run_err : forall p s, err s <> 0 -> run s p = s.
Proof. induction p; simpl; intros; auto. rewrite step_err by auto. auto. Qed.

Lemma allowed_nonzero : forall c, allowed c -> c <> 0.
Proof. unfold allowed, E_OVERFLOW, E_LOOP. intros c [H|H]; lia. Qed.

(* the collector reference of the harness: dropped only after finalization; then the queue is empty *)
Definition Inv2 (s : state) : Prop := coll_alive s = false -> finalized s = true /\ sealed s = [].

Definition good (a : abs) (s : state) : Prop := err s = 0 /\ Inv s /\ Inv2 s /\ abs_of s = a.

Lemma wf_final : forall s o a', Inv s -> wf_op (abs_of s) o = Some a' ->
  finalized s = true -> o = DropCollector.
Proof.
  intros s o a' (_ & _ & I2 & _ & _ & I5 & _) W Hf.
  assert (Hz : ((length (live s) =? 0)%nat = (gc s =? 0))).
  { rewrite I2. unfold len. destruct (live s); reflexivity. }
  unfold wf_op in W. cbn [ah an ac abs_of] in W. rewrite Hz, <- I5, Hf in W.
  destruct o; try discriminate. reflexivity.
Qed.

Lemma step_good : forall s o a a', good a s -> wf_op a o = Some a' ->
  let s' := fst (step s o) in good a' s' \/ (allowed (err s') /\ s' = set_err (err s') s).
Proof.
  intros s o a a' (E & I & I2 & A) W. subst a. unfold step. rewrite E. simpl.
  pose proof (step_res_inv s o a' I W) as H.
  destruct (step_res s o) as [s1|c]; simpl in *.
  - left. destruct H as (I1 & A1 & O1 & M1 & E1 & F1 & C1 & _).
    unfold good. split; [lia | split; [exact I1 | split; [| exact A1]]].
    unfold Inv2 in *. intros Hc.
    destruct (finalized s) eqn:Hf.
    + rewrite (wf_final s o a' I W Hf) in C1. destruct C1 as (C1 & C2 & C3). auto.
    + assert (coll_alive s = true).
      { destruct (coll_alive s) eqn:Hs; auto. destruct (I2 eq_refl). discriminate. }
      destruct o; try congruence. destruct C1 as (C1 & C2 & C3). auto.
  - right. split; auto.
Qed.

Lemma run_good : forall p s a a', good a s -> abs_run a p = Some a' ->
  good a' (run s p) \/ allowed (err (run s p)).
Proof.
  induction p as [|o r IH]; intros s a a' Gd W; simpl in *.
  - inversion W; subst. left. exact Gd.
  - destruct (wf_op a o) as [a1|] eqn:W1; [|discriminate].
    destruct (step_good s o a a1 Gd W1) as [G1 | (Al & Eq)].
    + eapply IH; eauto.
    + right. rewrite run_err; auto. apply allowed_nonzero; auto.
Qed.

Definition abs0 : abs := mkAbs O true true.

Lemma good_init : forall mo, good abs0 (init_state mo).
Proof.
  intros. unfold good. repeat split; try reflexivity; try apply Inv_init.
  unfold Inv2. simpl. discriminate.
Qed.

(* the states a well-formed program can reach *)
Definition reachable (s : state) : Prop :=
  exists mo p, wf_prog p = true /\ s = run (init_state mo) p /\ err s = 0.

Lemma reachable_good : forall s, reachable s -> exists a, good a s.
Proof.
  intros s (mo & p & W & -> & E).
  apply wf_from_abs_run in W. destruct W as [a' W].
  destruct (run_good p (init_state mo) abs0 a' (good_init mo) W) as [Gd | Al].
  - eauto.
  - apply allowed_nonzero in Al. contradiction.
Qed.

Lemma reachable_inv : forall s, reachable s -> Inv s.
Proof. intros s H. destruct (reachable_good s H) as (a & _ & I & _). exact I. Qed.

(* ------------------------------------------------------------------------------------------ *)
(* C16                                                                                        *)
(* ------------------------------------------------------------------------------------------ *)

(* At every operation boundary of every well-formed program the pinned bit is set iff a guard
   is live, and guard_count is the number of live guards. *)
Theorem C16_pinned_iff : forall mo p, wf_prog p = true ->
  let s := run (init_state mo) p in
  err s = 0 -> pinned s = (0 <? gc s) /\ gc s = Z.of_nat (length (live s)).
Proof.
  intros mo p W s E.
  assert (R : reachable s) by (exists mo, p; auto).
  destruct (reachable_inv s R) as (_ & I1 & I2 & _). auto.
Qed.

(* The same inside destructors: while a closure body runs during a collection (any prefix
   [ops] of any well-formed body, started with the guards [lg] it already holds), the thread
   stays pinned and guard_count = the outer guards + the guards the closure holds. *)
Theorem C16_pinned_in_closure : forall l extra ops s lg s' lg',
  collecting s = true -> pinned s = true -> 1 <= gc s - Z.of_nat (length lg) ->
  cons_x extra s -> PO s -> Forall clo_ok extra ->
  body_ok (length lg) ops = true ->
  run_body (unpin_at (S l)) s lg ops = Ok (s', lg') ->
  pinned s' = true /\ collecting s' = true /\
  gc s' - Z.of_nat (length lg') = gc s - Z.of_nat (length lg) /\
  unpins s' = unpins s /\ finals s' = finals s /\ finalized s' = finalized s /\ hc s' = hc s.
Proof.
  intros l extra ops s lg s' lg' Hc Hp Hg Hx Hpo He Hb Hr.
  pose proof (run_body_inside (unpin_at (S l)) extra (u_ok_at l) ops s lg) as H.
  rewrite Hr in H. simpl in H.
  destruct H as ((A & B & _) & C & D); auto.
  - unfold inside. auto.
  - destruct (core_frame _ _ C) as (_ & H1 & H2 & H3 & H4). simpl in *.
    unfold len in D. repeat split; auto.
Qed.

Lemma reachable_step : forall s o a', reachable s -> wf_op (abs_of s) o = Some a' ->
  forall s', step_res s o = Ok s' -> Inv s' /\ abs_of s' = a' /\ step_post s o s'.
Proof.
  intros s o a' R W s' H. pose proof (step_res_inv s o a' (reachable_inv s R) W) as K.
  rewrite H in K. exact K.
Qed.

Lemma wf_op_react : forall s i, Inv s -> (i < length (live s))%nat ->
  wf_op (abs_of s) (Reactivate i) = Some (abs_of s) /\
  forall p, wf_op (abs_of s) (ReactivateAfter i p) = Some (abs_of s).
Proof.
  intros s i (_ & _ & I2 & _ & _ & I5 & _) Hi.
  unfold wf_op. cbn [ah an ac abs_of].
  assert ((length (live s) =? 0)%nat = false) by (apply Nat.eqb_neq; lia).
  rewrite H, andb_false_r. apply Nat.ltb_lt in Hi. rewrite Hi. auto.
Qed.

(* Reactivate / ReactivateAfter on a live guard i of a reachable state:
   the unpinned epoch is stored during the call (exactly once) iff this is the sole live guard;
   afterwards the thread is pinned again, guard_count, the live guards, handle_count are
   unchanged, and the participant was not finalized on the way. *)
Definition react_ok (s s' : state) : Prop :=
  pinned s' = true /\ gc s' = gc s /\ live s' = live s /\ hc s' = hc s /\
  (gc s = 1 -> unpins s' = unpins s + 1) /\ (gc s <> 1 -> unpins s' = unpins s) /\
  finals s' = finals s /\ finalized s' = false /\ others s' = others s.

Theorem C16_reactivate : forall s i s', reachable s -> (i < length (live s))%nat ->
  (step_res s (Reactivate i) = Ok s' -> react_ok s s') /\
  (forall panics, step_res s (ReactivateAfter i panics) = Ok s' -> react_ok s s').
Proof.
  intros s i s' R Hi.
  pose proof (reachable_inv s R) as I.
  destruct (wf_op_react s i I Hi) as [W1 W2].
  assert (Hf : finalized s = false).
  { destruct I as (_ & _ & I2 & _ & _ & I5 & _). rewrite I5.
    destruct (gc s =? 0) eqn:E; zify_b; [|apply andb_false_r].
    rewrite I2 in E. unfold len in E. lia. }
  split; [intros H | intros p H].
  - destruct (reachable_step s _ _ R W1 s' H) as (_ & _ & O1 & M1 & E1 & F1 & C1 & P1 & G1 & L1 & H1 & A1 & Z1 & U1).
    unfold react_ok. simpl in F1. repeat split; auto; try lia; try congruence.
    + intros E. rewrite U1. destruct (gc s =? 1) eqn:E2; zify_b; lia.
    + intros E. rewrite U1. destruct (gc s =? 1) eqn:E2; zify_b; lia.
  - destruct (reachable_step s _ _ R (W2 p) s' H) as (_ & _ & O1 & M1 & E1 & F1 & C1 & P1 & G1 & L1 & H1 & A1 & Z1 & U1).
    unfold react_ok. simpl in F1. repeat split; auto; try lia; try congruence.
    + intros E. rewrite U1. destruct (gc s =? 1) eqn:E2; zify_b; lia.
    + intros E. rewrite U1. destruct (gc s =? 1) eqn:E2; zify_b; lia.
Qed.

(* the scope guard of reactivate_after: whether the closure returns or panics makes no difference *)
Theorem C16_reactivate_panic : forall s i, step_res s (ReactivateAfter i true) = step_res s (ReactivateAfter i false).
Proof. reflexivity. Qed.

(* and a reactivation neither fails for lack of fuel in the levels nor for an ill-formed closure *)
Theorem C16_reactivate_runs : forall s i o, reachable s -> (i < length (live s))%nat ->
  (o = Reactivate i \/ exists p, o = ReactivateAfter i p) ->
  (exists s', step_res s o = Ok s') \/ step_res s o = Err E_OVERFLOW \/ step_res s o = Err E_LOOP.
Proof.
  intros s i o R Hi Ho.
  pose proof (reachable_inv s R) as I.
  destruct (wf_op_react s i I Hi) as [W1 W2].
  assert (W : wf_op (abs_of s) o = Some (abs_of s)) by (destruct Ho as [-> | [p ->]]; auto).
  pose proof (step_res_inv s o _ I W) as K.
  destruct (step_res s o) as [s'|c]; [left; eauto | right]. simpl in K.
  destruct K as [-> | ->]; auto.
Qed.

(* finalize fires only in the operation that removes the last reference to the participant:
   DropHandle with no live guard, or dropping the last guard after the handle is gone; in
   particular never inside reactivate / reactivate_after and never while a guard stays live *)
Theorem C16_no_finalize_midway : forall s o a' s', reachable s ->
  wf_op (abs_of s) o = Some a' -> step_res s o = Ok s' ->
  finals s' = finals s + b2z (finalizing s o) /\
  (finalized s' = true -> gc s' = 0 /\ live s' = [] /\ handle_alive s' = false /\ pinned s' = false) /\
  (finalized s' = false -> finals s' = finals s).
Proof.
  intros s o a' s' R W H.
  destruct (reachable_step s o a' R W s' H) as (I' & _ & O1 & M1 & E1 & F1 & C1 & _).
  pose proof (reachable_inv s R) as I.
  destruct I' as (_ & J1 & J2 & J3 & J4 & J5 & J6).
  split; [exact F1 | split].
  - intros Hf. rewrite Hf in J5. symmetry in J5. apply andb_prop in J5. destruct J5 as [A B].
    zify_b. rewrite J1, B. repeat split; auto.
    + rewrite J2 in B. unfold len in B. destruct (live s'); simpl in *; [auto | lia].
    + destruct (handle_alive s'); simpl in *; auto; discriminate.
  - intros Hf. rewrite F1.
    destruct (finalizing s o) eqn:Fz; [|simpl; lia]. exfalso.
    (* a finalizing operation leaves a finalized state *)
    destruct I as (_ & K1 & K2 & K3 & K4 & K5 & K6).
    assert (Hz : ((length (live s) =? 0)%nat = (gc s =? 0))).
    { rewrite K2. unfold len. destruct (live s); reflexivity. }
    pose proof W as W0.
    unfold wf_op in W. cbn [ah an ac abs_of] in W. rewrite Hz, <- K5 in W.
    destruct (finalized s) eqn:Hs.
    { destruct o; try discriminate. }
    destruct o; simpl in Fz; try discriminate.
    + (* DropGuard *)
      destruct (i <? length (live s))%nat eqn:Hi; [|discriminate]. inversion W; subst a'.
      zify_b. rewrite J5 in Hf.
      assert (abs_of s' = mkAbs (pred (length (live s))) (handle_alive s) (coll_alive s)).
      { destruct (reachable_step s _ _ R W0 s' H) as (_ & A & _). exact A. }
      unfold abs_of in H2. inversion H2.
      destruct (handle_alive s); [discriminate|]. rewrite H5 in Hf. simpl in Hf.
      rewrite J2 in Hf. unfold len in Hf. rewrite H4 in Hf.
      rewrite K2 in H0. unfold len in H0.
      destruct (length (live s)) as [|[|n]]; simpl in *; try lia; try discriminate.
    + (* DropHandle *)
      destruct (handle_alive s) eqn:Ha; [|discriminate]. inversion W; subst a'.
      zify_b. rewrite J5 in Hf.
      assert (abs_of s' = mkAbs (length (live s)) false (coll_alive s)).
      { destruct (reachable_step s _ _ R W0 s' H) as (_ & A & _). exact A. }
      unfold abs_of in H0. inversion H0. rewrite H3 in Hf. simpl in Hf.
      rewrite J2 in Hf. unfold len in Hf. rewrite H2 in Hf.
      rewrite K2 in Fz. unfold len in Fz.
      destruct (length (live s)); simpl in *; try lia; try discriminate.
Qed.

(* no operation of this thread writes the record of another participant *)
Theorem C16_frame : forall s o a' s', reachable s -> wf_op (abs_of s) o = Some a' ->
  step_res s o = Ok s' -> others s' = others s.
Proof.
  intros s o a' s' R W H.
  destruct (reachable_step s o a' R W s' H) as (_ & _ & O1 & _). exact O1.
Qed.

(* ------------------------------------------------------------------------------------------ *)
(* C20                                                                                        *)
(* ------------------------------------------------------------------------------------------ *)

(* A well-formed program never reaches one of the ill-formedness outcomes (guard that is not
   live, dead participant, missing handle, thread-level operation in a destructor, collector
   dropped early) and the level fuel of the definition of [unpin] is never exhausted.  The two
   outcomes left are the documented panic of `guard_count.checked_add(1).unwrap()` and the
   bound of the `while must_collect` loop; C20_no_stuck below excludes both for programs of
   realistic size. *)
Theorem C20_no_stuck_codes : forall mo p, wf_prog p = true ->
  let s := run (init_state mo) p in
  err s = 0 \/ err s = E_OVERFLOW \/ err s = E_LOOP.
Proof.
  intros mo p W s. apply wf_from_abs_run in W. destruct W as [a' W].
  destruct (run_good p (init_state mo) abs0 a' (good_init mo) W) as [(E & _) | Al].
  - left. exact E.
  - right. exact Al.
Qed.

(* When the thread is gone -- all guards dropped and the handle dropped, in either order --
   the participant has been finalized, its local bag is empty, and every closure the thread
   ever deferred (including those deferred by destructors, and the internal node garbage, id 0)
   has either run or sits in a sealed bag of the global queue: nothing is lost. *)
Theorem C20_handover : forall mo p, wf_prog p = true ->
  let s := run (init_state mo) p in
  err s = 0 -> handle_alive s = false -> live s = [] ->
  finalized s = true /\ bag s = [] /\ pinned s = false /\
  forall x, 0 <= x ->
    cnt x (deferred s) = cnt x (log s) + cnt x (map cid (concat (map snd (sealed s)))).
Proof.
  intros mo p W s E Ha Hl.
  assert (R : reachable s) by (exists mo, p; auto).
  destruct (reachable_inv s R) as ((_ & Hc & _) & I1 & I2 & _ & _ & I5 & I6).
  assert (Hg : gc s = 0) by (rewrite I2, Hl; reflexivity).
  assert (Hf : finalized s = true) by (rewrite I5, Ha, Hg; reflexivity).
  specialize (I6 Hf). repeat split; auto.
  - rewrite I1, Hg. reflexivity.
  - intros x Hx. specialize (Hc x Hx). unfold pend in Hc. rewrite I6, app_nil_r in Hc. exact Hc.
Qed.

(* ... and once the last reference to the collector is dropped, everything has run *)
Theorem C20_all_run : forall mo p, wf_prog p = true ->
  let s := run (init_state mo) p in
  err s = 0 -> coll_alive s = false ->
  finalized s = true /\ sealed s = [] /\ bag s = [] /\
  forall x, 0 <= x -> cnt x (deferred s) = cnt x (log s).
Proof.
  intros mo p W s E Hc.
  assert (R : reachable s) by (exists mo, p; auto).
  destruct (reachable_good s R) as (a & _ & ((_ & Co & _) & _ & _ & _ & _ & _ & I6) & I2 & _).
  destruct (I2 Hc) as (Hf & Hs). specialize (I6 Hf). repeat split; auto.
  intros x Hx. specialize (Co x Hx). unfold pend in Co. rewrite Hs, I6 in Co. simpl in Co. lia.
Qed.

(* the thread-exit sequences do lead there: dropping the handle with no live guard, or the
   last guard after the handle, finalizes *)
Theorem C20_exit_finalizes : forall s o a' s', reachable s ->
  wf_op (abs_of s) o = Some a' -> step_res s o = Ok s' ->
  handle_alive s' = false -> live s' = [] -> finalized s' = true /\ bag s' = [].
Proof.
  intros s o a' s' R W H Ha Hl.
  destruct (reachable_step s o a' R W s' H) as ((_ & I1 & I2 & _ & _ & I5 & I6) & _).
  assert (Hg : gc s' = 0) by (rewrite I2, Hl; reflexivity).
  assert (Hf : finalized s' = true) by (rewrite I5, Ha, Hg; reflexivity).
  auto.
Qed.

(* ------------------------------------------------------------------------------------------ *)
(* Examples (the same three programs open every `@guard` stream of guardseq.rs)               *)
(* ------------------------------------------------------------------------------------------ *)
(* nested guards dropped out of order: pinned until the last one goes *)
Definition ex1 : list op :=
  [Cs; Cs; Cs; DropGuard 0; DropGuard 1; DropGuard 0; DropHandle; DropCollector].

Example ex1_wf : wf_prog ex1 = true. Proof. reflexivity. Qed.

Example ex1_obs : snd (run_obs (init_state 2) ex1) =
  [1; 1; 1; 0; 0; 0; 0; 0; -1;   2; 1; 1; 0; 0; 0; 0; 0; -1;   3; 1; 1; 0; 0; 0; 0; 0; -1;
   2; 1; 1; 0; 0; 0; 0; 0; -1;   1; 1; 1; 0; 0; 0; 0; 0; -1;   0; 1; 0; 0; 0; 0; 0; 0; -1;
   0; 0; 0; 0; 0; 0; 0; 0; -1;   0; 0; 0; 0; 0; 0; 0; 0; -1].
Proof. vm_compute. reflexivity. Qed.

(* reactivation under two guards (the unpinned epoch is never stored) and as the sole guard
   (stored once per call, also when the closure panics); the last drop stores it once more *)
Definition ex2 : list op :=
  [Cs; Cs; Reactivate 0; ReactivateAfter 1 true; DropGuard 0; Reactivate 0;
   ReactivateAfter 0 true; DropGuard 0].

Example ex2_wf : wf_prog ex2 = true. Proof. reflexivity. Qed.

Example ex2_unpins :
  map (fun n => let s := run (init_state 2) (firstn n ex2) in (gc s, b2z (pinned s), unpins s))
      [0; 1; 2; 3; 4; 5; 6; 7; 8]%nat =
  [(0, 0, 0); (1, 1, 0); (2, 1, 0); (2, 1, 0); (2, 1, 0); (1, 1, 0); (1, 1, 1); (1, 1, 2); (0, 0, 3)].
Proof. vm_compute. reflexivity. Qed.

(* a closure that pins, flushes, defers a second closure (which pins twice and leaves a guard
   behind), reactivates its own guard and unpins -- all during the collection that runs it.
   Closure 1 runs in the drop of the third round after its bag was sealed; its flush makes the
   `while must_collect` loop go round once more (the epoch moves from 2 to 4 within one unpin);
   closure 2 runs three rounds later. *)
Definition round : list op := [Cs; Flush 0; DropGuard 0].
Definition ex3 : list op :=
  [Cs; Defer 0 1 [Cs; Flush 0; Defer 0 2 [Cs; Cs; DropGuard 0]; Reactivate 0; DropGuard 0];
   Flush 0; DropGuard 0] ++ round ++ round ++ round ++ round ++ round ++ round ++ round ++
  [DropHandle; DropCollector].

Example ex3_wf : wf_prog ex3 = true. Proof. reflexivity. Qed.

Example ex3_obs : snd (run_obs (init_state 2) ex3) =
  [1; 1; 1; 0; 0; 0; 0; 0; -1;  1; 1; 1; 0; 0; 0; 1; 0; -1;  1; 1; 1; 0; 0; 1; 0; 0; -1;
   0; 1; 0; 0; 0; 0; 0; 0; -1;
   1; 1; 1; 1; 0; 0; 0; 0; -1;  1; 1; 1; 1; 0; 1; 0; 0; -1;  0; 1; 0; 0; 0; 0; 0; 0; -1;
   1; 1; 1; 2; 0; 0; 0; 0; -1;  1; 1; 1; 2; 0; 1; 0; 0; -1;  0; 1; 0; 0; 0; 0; 1; 0; 1; -1;
   1; 1; 1; 4; 0; 0; 1; 0; -1;  1; 1; 1; 4; 0; 1; 0; 0; -1;  0; 1; 0; 0; 0; 0; 0; 0; -1;
   1; 1; 1; 5; 0; 0; 0; 0; -1;  1; 1; 1; 5; 0; 1; 0; 0; -1;  0; 1; 0; 0; 0; 0; 1; 0; -1;
   1; 1; 1; 6; 0; 0; 1; 0; -1;  1; 1; 1; 6; 0; 1; 0; 0; -1;  0; 1; 0; 0; 0; 0; 1; 0; 2; -1;
   1; 1; 1; 7; 0; 0; 1; 0; -1;  1; 1; 1; 7; 0; 1; 0; 0; -1;  0; 1; 0; 0; 0; 0; 0; 0; -1;
   1; 1; 1; 8; 0; 0; 0; 0; -1;  1; 1; 1; 8; 0; 1; 0; 0; -1;  0; 1; 0; 0; 0; 0; 1; 0; -1;
   0; 0; 0; 0; 0; 0; 0; 0; -1;  0; 0; 0; 0; 0; 0; 0; 0; -1].
Proof. vm_compute. reflexivity. Qed.

Example ex3_final :
  let s := run (init_state 2) ex3 in
  (err s, rev (log s), rev (deferred s), finals s, finalized s, sealed s, bag s) =
  (0, [1; 0; 2; 0; 0; 0], [1; 0; 2; 0; 0; 0], 1, true, [], []).
Proof. vm_compute. reflexivity. Qed.
