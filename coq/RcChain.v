(* C06 / C07: the recursive destruction of chains in the model Rc.v.
   [chain_state] builds a chain of n nodes (node i -> node i+1 through link field 0), every node owned
   only by its predecessor's link, stamps and link timestamps of residue [st]; node k (if k > 0) has one
   extra owner.  [passes] runs the destruction of the head on one thread with an empty oracle (the epoch
   does not move) and returns how many nodes each pass (one EBR round trip) destructs. *)
From Coq Require Import ZArith List Bool Lia.
Import ListNotations.
Require Import Params StateW DisposeW Rc.
Local Open Scope Z_scope.

(* node i of a chain of n: never decremented (stamp residue 0 as allocated); its link to node i+1
   carries the timestamp residue [stl] of the epoch at which the chain was built *)
Definition chain_obj (n i k : nat) (stl : Z) : obj :=
  {| word := alloc_word (if Nat.eqb i k then 2 else 1);
     dropped := false; freed := false; tok := false; wtok := false;
     links := [if Nat.ltb i n then (S i, stl mod 16) else null_link; null_link] |}.

Definition chain_thread (fs : list frame) : thr :=
  {| vars := []; gdepth := 0; ann := 0; serial := 0; inclosure := true; frames := fs; prog := []; res := 0; resw := 0 |}.

(* the head (node 1) was dropped at an epoch of residue [sth]: its count is zero, its stamp is sth, and its
   try_destruct has just published DESTRUCTED and is about to call dispose *)
Definition chain_state (n k : nat) (g stl sth : Z) : state :=
  let objs0 := map (fun i => chain_obj n i k stl) (seq 1 n) in
  let objs1 := match objs0 with
               | h :: r => with_word h (with_destructed (sub_strong (with_epoch (word h) sth) 1) true) :: r
               | [] => []
               end in
  {| G := g; objs := objs1; cells := []; threads := [chain_thread [FDispEnter 1 0]]; pending := []; err := 0 |}.

Fixpoint run_thread (fuel : nat) (s : state) : state :=
  match fuel with
  | O => s
  | S f => match micro s 0 [] with
           | Some (s', _) => run_thread f s'
           | None => s
           end
  end.

Definition count_dropped (s : state) : Z := Z.of_nat (length (filter dropped (objs s))).

(* one pass = run thread 0 until its stack is empty; the next pass starts the deferred try_destruct (if any)
   at the next epoch of the list *)
Fixpoint passes (gs : list Z) (fuel : nat) (s : state) (before : Z) : list Z :=
  match gs with
  | [] => []
  | g :: gr =>
      let s0 := {| G := g; objs := objs s; cells := cells s; threads := threads s; pending := pending s; err := err s |} in
      let s1 := run_thread fuel s0 in
      let now := count_dropped s1 in
      match pending s1 with
      | p :: rest =>
          (now - before) ::
          passes gr fuel {| G := G s1; objs := objs s1; cells := cells s1;
                            threads := [chain_thread [FTD113 (po p)]]; pending := rest; err := err s1 |} now
      | [] => [now - before]
      end
  end.

(* input [n; k; stl; sth; g1; g2; ...] ; output: nodes destructed in the pass run at epoch g1, g2, ... *)
Definition chain_line (l : list Z) : list Z :=
  match l with
  | n :: k :: stl :: sth :: g1 :: gr =>
      let nn := Z.to_nat n in
      passes (g1 :: gr) (30 * nn + 30) (chain_state nn (Z.to_nat k) g1 stl sth) 0
  | _ => []
  end.
