(* H2 [pinned] (RcSnapInvP.v) is needed only where the model lacks the pin: for threads OUTSIDE a critical section
   (guard-less operations, deferred functions run by an unpinned collector).  For a thread inside a critical section
   the bound  G - 1 <= r <= G  on every epoch a frame carries is a consequence of the EBR invariant [EOK]:
     - a frame that carries an epoch is always the TOP frame of its thread ([thr_p], first half), so it never survives a
       change of [incs] (pin / unpin are steps of their own, and they replace the top frame);
     - the epoch was read from the oracle in the section, so  ann <= r <= G  ([thr_p], second half), and the section
       keeps  G <= ann + 1  ([cs_skew]).
   Result: the final theorems under [run_ok'], whose per-state hypothesis has [pinned_out] instead of [pinned]. *)
From Coq Require Import ZArith List Bool Lia.
Import ListNotations.
Require Import Params StateW ModularW DisposeW Bits StateP ModularP Rc RcSpec RcP RcWeakP RcDepthP RcEpochP RcStampP RcSnapInvP
  RcWSnapInvP.
Local Open Scope Z_scope.

(* ---- definitions *)
(* the epoch a frame carries lies in [lo, hi] (for FCas123: the timestamp residue is that of such an epoch) *)
Definition fep (lo hi : Z) (f : frame) : Prop :=
  match f with
  | FDecS111 _ _ r _ _ | FDecS112 _ _ r _ _ _ | FIsND109 _ _ r _ => lo <= r <= hi
  | FKid118 _ _ _ curr _ | FKid119 _ _ _ _ _ curr _ => epoch_ok curr /\ lo <= curr <= hi
  | FCas123 _ _ desraw _ _ => fst desraw = O \/ exists g, lo <= g <= hi /\ snd desraw = g mod 16
  | _ => True
  end.
(* frames that carry no epoch *)
Definition noepf (f : frame) : Prop :=
  match f with
  | FDecS111 _ _ _ _ _ | FDecS112 _ _ _ _ _ _ | FIsND109 _ _ _ _ | FKid118 _ _ _ _ _ | FKid119 _ _ _ _ _ _ _
  | FCas123 _ _ _ _ _ => False
  | _ => True
  end.

Lemma frame_pinnedP_fep s f : frame_pinnedP s f <-> fep (G s - 1) (G s) f.
Proof. destruct f; cbn [frame_pinnedP fep]; tauto. Qed.

Lemma fep_mono lo hi lo' hi' f : lo' <= lo -> hi <= hi' -> fep lo hi f -> fep lo' hi' f.
Proof.
  intros Hl Hh. destruct f; cbn [fep]; try tauto; try lia.
  - intros (H1 & H2). split; [exact H1 | lia].
  - intros (H1 & H2). split; [exact H1 | lia].
  - intros [H|(g & Hg & E)]; [left; exact H | right; exists g; split; [lia | exact E]].
Qed.

Lemma noepf_fep lo hi f : noepf f -> fep lo hi f.
Proof. destruct f; cbn [noepf fep]; tauto. Qed.

(* H2 restricted to the threads outside a critical section: what remains assumed *)
Definition pinned_out (s : state) : Prop :=
  forall t x f, gett s t = Some x -> incs x = false -> In f (frames x) -> frame_pinnedP s f.

(* the invariant, per thread: only the top frame carries an epoch; inside a critical section that epoch was read in
   the section *)
Definition thr_p (g : Z) (x : thr) : Prop :=
  Forall noepf (tl (frames x)) /\ (incs x = true -> fep (ann x) g (hd FStart (frames x))).
Definition PInv (s : state) : Prop := forall t x, gett s t = Some x -> thr_p (G s) x.

(* the form asked for: every epoch recorded in a frame of a thread inside a section is >= ann and <= G *)
Definition FrameEp (s : state) : Prop :=
  forall t x f, gett s t = Some x -> incs x = true -> In f (frames x) -> fep (ann x) (G s) f.

Lemma PInv_FrameEp s : PInv s -> FrameEp s.
Proof.
  intros HP t x f Hx Hi Hin. destruct (HP t x Hx) as (Htl & Hhd).
  destruct (frames x) as [|f0 k]; [destruct Hin|]. cbn [tl hd] in Htl, Hhd.
  destruct Hin as [<-|Hin]; [exact (Hhd Hi)|].
  apply noepf_fep. rewrite Forall_forall in Htl. exact (Htl f Hin).
Qed.

(* ---- H2 from its restriction *)
Theorem pinned_of s : EOK s -> err s = 0 -> PInv s -> pinned_out s -> pinned s.
Proof.
  intros HE He HP HO t x f Hx Hin.
  destruct (incs x) eqn:Hi; [|exact (HO t x f Hx Hi Hin)].
  destruct HE as [HE|[HE _]]; [contradiction|].
  pose proof (HE t x Hx Hi) as Ha.
  apply frame_pinnedP_fep. eapply fep_mono; [| |exact (PInv_FrameEp s HP t x f Hx Hi Hin)]; lia.
Qed.

(* ---- fresh states *)
Lemma PInv_fresh s : fresh_start s -> PInv s.
Proof.
  intros (_ & _ & _ & Ht) t x Hx. rewrite Forall_forall in Ht.
  destruct (Ht x (nth_error_In _ _ Hx)) as (_ & Hf & _). unfold thr_p. rewrite Hf. cbn [tl hd fep].
  split; [repeat constructor | intros _; exact I].
Qed.

(* ---- replacing thread t *)
Lemma thr_p_mono g g' x : g <= g' -> thr_p g x -> thr_p g' x.
Proof.
  intros Hg (H1 & H2). split; [exact H1|]. intros Hi. eapply fep_mono; [| |exact (H2 Hi)]; lia.
Qed.

Lemma pinv_sett s S t x x' :
  PInv s -> gett s t = Some x -> threads S = threads s -> G s <= G S ->
  EOK (sett S t x') -> err (sett S t x') = 0 ->
  ((incs x' = true -> ann x' <= G S <= ann x' + 1) -> thr_p (G S) x') ->
  PInv (sett S t x').
Proof.
  intros HP Hx Hth HG HE He Hp q y Hy. cbn [G sett].
  unfold gett, sett in Hy; cbn [threads] in Hy. rewrite Hth in Hy.
  destruct (nth_set_nth_inv _ _ _ _ _ Hy) as [[-> ->]|[Hn Hq]].
  - apply Hp. intros Hi. destruct HE as [HE|[HE _]]; [contradiction|].
    assert (Hg : gett (sett S q x') q = Some x').
    { apply (gett_sett_eq S q x x'). unfold gett. rewrite Hth. exact Hx. }
    exact (HE q x' Hg Hi).
  - apply (thr_p_mono (G s)); [exact HG | exact (HP q y Hq)].
Qed.

Lemma Forall_tl {A} (P : A -> Prop) l : Forall P l -> Forall P (tl l).
Proof. intros H. destruct l; [exact H | exact (Forall_inv_tail H)]. Qed.
Lemma noepf_hd k : Forall noepf k -> noepf (hd FStart k).
Proof. intros H. destruct k; [exact I | exact (Forall_inv H)]. Qed.

(* ---- operation start: the frames it pushes carry no epoch (compare_exchange with a null desired pointer starts at
   FCas123, whose timestamp is irrelevant) *)
Lemma start_op_p s x rec op s1 x1 fs o : start_op s x rec op = (s1, x1, fs, o) ->
  Forall noepf (tl fs) /\ forall lo hi, fep lo hi (hd FMay fs).
Proof.
  intros H. unfold start_op in H.
  destruct (negb (dst_free x op)); [inversion H; subst; split; [constructor | intros; exact I]|].
  repeat match type of H with
         | context [match ?c with _ => _ end] => destruct c eqn:?
         | context [if ?c then _ else _] => destruct c eqn:?
         end;
  inversion H; subst; clear H; unfold dec_frames, incs_frames, incw_frames, decw_frames;
  repeat match goal with |- context [match ?c with _ => _ end] => destruct c eqn:? end; cbn [tl hd app fep];
  (split; [repeat constructor | intros; auto]).
Qed.

(* ---- every micro step *)
Ltac tl_solve Hk :=
  cbn [tl app];
  repeat first [ exact Hk | exact (Forall_tl _ _ Hk) | apply Forall_cons; [exact I|] | apply Forall_nil ].

(* reduces  PInv (sett S t (with_frames x1 fs))  to the condition on the new top frame *)
Ltac pinv_open HI Ht HE' He' Hk :=
  eapply pinv_sett; [ exact HI | exact Ht | autorewrite with thr; reflexivity | gmono | exact HE' | exact He' | ];
  intros Ha; unfold thr_p; cbn [frames with_frames]; split; [ tl_solve Hk | intros Hi; cbn [hd app] ].
Ltac pinv_case HI Ht HE' He' Hk :=
  pinv_open HI Ht HE' He' Hk; first [ exact I | apply noepf_fep; apply noepf_hd; exact Hk ].

Theorem micro_pinv s t rec s' obs :
  PInv s -> EOK s' -> err s' = 0 -> epoch_ok (G s') -> micro s t rec = Some (s', obs) -> PInv s'.
Proof.
  intros HI HE' He' HG' Hm. unfold micro in Hm.
  destruct (gett s t) as [x|] eqn:Ht; [|discriminate].
  destruct (frames x) as [|f k] eqn:Hf; [discriminate|].
  destruct (HI t x Ht) as (Hk & Hh). rewrite Hf in Hk, Hh. cbn [tl hd] in Hk, Hh.
  cbv beta iota zeta in Hm.
  destruct f; [ | | try (split_matches_e Hm; try (inversion Hm; subst; clear Hm; pinv_case HI Ht HE' He' Hk; fail)) .. ].
  - (* FStart *) inversion Hm; subst; clear Hm. pinv_case HI Ht HE' He' Hk.
  - (* FOp *)
    destruct (prog x) as [|op rest].
    + inversion Hm; subst; clear Hm. pinv_case HI Ht HE' He' Hk.
    + destruct (start_op s _ rec op) as [[[s1 x1] fs] o] eqn:Hso. inversion Hm; subst; clear Hm.
      destruct (start_op_p _ _ _ _ _ _ _ _ Hso) as (Hfs & Hhd).
      eapply pinv_sett; [ exact HI | exact Ht | eapply threads_start_op; exact Hso | eapply start_op_G; exact Hso
                        | exact HE' | exact He' | ].
      intros Ha. unfold thr_p. cbn [frames with_frames]. split.
      * destruct fs as [|f0 fs0]; cbn [tl app] in *; [repeat constructor; exact Hk|].
        apply Forall_app. split; [exact Hfs | repeat constructor; exact Hk].
      * intros Hi. destruct fs as [|f0 fs0]; cbn [hd app]; [exact I | exact (Hhd _ _)].
  - (* FDecS110: the epoch is read after the pin *)
    inversion Hm; subst; clear Hm. pinv_open HI Ht HE' He' Hk. cbn [fep]. specialize (Ha Hi). lia.
  - inversion Hm; subst; clear Hm. pinv_open HI Ht HE' He' Hk. cbn [fep]. specialize (Ha Hi). lia.
  - inversion Hm; subst; clear Hm. pinv_open HI Ht HE' He' Hk. cbn [fep]. specialize (Ha Hi). lia.
  - inversion Hm; subst; clear Hm. pinv_open HI Ht HE' He' Hk. cbn [fep]. specialize (Ha Hi). lia.
  - (* FDecS111 -> FDecS112: same epoch *)
    inversion Hm; subst; clear Hm. pinv_open HI Ht HE' He' Hk. exact (Hh Hi).
  - (* FDecS112 -> FDecS111 *)
    inversion Hm; subst; clear Hm. pinv_open HI Ht HE' He' Hk. exact (Hh Hi).
  - (* FKids -> FKid118: a fresh epoch *)
    inversion Hm; subst; clear Hm. cbn [G sett] in HG'. pinv_open HI Ht HE' He' Hk. cbn [fep]. specialize (Ha Hi).
    split; [exact HG' | lia].
  - (* FKid118 -> FKid119 *)
    inversion Hm; subst; clear Hm. pinv_open HI Ht HE' He' Hk. exact (Hh Hi).
  - (* FKid119 -> FKid118 *)
    inversion Hm; subst; clear Hm. pinv_open HI Ht HE' He' Hk. exact (Hh Hi).
  - (* FIsND108 -> FIsND109: a fresh epoch *)
    inversion Hm; subst; clear Hm. pinv_open HI Ht HE' He' Hk. cbn [fep]. specialize (Ha Hi). lia.
  - (* FIsND109 retry *)
    inversion Hm; subst; clear Hm. pinv_open HI Ht HE' He' Hk. exact (Hh Hi).
  - (* FSwap122, store: the previous content is released *)
    inversion Hm; subst; clear Hm. revert HE' He' HG'. unfold dec_frames.
    match goal with |- context [match ?c with O => _ | S _ => _ end] => destruct c end; intros HE' He' HG';
      pinv_case HI Ht HE' He' Hk.
  - (* FSwap120, store *)
    inversion Hm; subst; clear Hm. revert HE' He' HG'. unfold dec_frames.
    match goal with |- context [match ?c with O => _ | S _ => _ end] => destruct c end; intros HE' He' HG';
      pinv_case HI Ht HE' He' Hk.
  - (* FCas120 -> FCas123: a fresh timestamp *)
    inversion Hm; subst; clear Hm. pinv_open HI Ht HE' He' Hk. cbn [fep fst snd]. specialize (Ha Hi).
    right. eexists. split; [|reflexivity]. lia.
  - (* FCas123 retry: same desired word *)
    inversion Hm; subst; clear Hm. pinv_open HI Ht HE' He' Hk. exact (Hh Hi).
Qed.

(* ---- runs: H2 is assumed only for the threads outside a critical section *)
Definition c03_hyp' (s : state) : Prop :=
  pinned_out s /\ scoped s /\ wscoped s /\ epoch_ok (G s).
Fixpoint c03_run' (s : state) (sched : list (nat * list Z)) : Prop :=
  c03_hyp' s /\
  match sched with
  | [] => True
  | (t, rec) :: r => match micro s t rec with Some (s', _) => c03_run' s' r | None => c03_run' s r end
  end.
Lemma c03_run'_head s sched : c03_run' s sched -> c03_hyp' s.
Proof. destruct sched as [|[t rec] r]; cbn; tauto. Qed.
Definition run_ok' (s0 : state) (sched : list (nat * list Z)) : Prop :=
  fresh_start s0 /\ cellops_ok s0 /\ bounded_run s0 sched /\ c03_run' s0 sched.

Lemma WCInv_EOK s : WCInv s -> EOK s.
Proof. intros ((_ & _ & HE & _) & _). exact HE. Qed.
Lemma bounded_err s : bounded s -> err s = 0.
Proof. intros (_ & E & _). exact E. Qed.

Lemma c03_hyp_of s : WCInv s -> PInv s -> bounded s -> c03_hyp' s -> c03_hyp s.
Proof.
  intros HC HP HB (HO & Hsc & Hwsc & HG). split; [|split; [|split]]; auto.
  apply pinned_of; auto using WCInv_EOK, bounded_err.
Qed.

Theorem c03_run_of sched : forall s0, WCInv s0 -> PInv s0 -> bounded_run s0 sched -> c03_run' s0 sched -> c03_run s0 sched.
Proof.
  induction sched as [|[t rec] r IH]; intros s0 HC HP HB HH.
  - cbn [c03_run]. split; [|exact I]. apply c03_hyp_of; auto; [exact (bounded_run_head _ _ HB) | exact (c03_run'_head _ _ HH)].
  - pose proof (bounded_run_head _ _ HB) as HB0. pose proof (c03_run'_head _ _ HH) as HH0.
    pose proof (c03_hyp_of _ HC HP HB0 HH0) as HY0.
    cbn [c03_run]. split; [exact HY0|].
    cbn [bounded_run c03_run'] in HB, HH. destruct HB as (_ & HB), HH as (_ & HH).
    destruct (micro s0 t rec) as [[s' o]|] eqn:Hm; [|apply IH; auto].
    pose proof (bounded_run_head _ _ HB) as HB'. pose proof (c03_run'_head _ _ HH) as HH'.
    assert (HE' : EOK s') by exact (micro_eok s0 t rec s' o (WCInv_EOK _ HC) Hm).
    assert (HP' : PInv s').
    { apply (micro_pinv s0 t rec s' o); auto using bounded_err. destruct HH' as (_ & _ & _ & HG'). exact HG'. }
    assert (HY' : c03_hyp s').
    { destruct HH' as (HO' & Hsc' & Hwsc' & HG'). split; [|split; [|split]]; auto.
      apply pinned_of; auto using bounded_err. }
    apply IH; auto. exact (micro_wcinv s0 t rec s' o HC HB0 HB' HY0 HY' Hm).
Qed.

Theorem run_ok_of s0 sched : run_ok' s0 sched -> run_ok s0 sched.
Proof.
  intros (HF & HK & HB & HH). split; [exact HF|split; [exact HK|split; [exact HB|]]].
  apply c03_run_of; auto using WCInv_fresh, PInv_fresh.
Qed.
(* the converse: [run_ok'] is the weaker hypothesis *)
Lemma pinned_pinned_out s : pinned s -> pinned_out s.
Proof. intros H t x f Hx _ Hin. exact (H t x f Hx Hin). Qed.
Lemma c03_run'_of sched : forall s0, c03_run s0 sched -> c03_run' s0 sched.
Proof.
  induction sched as [|[t rec] r IH]; intros s0 (H0 & H); cbn [c03_run'];
    (split; [destruct H0 as (HP & H0); split; [apply pinned_pinned_out; exact HP | exact H0]|]); [exact I|].
  destruct (micro s0 t rec) as [[s' o]|]; apply IH; exact H.
Qed.
Theorem run_ok'_of s0 sched : run_ok s0 sched -> run_ok' s0 sched.
Proof. intros (HF & HK & HB & HH). split; [exact HF|split; [exact HK|split; [exact HB|apply c03_run'_of; exact HH]]]. Qed.

(* the invariant along such runs *)
Theorem mrun_pinv sched : forall s0, WCInv s0 -> PInv s0 -> bounded_run s0 sched -> c03_run' s0 sched -> PInv (mrun s0 sched).
Proof.
  induction sched as [|[t rec] r IH]; intros s0 HC HP HB HH; cbn [mrun]; [exact HP|].
  pose proof (bounded_run_head _ _ HB) as HB0. pose proof (c03_run'_head _ _ HH) as HH0.
  pose proof (c03_run_of _ _ HC HP HB HH) as HR. cbn [c03_run] in HR. destruct HR as (HY0 & HR).
  cbn [bounded_run c03_run'] in HB, HH. destruct HB as (_ & HB), HH as (_ & HH).
  destruct (micro s0 t rec) as [[s' o]|] eqn:Hm; [|apply IH; auto].
  pose proof (bounded_run_head _ _ HB) as HB'. pose proof (c03_run'_head _ _ HH) as HH'.
  assert (HE' : EOK s') by exact (micro_eok s0 t rec s' o (WCInv_EOK _ HC) Hm).
  apply IH; auto.
  - exact (micro_wcinv s0 t rec s' o HC HB0 HB' HY0 (c03_run_head _ _ HR) Hm).
  - apply (micro_pinv s0 t rec s' o); auto using bounded_err. destruct HH' as (_ & _ & _ & HG'). exact HG'.
Qed.
Theorem FrameEp_along_runs s0 sched : run_ok' s0 sched -> FrameEp (mrun s0 sched).
Proof.
  intros (HF & HK & HB & HH). apply PInv_FrameEp. apply mrun_pinv; auto using WCInv_fresh, PInv_fresh.
Qed.

(* ---- the final theorems under the weaker run hypothesis *)
Theorem C02_final' s0 sched : run_ok' s0 sched -> RcSnapP.snap_valid (mrun s0 sched).
Proof. intros H. destruct (run_ok_of _ _ H) as (HF & HK & HB & HH). exact (C02_final s0 sched HF HK HB HH). Qed.
Theorem C03_wsnap' s0 sched : run_ok' s0 sched -> wsnap_valid (mrun s0 sched).
Proof. intros H. destruct (run_ok_of _ _ H) as (HF & HK & HB & HH). exact (C03_wsnap s0 sched HF HK HB HH). Qed.
Theorem live_counted_along_runs' s0 sched : run_ok' s0 sched -> live_counted s0 sched.
Proof. intros H. destruct (run_ok_of _ _ H) as (HF & HK & HB & HH). exact (live_counted_along_runs s0 sched HF HK HB HH). Qed.
Theorem C01_final' s0 sched : run_ok' s0 sched ->
  let s := mrun s0 sched in
  forall o ob, geto s o = Some ob -> 0 < owners s o -> dropped ob = false /\ freed ob = false /\ destructed (word ob) = false.
Proof. intros H. exact (C01_final s0 sched (run_ok_of _ _ H)). Qed.
Theorem C03_final' s0 sched : run_ok' s0 sched ->
  let s := mrun s0 sched in forall o ob, geto s o = Some ob -> 0 < wowners s o -> freed ob = false.
Proof. intros H. exact (C03_final s0 sched (run_ok_of _ _ H)). Qed.
Theorem C10_final' s0 sched : run_ok' s0 sched ->
  let s := mrun s0 sched in
  forall o ob, geto s o = Some ob -> destructed (word ob) = false ->
    strong (word ob) = owners s o + b2z (tok ob) /\ (owners s o = 0 -> tok ob = false -> attempts s o = 1).
Proof. intros H. exact (C10_final s0 sched (run_ok_of _ _ H)). Qed.

Print Assumptions micro_pinv.
Print Assumptions pinned_of.
Print Assumptions run_ok_of.
Print Assumptions FrameEp_along_runs.
Print Assumptions C02_final'.
Print Assumptions C03_wsnap'.
Print Assumptions C01_final'.
Print Assumptions C03_final'.
Print Assumptions C10_final'.
