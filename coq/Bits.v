(* Bit-field toolkit over Z: turns the mask/shift expressions of the generated definitions into
   div/mod arithmetic that lia can decide. Hand-written; no axioms. *)
From Coq Require Import ZArith Lia Bool.
Require Import Params.
Local Open Scope Z_scope.

Ltac Zify.zify_post_hook ::= Z.div_mod_to_equations.

Lemma wrap_small n x : 0 <= x < 2 ^ n -> wrap n x = x.
Proof. intros H. unfold wrap. apply Z.mod_small; exact H. Qed.

Lemma wrap_range n x : 0 <= n -> 0 <= wrap n x < 2 ^ n.
Proof. intros H. unfold wrap. apply Z.mod_pos_bound. apply Z.pow_pos_nonneg; lia. Qed.

(* land with a shifted block of ones extracts a field *)
Lemma land_shifted_ones w m k :
  0 <= m -> 0 <= k ->
  Z.land w (Z.shiftl (Z.ones m) k) = ((w / 2 ^ k) mod 2 ^ m) * 2 ^ k.
Proof.
  intros Hm Hk.
  rewrite <- Z.shiftr_div_pow2, <- Z.land_ones, <- Z.shiftl_mul_pow2 by assumption.
  apply Z.bits_inj'. intros n Hn.
  rewrite Z.land_spec.
  destruct (Z.lt_ge_cases n k) as [Hlt|Hge].
  - rewrite !Z.shiftl_spec_low by assumption. now rewrite andb_false_r.
  - rewrite !Z.shiftl_spec by assumption.
    rewrite Z.land_spec, Z.shiftr_spec by lia.
    replace (n - k + k) with n by lia. reflexivity.
Qed.

(* clearing a field: w & !M  (over 64 bits) *)
Lemma land_bnot w M :
  0 <= w < 2 ^ 64 -> 0 <= M < 2 ^ 64 ->
  Z.land w (bnot 64 M) = w - Z.land w M.
Proof.
  intros Hw HM. unfold bnot.
  replace (2 ^ 64 - 1 - M) with (Z.ones 64 - M) by (rewrite Z.ones_equiv; lia).
  assert (HMo : Z.ldiff M (Z.ones 64) = 0).
  { rewrite Z.ldiff_ones_r by lia. rewrite Z.shiftr_div_pow2 by lia.
    rewrite (Z.div_small M) by lia. reflexivity. }
  rewrite (Z.sub_nocarry_ldiff (Z.ones 64) M HMo).
  assert (Hsub : Z.ldiff (Z.land w M) w = 0).
  { apply Z.bits_inj'. intros n Hn. rewrite Z.ldiff_spec, Z.land_spec, Z.bits_0.
    destruct (Z.testbit w n); destruct (Z.testbit M n); reflexivity. }
  rewrite (Z.sub_nocarry_ldiff w (Z.land w M) Hsub).
  apply Z.bits_inj'. intros n Hn.
  rewrite Z.land_spec, !Z.ldiff_spec, Z.land_spec.
  destruct (Z.lt_ge_cases n 64) as [Hlt|Hge].
  - rewrite Z.ones_spec_low by lia.
    destruct (Z.testbit w n); destruct (Z.testbit M n); reflexivity.
  - assert (Z.testbit w n = false) as ->.
    { destruct (Z.eq_dec w 0) as [->|Hne]; [apply Z.bits_0|].
      apply Z.bits_above_log2; [lia|]. apply Z.lt_le_trans with 64; [|lia].
      apply Z.log2_lt_pow2; lia. }
    reflexivity.
Qed.

(* inserting a field into a word whose field was cleared *)
Lemma lor_cleared w M g :
  0 <= w < 2 ^ 64 -> 0 <= M < 2 ^ 64 ->
  Z.lor (w - Z.land w M) (Z.land g M) = w - Z.land w M + Z.land g M.
Proof.
  intros Hw HM.
  assert (Hsub : Z.ldiff (Z.land w M) w = 0).
  { apply Z.bits_inj'. intros n Hn. rewrite Z.ldiff_spec, Z.land_spec, Z.bits_0.
    destruct (Z.testbit w n); destruct (Z.testbit M n); reflexivity. }
  rewrite (Z.sub_nocarry_ldiff w (Z.land w M) Hsub).
  assert (Hdis : Z.land (Z.ldiff w (Z.land w M)) (Z.land g M) = 0).
  { apply Z.bits_inj'. intros n Hn.
    rewrite Z.land_spec, Z.ldiff_spec, !Z.land_spec, Z.bits_0.
    destruct (Z.testbit w n); destruct (Z.testbit M n); destruct (Z.testbit g n); reflexivity. }
  rewrite <- (Z.lxor_lor _ _ Hdis). symmetry. apply Z.add_nocarry_lxor. exact Hdis.
Qed.

Lemma lor_cleared' w M g :
  0 <= w < 2 ^ 64 -> 0 <= M < 2 ^ 64 -> Z.land g M = g ->
  Z.lor (w - Z.land w M) g = w - Z.land w M + g.
Proof. intros Hw HM Hg. rewrite <- Hg at 1 2. rewrite (lor_cleared w M g Hw HM). reflexivity. Qed.

Lemma land_nonneg_bound w M : 0 <= w -> 0 <= M -> 0 <= Z.land w M <= M.
Proof.
  intros Hw HM. split; [apply Z.land_nonneg; auto|].
  destruct (Z.eq_dec M 0) as [->|Hne]; [rewrite Z.land_0_r; lia|].
  assert (Hsub : Z.ldiff (Z.land w M) M = 0).
  { apply Z.bits_inj'. intros n Hn. rewrite Z.ldiff_spec, Z.land_spec, Z.bits_0.
    destruct (Z.testbit w n); destruct (Z.testbit M n); reflexivity. }
  pose proof (Z.sub_nocarry_ldiff M (Z.land w M) Hsub) as H.
  assert (0 <= Z.ldiff M (Z.land w M)) by (apply Z.ldiff_nonneg; left; exact HM).
  lia.
Qed.

Lemma sext_small n x : 0 <= x < 2 ^ (n - 1) -> sext n x = x.
Proof. intros H. unfold sext. destruct (Z.ltb_spec x (2 ^ (n - 1))); lia. Qed.
