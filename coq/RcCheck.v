(* Executable version of the count invariant of RcSpec.v, evaluated along replayed implementation
   traces by the OCaml driver (a test of the invariant's definition, not a proof). *)
From Coq Require Import ZArith List Bool Lia.
Import ListNotations.
Require Import Params StateW DisposeW Rc RcSpec.
Local Open Scope Z_scope.

Definition obj_inv_b (s : state) (o : nat) (ob : obj) : Z :=
  let w := word ob in
  let own := owners s o in
  let att := attempts s o in
  if negb (destructed w) && negb (strong w =? own + b2z (tok ob)) then 1
  else if negb (destructed w) && negb ((0 <=? att) && (att <=? 1)) then 2
  else if negb (destructed w) && negb (Bool.eqb (att =? 1) ((strong w =? 0) || tok ob)) then 3
  else if dropped ob && negb (destructed w) then 4
  else if freed ob && negb (dropped ob) then 5
  else if destructed w && negb ((own =? 0) && (att =? 0)) then 6
  else if own <? 0 then 7
  else 0.

Fixpoint inv_from (s : state) (l : list obj) (o : nat) : Z :=
  match l with
  | [] => 0
  | ob :: r => let c := obj_inv_b s o ob in if c =? 0 then inv_from s r (S o) else c * 1000 + Z.of_nat o
  end.
Definition inv_b (s : state) : Z := inv_from s (objs s) 1.

(* replay, reporting after each step the invariant's verdict (0 = holds) *)
Fixpoint check_from (s : state) (sched : list Z) (recs : list (list Z)) : list (list Z) :=
  match sched, recs with
  | t :: r, rc :: rr =>
      match step s (nat_of t) rc with
      | Some (s', o) => [inv_b s'] :: check_from s' r rr
      | None => [-999] :: check_from s r rr
      end
  | _, _ => []
  end.
Definition rc_invcheck (prog sched : list Z) (recs : list (list Z)) : list (list Z) :=
  check_from (init prog) sched recs.
