(* RegList.v -- executable small-step model of the lock-free intrusive list of
   src/ebr_impl/sync/list.rs (Michael/Harris style: insertion at head, logical
   deletion by marking, physical unlinking by traversals), at the granularity
   of one shared access per step, under the cooperative scheduler of the
   verification harness (harness/src/list.rs, harness/src/sched.rs).

   Only the model lives here; proofs are in RegListP.v, trace agreement in
   RegListCheck.v. *)
From Coq Require Import ZArith List Bool Lia.
Import ListNotations.
Open Scope Z_scope.

(* ------------------------------------------------------------------ *)
(* Heap: a list of entries, entry id i (1-based, in allocation order) lives
   at position i-1.  0 is the null pointer. *)

Record entry := mkE { uid : Z; next : Z; mark : bool }.

Definition dflt : entry := mkE 0 0 false.

Definition get (h : list entry) (i : Z) : entry :=
  if i <=? 0 then dflt else nth (Z.to_nat (i - 1)) h dflt.

Fixpoint upd_nth {A : Type} (l : list A) (n : nat) (f : A -> A) : list A :=
  match l with
  | [] => []
  | x :: r => match n with
              | O => f x :: r
              | S n' => x :: upd_nth r n' f
              end
  end.

Definition upd (h : list entry) (i : Z) (f : entry -> entry) : list entry :=
  if i <=? 0 then h else upd_nth h (Z.to_nat (i - 1)) f.

Definition set_next (x : Z) (e : entry) : entry := mkE (uid e) x (mark e).
Definition set_mark (e : entry) : entry := mkE (uid e) (next e) true.

(* ------------------------------------------------------------------ *)
(* Programs *)

Inductive op := OIns (id : Z) | ODel (k : Z) | OTrav.

(* One constructor per yield site, carrying the registers that are live at
   that site.  [pred = 0] means "pred is the list head", otherwise pred is the
   entry whose [next] field the iterator's [pred] reference points to. *)
Inductive pc :=
| PStart                                   (* thread not started yet *)
| POp                                      (* site 1: operation start / end of program *)
| P50 (e : Z)                              (* insert: load head *)
| P51 (e nxt : Z)                          (* insert: CAS head nxt -> e *)
| P52 (e : Z)                              (* delete: fetch_or mark *)
| P53                                      (* iter(): load head *)
| P54 (pred curr : Z) (acc : list Z)       (* next(): load curr.next *)
| P55 (pred curr succ : Z) (acc : list Z)  (* unlink CAS on pred: curr -> succ *)
| P56 (acc : list Z)                       (* restart after a stall: load head *)
| PDone.

Record thread := mkT { tpc : pc; tops : list op; tmine : list Z }.

Record state := mkS {
  heap : list entry;
  head : Z;
  threads : list thread;
  fresh : Z                                (* next fresh entry id *)
}.

Fixpoint parse_ops (l : list Z) : list op :=
  match l with
  | [] => []
  | c :: r =>
    if c =? 2 then OTrav :: parse_ops r
    else match r with
         | [] => []
         | a :: r' => if c =? 0 then OIns a :: parse_ops r'
                      else if c =? 1 then ODel a :: parse_ops r'
                      else []
         end
  end.

(* split the flattened program at the -1 separators *)
Fixpoint split_prog (l : list Z) : list (list Z) :=
  match l with
  | [] => [[]]
  | x :: r =>
    if x =? -1 then [] :: split_prog r
    else match split_prog r with
         | [] => [[x]]
         | c :: cs => (x :: c) :: cs
         end
  end.

Definition init (prog : list Z) : state :=
  mkS [] 0
      (map (fun l => mkT PStart (parse_ops l) []) (tl (split_prog prog)))
      1.

(* ------------------------------------------------------------------ *)
(* Steps *)

Definition result (ok : Z) (acc : list Z) : list Z :=
  2002 :: ok :: Z.of_nat (length acc) :: flat_map (fun u => [2003; u; 0]) acc.

(* the part of Iterator::next after [self.curr] has been assigned: either the
   end of the list (traversal returns Ok) or the next yield site 54 *)
Definition trav_continue (pred curr : Z) (acc : list Z) : pc * list Z :=
  if curr =? 0 then (POp, result 1 acc) else (P54 pred curr acc, []).

(* the word [pred] points to: the head (never tagged) or an entry's next+mark *)
Definition pred_val (s : state) (pred : Z) : Z :=
  if pred =? 0 then head s else next (get (heap s) pred).
Definition pred_tag (s : state) (pred : Z) : bool :=
  if pred =? 0 then false else mark (get (heap s) pred).

Definition set_thread (s : state) (t : nat) (th : thread) : list thread :=
  upd_nth (threads s) t (fun _ => th).

Definition tagZ (b : bool) : Z := if b then 1 else 0.

Definition step (s : state) (t : nat) : option (state * list Z) :=
  match nth_error (threads s) t with
  | None => None
  | Some th =>
    let ops := tops th in
    let mine := tmine th in
    let h := heap s in
    match tpc th with
    | PStart =>
      Some (mkS h (head s) (set_thread s t (mkT POp ops mine)) (fresh s), [])
    | POp =>
      match ops with
      | [] =>
        Some (mkS h (head s) (set_thread s t (mkT PDone [] mine)) (fresh s), [1; 9; 0])
      | OIns id :: r =>
        let e := fresh s in
        Some (mkS (h ++ [mkE id 0 false]) (head s)
                  (set_thread s t (mkT (P50 e) r (mine ++ [e]))) (e + 1),
              [1; 0; id; 1257; e; id])
      | ODel k :: r =>
        if k <? 0 then None else
        match nth_error mine (Z.to_nat k) with
        | None => None
        | Some e =>
          Some (mkS h (head s) (set_thread s t (mkT (P52 e) r mine)) (fresh s), [1; 1; k])
        end
      | OTrav :: r =>
        Some (mkS h (head s) (set_thread s t (mkT P53 r mine)) (fresh s), [1; 2; 0])
      end
    | P50 e =>
      let nxt := head s in
      Some (mkS (upd h e (set_next nxt)) (head s)
                (set_thread s t (mkT (P51 e nxt) ops mine)) (fresh s),
            [50; e; 0; 1250; nxt; 0])
    | P51 e nxt =>
      if head s =? nxt then
        Some (mkS h e (set_thread s t (mkT POp ops mine)) (fresh s),
              [51; e; nxt; 2000; 0; 0])
      else
        let nxt' := head s in
        Some (mkS (upd h e (set_next nxt')) (head s)
                  (set_thread s t (mkT (P51 e nxt') ops mine)) (fresh s),
              [51; e; nxt])
    | P52 e =>
      Some (mkS (upd h e set_mark) (head s)
                (set_thread s t (mkT POp ops mine)) (fresh s),
            [52; e; 0; 2000; 1; 0])
    | P53 =>
      let (p, o) := trav_continue 0 (head s) [] in
      Some (mkS h (head s) (set_thread s t (mkT p ops mine)) (fresh s),
            [53; 0; 0] ++ o)
    | P54 pred c acc =>
      let succ := next (get h c) in
      let tag := mark (get h c) in
      if tag then
        Some (mkS h (head s) (set_thread s t (mkT (P55 pred c succ acc) ops mine)) (fresh s),
              [54; c; 0; 1254; succ; 1])
      else
        let (p, o) := trav_continue c succ (acc ++ [uid (get h c)]) in
        Some (mkS h (head s) (set_thread s t (mkT p ops mine)) (fresh s),
              [54; c; 0; 1254; succ; 0] ++ o)
    | P55 pred c succ acc =>
      let pv := pred_val s pred in
      let pt := pred_tag s pred in
      if (pv =? c) && negb pt then
        (* CAS succeeds: pred := succ (tag 0); finalize curr *)
        let (p, o) := trav_continue pred succ acc in
        let h' := if pred =? 0 then h else upd h pred (set_next succ) in
        let hd' := if pred =? 0 then succ else head s in
        Some (mkS h' hd' (set_thread s t (mkT p ops mine)) (fresh s),
              [55; c; succ; 1255; c; 0; 1256; uid (get h c); 0] ++ o)
      else if pt then
        (* the predecessor is marked: Stalled, restart from head *)
        Some (mkS h (head s) (set_thread s t (mkT (P56 acc) ops mine)) (fresh s),
              [55; c; succ])
      else
        let (p, o) := trav_continue pred pv acc in
        Some (mkS h (head s) (set_thread s t (mkT p ops mine)) (fresh s),
              [55; c; succ] ++ o)
    | P56 acc =>
      Some (mkS h (head s) (set_thread s t (mkT POp ops mine)) (fresh s),
            [56; 0; 0] ++ result 0 acc)
    | PDone => None
    end
  end.

(* ------------------------------------------------------------------ *)
(* Replaying a schedule *)

Fixpoint replay_from (s : state) (sched : list Z) : list (list Z) :=
  match sched with
  | [] => []
  | t :: r =>
    if t <? 0 then [-999] :: replay_from s r else
    match step s (Z.to_nat t) with
    | None => [-999] :: replay_from s r
    | Some (s', o) => o :: replay_from s' r
    end
  end.

Definition replay (prog sched : list Z) : list (list Z) :=
  replay_from (init prog) sched.
