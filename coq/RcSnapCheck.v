(* Executable statement of C01 / C02 / C03 over the states of Rc.v, evaluated by the OCaml driver after
   every step of every replayed implementation trace (a test of the model-level statements, not a proof):
   every reference a thread holds -- an Rc, a Snapshot of its current critical section, a Weak, a
   WeakSnapshot, an unfinished NewRcIter -- and every link stored in a cell or in a live node refers to an
   object in the state its kind promises. *)
From Coq Require Import ZArith List Bool Lia.
Import ListNotations.
Require Import Params StateW DisposeW Rc.
Local Open Scope Z_scope.

Definition obj_live (s : state) (o : nat) : bool :=
  match geto s o with
  | Some ob => negb (destructed (word ob)) && negb (dropped ob) && negb (freed ob)
  | None => false
  end.
Definition obj_alloc (s : state) (o : nat) : bool :=
  match geto s o with Some ob => negb (freed ob) | None => false end.

Definition handle_code (s : state) (x : thr) (h : handle) : Z :=
  match h with
  | HNone => 0
  | HRc l => if Nat.eqb (fst l) 0 || obj_live s (fst l) then 0 else 21          (* C01 *)
  | HSnap l n => if Nat.eqb (fst l) 0 || negb (incs x && Nat.eqb n (serial x)) || obj_live s (fst l) then 0 else 22   (* C02 *)
  | HWeak l => if Nat.eqb (fst l) 0 || obj_alloc s (fst l) then 0 else 23         (* C03 *)
  | HWSnap l n => if Nat.eqb (fst l) 0 || negb (incs x && Nat.eqb n (serial x)) || obj_alloc s (fst l) then 0 else 24
  | HIter o rem => if Nat.eqb o 0 || (rem <=? 0) || obj_live s o then 0 else 25
  end.

Fixpoint first_code {A} (f : A -> Z) (l : list A) : Z :=
  match l with
  | [] => 0
  | a :: r => let c := f a in if c =? 0 then first_code f r else c
  end.

Definition link_code (s : state) (l : link) : Z :=
  if Nat.eqb (fst l) 0 || obj_live s (fst l) then 0 else 26.
Definition obj_code (s : state) (ob : obj) : Z :=
  if dropped ob then 0 else first_code (link_code s) (links ob).

Definition snap_b (s : state) : Z :=
  let c1 := first_code (fun x => first_code (handle_code s x) (vars x)) (threads s) in
  if negb (c1 =? 0) then c1 else
  let c2 := first_code (link_code s) (cells s) in
  if negb (c2 =? 0) then c2 else first_code (obj_code s) (objs s).

Fixpoint snap_from (s : state) (sched : list Z) (recs : list (list Z)) : list (list Z) :=
  match sched, recs with
  | t :: r, rc :: rr =>
      match step s (nat_of t) rc with
      | Some (s', o) => [snap_b s'] :: snap_from s' r rr
      | None => [-999] :: snap_from s r rr
      end
  | _, _ => []
  end.
Definition rc_snapcheck (prog sched : list Z) (recs : list (list Z)) : list (list Z) :=
  snap_from (init prog) sched recs.
