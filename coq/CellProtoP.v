(* The tie between the hand-written cell machine Cell.v (C08 / C09) and the table GENERATED from the bodies of
   AtomicRc::{store, swap, compare_exchange, compare_exchange_weak, compare_exchange_tag} (src/strong.rs), the same five
   of AtomicWeak (src/weak.rs) and Tagged::with_timestamp (Gen/CellProtoW.v): the word each operation writes into the
   link, the word its hardware CAS expects, and the test on which its loop retries.
   Part A: the generated words ARE Cell.stamp of the handle word (of the re-tagged expected word for
   compare_exchange_tag), the expected word is the Snapshot's, the retry test is Tagged::ptr_eq of the observed and the
   expected word.  Part B: the steps of Cell.tstep that start a CAS, perform a store / swap, and decide between
   success, retry and failure, restated in the generated terms. *)
From Coq Require Import ZArith List Bool Lia.
Import ListNotations.
Require Import Params TaggedW CellProtoW Cell.
Local Open Scope Z_scope.

Definition pick {A} (kind : bool) (s w : A) : A := if kind then s else w.
Definition w0 (l : list Z) : Z := nth 0 l 0.
Definition b0 (l : list bool) : bool := nth 0 l false.

Lemma stamp_generated E w : c_with_timestamp K E w = stamp true E w.
Proof. reflexivity. Qed.

Lemma cell_table kind E h ex cur tag :
  w0 (pick kind (CS_store_words K E h ex cur tag) (CW_store_words K E h ex cur tag)) = stamp kind E h /\
  w0 (pick kind (CS_swap_words K E h ex cur tag) (CW_swap_words K E h ex cur tag)) = stamp kind E h /\
  w0 (pick kind (CS_compare_exchange_words K E h ex cur tag) (CW_compare_exchange_words K E h ex cur tag)) = stamp kind E h /\
  w0 (pick kind (CS_compare_exchange_weak_words K E h ex cur tag) (CW_compare_exchange_weak_words K E h ex cur tag)) = stamp kind E h /\
  w0 (pick kind (CS_compare_exchange_tag_words K E h ex cur tag) (CW_compare_exchange_tag_words K E h ex cur tag)) = stamp kind E (t_with_tag K ex tag) /\
  pick kind (CS_compare_exchange_expected K E h ex cur tag) (CW_compare_exchange_expected K E h ex cur tag) = [ex] /\
  pick kind (CS_compare_exchange_weak_expected K E h ex cur tag) (CW_compare_exchange_weak_expected K E h ex cur tag) = [ex] /\
  pick kind (CS_compare_exchange_tag_expected K E h ex cur tag) (CW_compare_exchange_tag_expected K E h ex cur tag) = [ex] /\
  pick kind (CS_compare_exchange_retry K E h ex cur tag) (CW_compare_exchange_retry K E h ex cur tag) = [t_ptr_eq K cur ex] /\
  pick kind (CS_compare_exchange_weak_retry K E h ex cur tag) (CW_compare_exchange_weak_retry K E h ex cur tag) = [t_ptr_eq K cur ex] /\
  pick kind (CS_compare_exchange_tag_retry K E h ex cur tag) (CW_compare_exchange_tag_retry K E h ex cur tag) = [t_ptr_eq K cur ex] /\
  pick kind (CS_store_expected K E h ex cur tag ++ CS_swap_expected K E h ex cur tag) (CW_store_expected K E h ex cur tag ++ CW_swap_expected K E h ex cur tag) = [] /\
  pick kind (CS_store_retry K E h ex cur tag ++ CS_swap_retry K E h ex cur tag) (CW_store_retry K E h ex cur tag ++ CW_swap_retry K E h ex cur tag) = [].
Proof. destruct kind; repeat split; reflexivity. Qed.

(* ---- Part B *)
Lemma tstep_cas_start k E c th e h d :
  t_pc th = POp -> nth_error (t_prog th) (t_ip th) = Some (Cas e h d) -> op_ok th (Cas e h d) = true ->
  tstep k E c th =
    Some (c, set_pc th (PCas (sget th e) (sget th e)
                          (w0 (pick k (CS_compare_exchange_words K E (hget th h) (sget th e) 0 0) (CW_compare_exchange_words K E (hget th h) (sget th e) 0 0)))),
          [1; 3; Z.of_nat e]).
Proof. intros Hp Hn Ho. unfold tstep. rewrite Hp, Hn, Ho. destruct k; reflexivity. Qed.

Lemma tstep_casweak_start k E c th e h d :
  t_pc th = POp -> nth_error (t_prog th) (t_ip th) = Some (CasWeak e h d) -> op_ok th (CasWeak e h d) = true ->
  tstep k E c th =
    Some (c, set_pc th (PCas (sget th e) (sget th e)
                          (w0 (pick k (CS_compare_exchange_weak_words K E (hget th h) (sget th e) 0 0) (CW_compare_exchange_weak_words K E (hget th h) (sget th e) 0 0)))),
          [1; 4; Z.of_nat e]).
Proof. intros Hp Hn Ho. unfold tstep. rewrite Hp, Hn, Ho. destruct k; reflexivity. Qed.

Lemma tstep_castag_start k E c th e tag d :
  t_pc th = POp -> nth_error (t_prog th) (t_ip th) = Some (CasTag e tag d) -> op_ok th (CasTag e tag d) = true ->
  tstep k E c th =
    Some (c, set_pc th (PCas (sget th e) (sget th e)
                          (w0 (pick k (CS_compare_exchange_tag_words K E 0 (sget th e) 0 tag) (CW_compare_exchange_tag_words K E 0 (sget th e) 0 tag)))),
          [1; 5; Z.of_nat e]).
Proof. intros Hp Hn Ho. unfold tstep. rewrite Hp, Hn, Ho. destruct k; reflexivity. Qed.

Lemma tstep_store k E c th h :
  t_pc th = PSwap -> nth_error (t_prog th) (t_ip th) = Some (Store h) -> hin th h = true ->
  tstep k E c th =
    let w := hget th h in
    Some (w0 (pick k (CS_store_words K E w 0 0 0) (CW_store_words K E w 0 0 0)), ret th (upd (t_hv th) h 0) (t_sv th),
          [site_swap k; 0; w; site_swap k + 900; 0; c; 2000; 1; 0]).
Proof. intros Hp Hn Hh. unfold tstep. rewrite Hp, Hn, Hh. destruct k; reflexivity. Qed.

Lemma tstep_swap k E c th h :
  t_pc th = PSwap -> nth_error (t_prog th) (t_ip th) = Some (Swap h) -> hin th h = true ->
  tstep k E c th =
    let w := hget th h in
    Some (w0 (pick k (CS_swap_words K E w 0 0 0) (CW_swap_words K E w 0 0 0)), ret th (upd (t_hv th) h c) (t_sv th),
          [site_swap k; 0; w; site_swap k + 900; 0; c; 2000; 2; c]).
Proof. intros Hp Hn Hh. unfold tstep. rewrite Hp, Hn, Hh. destruct k; reflexivity. Qed.

(* the three outcomes of one hardware CAS of a strong compare_exchange: success iff the word is the expected one;
   otherwise retry iff the generated retry test holds, else failure with the observed word as `current` *)
Lemma tstep_cas_outcome k E c th orig ex des e h d :
  t_pc th = PCas orig ex des -> nth_error (t_prog th) (t_ip th) = Some (Cas e h d) ->
  (sin th e && hin th h && sin th d) = true ->
  tstep k E c th =
    if c =? ex then Some (des, ret th (upd (t_hv th) h ex) (t_sv th), [site_cas k; 0; ex; 2001; 1; ex])
    else if b0 (pick k (CS_compare_exchange_retry K E 0 ex c 0) (CW_compare_exchange_retry K E 0 ex c 0))
         then Some (c, set_pc th (PCas orig c des), [site_cas k; 0; ex])
         else Some (c, ret th (t_hv th) (upd (t_sv th) d c), [site_cas k; 0; ex; 2001; 0; c; 2002; 0; hget th h]).
Proof. intros Hp Hn Ho. unfold tstep. rewrite Hp, Hn, Ho. destruct k; reflexivity. Qed.

Lemma tstep_castag_outcome k E c th orig ex des e tag d :
  t_pc th = PCas orig ex des -> nth_error (t_prog th) (t_ip th) = Some (CasTag e tag d) ->
  (sin th e && sin th d) = true ->
  tstep k E c th =
    if c =? ex then Some (des, ret th (t_hv th) (upd (t_sv th) d c), [site_cas k; 0; ex; 2001; 1; c])
    else if b0 (pick k (CS_compare_exchange_tag_retry K E 0 ex c tag) (CW_compare_exchange_tag_retry K E 0 ex c tag))
         then Some (c, set_pc th (PCas orig c des), [site_cas k; 0; ex])
         else Some (c, ret th (t_hv th) (upd (t_sv th) d c), [site_cas k; 0; ex; 2001; 0; c; 2002; 0; des]).
Proof. intros Hp Hn Ho. unfold tstep. rewrite Hp, Hn, Ho. destruct k; reflexivity. Qed.
