(* Which count operations the public entry points perform (Gen/ApiCallsW.v, regenerated from strong.rs / weak.rs),
   against the reference table, and against the frames Rc.start_op pushes for the operations Rc.v models. *)
From Coq Require Import ZArith List Bool String Lia.
Import ListNotations.
Require Import Params StateW DisposeW ApiCallsW ApiCallsRef Rc.
Local Open Scope Z_scope.

Theorem api_calls_are_the_reference : api_calls = api_calls_ref.
Proof. vm_compute. reflexivity. Qed.

Definition lookup (k : string) : list acall :=
  match find (fun p => String.eqb (fst p) k) api_calls with Some p => snd p | None => [] end.

Definition cval (env : string -> Z) (c : acount) : Z := match c with CNum n => n | CVar v => env v end.
Definition gtmp (tmp : bool) (g : aguard) : bool := match g with GNone => tmp | _ => false end.

(* the frames one count operation stands for in Rc.v (object o; tmp = the caller holds no guard, so a guard-less
   decrement pins by itself; k = what happens with the result of an increment) *)
Definition frames_of_call (env : string -> Z) (o : nat) (tmp : bool) (k : cont) (c : acall) : list frame :=
  match c with
  | AIncS => incs_frames o k
  | ADecS cnt g => dec_frames o (cval env cnt) (gtmp tmp g)
  | AIncW cnt => incw_frames o (cval env cnt) k
  | ADecW g => decw_frames o (gtmp tmp g)
  | AIsND | AAlloc _ => []
  end.
Definition frames_of (env : string -> Z) (o : nat) (tmp : bool) (k : cont) (key : string) : list frame :=
  flat_map (frames_of_call env o tmp k) (lookup key).

Definition no_env : string -> Z := fun _ => 0.
Definition K0 : cont := KSET 0 HNone.

Section Ops.
Variables (s : state) (x : thr) (rec : list Z).
Let tmp := Nat.eqb (gdepth x) 0.

Lemma api_drop_rc a l : dst_free x [7; a] = true -> getv x (nat_of a) = HRc l ->
  start_op s x rec [7; a] = (s, setv x (nat_of a) HNone, frames_of no_env (fst l) tmp K0 "strong.rs Drop for Rc::drop", []).
Proof. intros Hd Hg. unfold start_op. rewrite Hd, Hg. cbn [negb]. unfold frames_of. vm_compute lookup. cbn [flat_map frames_of_call cval gtmp app]. rewrite app_nil_r. reflexivity. Qed.

Lemma api_finalize a l : dst_free x [8; a] = true -> getv x (nat_of a) = HRc l ->
  start_op s x rec [8; a] = (s, setv x (nat_of a) HNone, frames_of no_env (fst l) tmp K0 "strong.rs Rc::finalize", []).
Proof. intros Hd Hg. unfold start_op. rewrite Hd, Hg. cbn [negb]. unfold frames_of. vm_compute lookup. cbn [flat_map frames_of_call cval gtmp app]. rewrite app_nil_r. reflexivity. Qed.

Lemma api_clone a d l : dst_free x [6; a; d] = true -> getv x (nat_of a) = HRc l ->
  start_op s x rec [6; a; d] = (s, x, frames_of no_env (fst l) tmp (KSET (nat_of d) (HRc l)) "strong.rs Clone for Rc::clone", []).
Proof. intros Hd Hg. unfold start_op. rewrite Hd, Hg. cbn [negb]. unfold frames_of. vm_compute lookup. cbn [flat_map frames_of_call app]. rewrite app_nil_r. reflexivity. Qed.

Lemma api_downgrade a d l : dst_free x [9; a; d] = true -> getv x (nat_of a) = HRc l ->
  start_op s x rec [9; a; d] = (s, x, frames_of no_env (fst l) tmp (KSET (nat_of d) (HWeak l)) "strong.rs Rc::downgrade", []).
Proof. intros Hd Hg. unfold start_op. rewrite Hd, Hg. cbn [negb]. unfold frames_of. vm_compute lookup. cbn [flat_map frames_of_call cval app]. rewrite app_nil_r. reflexivity. Qed.

Lemma api_weak_clone a d l : dst_free x [11; a; d] = true -> getv x (nat_of a) = HWeak l ->
  start_op s x rec [11; a; d] = (s, x, frames_of no_env (fst l) tmp (KSET (nat_of d) (HWeak l)) "weak.rs Clone for Weak::clone", []).
Proof. intros Hd Hg. unfold start_op. rewrite Hd, Hg. cbn [negb]. unfold frames_of. vm_compute lookup. cbn [flat_map frames_of_call cval app]. rewrite app_nil_r. reflexivity. Qed.

Lemma api_drop_weak a l : dst_free x [12; a] = true -> getv x (nat_of a) = HWeak l ->
  start_op s x rec [12; a] = (s, setv x (nat_of a) HNone, frames_of no_env (fst l) tmp K0 "weak.rs Drop for Weak::drop", []).
Proof. intros Hd Hg. unfold start_op. rewrite Hd, Hg. cbn [negb]. unfold frames_of. vm_compute lookup. cbn [flat_map frames_of_call gtmp app]. rewrite app_nil_r. reflexivity. Qed.

Lemma api_upgrade a d l : dst_free x [13; a; d] = true -> getv x (nat_of a) = HWeak l ->
  start_op s x rec [13; a; d] =
    (s, x, frames_of no_env (fst l) tmp {| cdst := nat_of d; cok := HRc l; cfail := HNone; cign := false |} "weak.rs Weak::upgrade", []).
Proof. intros Hd Hg. unfold start_op. rewrite Hd, Hg. cbn [negb]. unfold frames_of. vm_compute lookup. cbn [flat_map frames_of_call app]. rewrite app_nil_r. reflexivity. Qed.

Lemma api_snapshot_counted a d l n : dst_free x [15; a; d] = true -> getv x (nat_of a) = HSnap l n ->
  start_op s x rec [15; a; d] = (s, x, frames_of no_env (fst l) tmp (KSET (nat_of d) (HRc l)) "strong.rs Snapshot::counted", []).
Proof. intros Hd Hg. unfold start_op. rewrite Hd, Hg. cbn [negb]. unfold frames_of. vm_compute lookup. cbn [flat_map frames_of_call app]. rewrite app_nil_r. reflexivity. Qed.

Lemma api_wsnapshot_counted a d l n : dst_free x [17; a; d] = true -> getv x (nat_of a) = HWSnap l n ->
  start_op s x rec [17; a; d] = (s, x, frames_of no_env (fst l) tmp (KSET (nat_of d) (HWeak l)) "weak.rs WeakSnapshot::counted", []).
Proof. intros Hd Hg. unfold start_op. rewrite Hd, Hg. cbn [negb]. unfold frames_of. vm_compute lookup. cbn [flat_map frames_of_call cval app]. rewrite app_nil_r. reflexivity. Qed.

(* the bulk constructor's iterator gives back exactly the shares it has not yielded *)
Lemma api_iter_drop i o rem : dst_free x [5; i] = true -> getv x (nat_of i) = HIter o rem -> 0 <? rem = true ->
  start_op s x rec [5; i] = (s, setv x (nat_of i) HNone, frames_of (fun _ => rem) o tmp K0 "strong.rs Drop for NewRcIter::drop", []).
Proof. intros Hd Hg Hr. unfold start_op. rewrite Hd, Hg, Hr. cbn [negb]. unfold frames_of. vm_compute lookup. cbn [flat_map frames_of_call cval gtmp app]. rewrite app_nil_r. reflexivity. Qed.

Lemma api_iter_abort i o rem : dst_free x [4; i] = true -> getv x (nat_of i) = HIter o rem -> 0 <? rem = true ->
  start_op s x rec [4; i] = (s, setv x (nat_of i) HNone, frames_of (fun _ => rem) o tmp K0 "strong.rs NewRcIter::abort", []).
Proof. intros Hd Hg Hr. unfold start_op. rewrite Hd, Hg, Hr. cbn [negb]. unfold frames_of. vm_compute lookup. cbn [flat_map frames_of_call cval gtmp app]. rewrite app_nil_r. reflexivity. Qed.

End Ops.
