(* The tie between the hand-written EBR machine Ebr.v and the decisions GENERATED from src/ebr_impl/internal.rs
   (Gen/EbrProtoW.v: per function the if/while conditions in textual order and the epoch words computed, over the
   generated Epoch functions of Gen/EpochW.v).

   Ebr.v keeps an announcement as (ann, pinned) and the global epoch as a value G; the implementation keeps data
   words (2*value + pinned bit).  The lemmas below decode the generated conditions on data words into the conditions
   Ebr.micro branches on, and restate the frames that take those branches with the generated terms in place.
   A change of internal.rs that alters when try_advance gives up, what it stores, when pin re-validates, when unpin
   collects, when schedule_collection re-pins, how often a deferral tries to advance or how many bags a collection
   pops changes Gen/EbrProtoW.v and breaks one of them. *)
From Coq Require Import ZArith List Bool Lia.
Import ListNotations.
Require Import Params EpochW EbrProtoW Ebr EpochP.
Local Open Scope Z_scope.

Definition nb (l : list bool) (i : nat) : bool := nth i l false.

(* the generated Epoch functions on even (unpinned) and odd (pinned) data words *)
Lemma pinned_even r : ep r -> e_pinned (2 * r) = 2 * r + 1.
Proof. intros H. pose proof (e_pinned_spec r false H) as E. cbn [Z.b2z] in E. rewrite Z.add_0_r in E. exact E. Qed.
Lemma value_even g : ep g -> e_value (2 * g) = g.
Proof. intros H. pose proof (e_value_spec g false H) as E. cbn [Z.b2z] in E. rewrite Z.add_0_r in E. exact E. Qed.
Lemma value_odd g : ep g -> e_value (2 * g + 1) = g.
Proof. intros H. exact (e_value_spec g true H). Qed.
Lemma successor_even g : ep g -> e_successor (2 * g) = 2 * (g + 1).
Proof. intros H. pose proof (e_successor_spec g false H) as E. cbn [Z.b2z] in E. rewrite !Z.add_0_r in E. exact E. Qed.
Lemma is_pinned_odd g : ep g -> e_is_pinned (2 * g + 1) = true.
Proof. intros H. exact (e_is_pinned_spec g true H). Qed.
Lemma is_pinned_zero : e_is_pinned 0 = false.
Proof. assert (H : ep 0) by (unfold ep; lia). exact (e_is_pinned_spec 0 false H). Qed.
Lemma unpinned_odd g : ep g -> e_unpinned (2 * g + 1) = 2 * g.
Proof. intros H. exact (e_unpinned_spec g true H). Qed.

Lemma shape_ebr ge le gc gp pe c mc hc ac man :
  length (E_adv_conds ge le) = 1%nat /\ length (E_pin_conds gc gp ge pe) = 3%nat /\
  length (E_unpin_conds gc c mc hc) = 4%nat /\ length (E_repin_conds le gp) = 1%nat /\
  length (E_sched_conds c gc) = 1%nat /\ length (E_incadv_conds ac) = 1%nat /\
  length (E_incman_conds man) = 1%nat /\ length (E_relh_conds gc hc) = 1%nat.
Proof. repeat split. Qed.

(* the data word of a participant's announcement *)
Lemma edata_word l : ep (ann l) -> edata l = if pinned l then 2 * ann l + Z.b2z true else 0.
Proof. intros _. unfold edata. destruct (pinned l); reflexivity. Qed.

(* try_advance gives up on a participant exactly when it is pinned in another epoch (frame FAdv19) *)
Lemma adv_blocked_decoded lq ge :
  ep (ann lq) -> ep ge ->
  nb (E_adv_conds (2 * ge) (edata lq)) 0 = pinned lq && negb (ann lq =? ge).
Proof.
  intros Ha Hg. unfold nb, E_adv_conds, edata. cbn [nth].
  destruct (pinned lq).
  - rewrite is_pinned_odd, unpinned_odd by auto. cbn [andb].
    f_equal. destruct (Z.eqb_spec (2 * ann lq) (2 * ge)), (Z.eqb_spec (ann lq) ge); try reflexivity; lia.
  - rewrite is_pinned_zero. reflexivity.
Qed.

(* ... and otherwise stores the successor (frame FAdv20) *)
Lemma adv_new_epoch_decoded ge le : ep ge -> E_adv_new_epoch (2 * ge) le = 2 * (ge + 1).
Proof.
  intros Hg. unfold E_adv_new_epoch. apply successor_even. auto.
Qed.

(* pin: the outermost guard pins; it announces the pinned form of the epoch it read and re-validates against the
   epoch it reads next (frames FPinStart, FPin10/11, FPin12) *)
Lemma pin_outermost_decoded gc gp ge pe : nb (E_pin_conds (Z.of_nat gc) gp ge pe) 0 = match gc with O => true | S _ => false end.
Proof. unfold nb, E_pin_conds. cbn [nth]. destruct gc; [reflexivity|]. apply Z.eqb_neq. lia. Qed.

Lemma pin_announces_decoded gc gp r pe : ep r -> E_pin_new_epoch gc gp (2 * r) pe = 2 * r + 1.
Proof.
  intros Hr. unfold E_pin_new_epoch. apply pinned_even. auto.
Qed.

Lemma pin_validates_decoded gc g r pe : ep r -> ep g -> nb (E_pin_conds gc (2 * g) (2 * r) pe) 1 = (g =? r).
Proof.
  intros Hr Hg. unfold nb, E_pin_conds. cbn [nth].
  rewrite pinned_even, value_odd, value_even by auto. apply Z.eqb_sym.
Qed.

Lemma pin_resets_counter_decoded gc gp r pe : ep r -> nb (E_pin_conds gc gp (2 * r) pe) 2 = negb (2 * r + 1 =? pe).
Proof.
  intros Hr. unfold nb, E_pin_conds. cbn [nth]. rewrite pinned_even by auto. reflexivity.
Qed.

(* unpin: collects iff this is the outermost guard and no collection is running; loops while must_collect; publishes
   the unpinned state iff it was the outermost guard (frames FUnpin0, FUnpinLoop, FUnpinFin) *)
Lemma unpin_decoded gc c mc hc :
  nb (E_unpin_conds (Z.of_nat gc) c mc hc) 0 = Nat.eqb gc 1 && negb c /\
  nb (E_unpin_conds (Z.of_nat gc) c mc hc) 1 = mc /\
  nb (E_unpin_conds (Z.of_nat gc) c mc hc) 2 = Nat.eqb gc 1.
Proof.
  assert (E : (Z.of_nat gc =? 1) = Nat.eqb gc 1).
  { destruct (Nat.eqb_spec gc 1) as [->|N]; [reflexivity|]. apply Z.eqb_neq. lia. }
  unfold nb, E_unpin_conds. cbn [nth]. rewrite E. repeat split.
Qed.

(* repin_without_collect: stores the pinned form of the global epoch unless it is announced already (FRepin16/17) *)
Lemma repin_decoded l g :
  ep g -> nb (E_repin_conds (edata l) (2 * g)) 0 = negb (edata l =? 2 * g + 1) /\ E_repin_global_epoch (edata l) (2 * g) = 2 * g + 1.
Proof.
  intros Hg. unfold nb, E_repin_conds, E_repin_global_epoch. cbn [nth]. rewrite pinned_even by auto. split; reflexivity.
Qed.

(* schedule_collection re-pins iff a collection is running and the guard being dropped is the only one (FSched) *)
Lemma sched_decoded c gc : nb (E_sched_conds c (Z.of_nat gc)) 0 = c && Nat.eqb gc 1.
Proof.
  unfold nb, E_sched_conds. cbn [nth]. f_equal.
  destruct (Nat.eqb_spec gc 1) as [->|N]; [reflexivity|]. apply Z.eqb_neq. lia.
Qed.

(* incr_advance: the counter and the period (FDeferIncr) *)
Lemma incadv_decoded ac :
  E_incadv_advance_count ac = (ac + 1) mod 2 ^ 64 /\
  nb (E_incadv_conds ac) 0 = ((ac + 1) mod 2 ^ 64 mod COUNTS_BETWEEN_ADVANCE =? 0).
Proof. split; reflexivity. Qed.

(* collect: the number of conditional pops (FCollectPop) *)
Lemma collect_trials_decoded : E_collect_trials = COLLECTS_TRIALS.
Proof. reflexivity. Qed.

(* ---- the frames of Ebr.micro that take these decisions, in the generated terms *)
Section Frames.
Variables (s : state) (t : nat) (l : local) (k : list frame).
Hypothesis Ht : getl s t = Some l.
Let ret (l' : local) (fs : list frame) (o : list Z) := Some (setl s t (with_frames l' fs), o).

Lemma ebr_adv19 ge q rest lq :
  frames l = FAdv19 ge q rest :: k -> getl s q = Some lq -> ep (ann lq) -> ep ge ->
  micro s t =
    let o := [19; Z.of_nat q; 0; 1219; Z.of_nat q; edata lq] in
    if nb (E_adv_conds (2 * ge) (edata lq)) 0 then ret l k o else ret l (FAdvScan ge rest :: k) o.
Proof.
  intros Hf Hq Ha Hg. unfold micro. rewrite Ht, Hf, Hq. rewrite adv_blocked_decoded by auto. reflexivity.
Qed.

Lemma ebr_adv20 ge le :
  frames l = FAdv20 ge :: k -> ep ge ->
  micro s t =
    Some ({| G := E_adv_new_epoch (2 * ge) le / 2; cap := cap s; registry := registry s; sealed := sealed s;
             threads := set_nth (threads s) t (with_frames l k); ran := ran s |},
          [20; E_adv_new_epoch (2 * ge) le; 0]).
Proof.
  intros Hf Hg. unfold micro. rewrite Ht, Hf. rewrite adv_new_epoch_decoded by auto.
  replace (2 * (ge + 1) / 2) with (ge + 1) by (rewrite Z.mul_comm, Z.div_mul; lia). reflexivity.
Qed.

Lemma ebr_unpin0 mc hc :
  frames l = FUnpin0 :: k ->
  micro s t =
    if nb (E_unpin_conds (Z.of_nat (gcnt l)) (collecting l) mc hc) 0 then
      ret {| ann := ann l; pinned := pinned l; valid := valid l; incs := false; serial := serial l;
             gcnt := gcnt l; bag := bag l; must_collect := must_collect l; collecting := true;
             advance_count := advance_count l; prev_epoch := prev_epoch l; frames := frames l;
             prog := prog l; registered := registered l |} (FUnpinLoop :: k) []
    else ret l (FUnpinFin :: k) [].
Proof.
  intros Hf. unfold micro. rewrite Ht, Hf. destruct (unpin_decoded (gcnt l) (collecting l) mc hc) as (E & _). rewrite E. reflexivity.
Qed.

Lemma ebr_sched :
  frames l = FSched :: k ->
  micro s t =
    let l' := {| ann := ann l; pinned := pinned l; valid := valid l; incs := incs l; serial := serial l;
                 gcnt := gcnt l; bag := bag l; must_collect := true; collecting := collecting l;
                 advance_count := advance_count l; prev_epoch := prev_epoch l; frames := frames l;
                 prog := prog l; registered := registered l |} in
    if nb (E_sched_conds (collecting l) (Z.of_nat (gcnt l))) 0 then ret l' (FRepin16 :: k) [] else ret l' k [].
Proof. intros Hf. unfold micro. rewrite Ht, Hf. rewrite sched_decoded. reflexivity. Qed.

Lemma ebr_repin16 :
  frames l = FRepin16 :: k -> valid l = true -> incs l = false -> ep (G s) ->
  micro s t =
    let o := [16; 0; 0; 1216; E_repin_global_epoch (edata l) (2 * G s); 0] in
    if nb (E_repin_conds (edata l) (2 * G s)) 0 then ret l (FRepin17 (G s) :: k) o else ret l k o.
Proof.
  intros Hf Hv Hi Hg. unfold micro. rewrite Ht, Hf, Hv, Hi. cbn [andb negb].
  destruct (repin_decoded l (G s) Hg) as (E1 & E2). rewrite E1, E2.
  destruct (edata l =? 2 * G s + 1); reflexivity.
Qed.

Lemma ebr_defer_incr :
  frames l = FDeferIncr :: k ->
  micro s t =
    let l' := {| ann := ann l; pinned := pinned l; valid := valid l; incs := incs l; serial := serial l;
                 gcnt := gcnt l; bag := bag l; must_collect := must_collect l; collecting := collecting l;
                 advance_count := E_incadv_advance_count (advance_count l); prev_epoch := prev_epoch l; frames := frames l;
                 prog := prog l; registered := registered l |} in
    if nb (E_incadv_conds (advance_count l)) 0 then ret l' (FAdv18 :: k) [] else ret l' k [].
Proof. intros Hf. unfold micro. rewrite Ht, Hf. reflexivity. Qed.

Lemma ebr_collect_pop i :
  frames l = FCollectPop i :: k ->
  micro s t = if Nat.ltb i (Z.to_nat E_collect_trials) then ret l (FCollect23 i :: k) [] else ret l k [].
Proof. intros Hf. unfold micro. rewrite Ht, Hf. reflexivity. Qed.

Lemma ebr_pin12 r gc gp pe :
  frames l = FPin12 r :: k -> ep r -> ep (G s) ->
  micro s t =
    if nb (E_pin_conds gc (2 * G s) (2 * r) pe) 1 then
      let newdata := E_pin_new_epoch gc gp (2 * r) pe in
      ret {| ann := ann l; pinned := pinned l; valid := true;
             incs := negb (collecting l);
             serial := if collecting l then serial l else S (serial l);
             gcnt := gcnt l; bag := bag l; must_collect := must_collect l; collecting := collecting l;
             advance_count := if nb (E_pin_conds gc gp (2 * r) (prev_epoch l)) 2 then 0 else advance_count l;
             prev_epoch := newdata; frames := frames l;
             prog := prog l; registered := registered l |} k [12; 0; 0]
    else ret l (FPin13 :: k) [12; 0; 0].
Proof.
  intros Hf Hr Hg. unfold micro. rewrite Ht, Hf. rewrite pin_validates_decoded by auto.
  rewrite pin_resets_counter_decoded by auto. rewrite pin_announces_decoded by auto.
  destruct (G s =? r); [|reflexivity]. destruct (2 * r + 1 =? prev_epoch l); reflexivity.
Qed.

End Frames.
