(* C13 -- pinned statements only (generated once by tools/pin.py from `Check`, then fixed); proofs in EbrP.v *)
From Coq Require Import ZArith List Bool Lia Arith.
Import ListNotations.
Require Import Params Ebr EbrP EbrNoStuckP.
Local Open Scope Z_scope.

Theorem C13_expire_side_condition :
  2 <= EXPIRE_AFTER.
Proof. exact EbrP.expire_ge_2. Qed.
Print Assumptions C13_expire_side_condition.

Theorem C13_invariant_preserved :
  forall (s : state) (t : nat) (s' : state) (o : list Z), Inv s -> micro s t = Some (s', o) -> Inv s'.
Proof. exact EbrP.micro_inv. Qed.
Print Assumptions C13_invariant_preserved.

Theorem C13_invariant_initial :
  forall (c : nat) (g0 : Z) (progs : list (list cmd)), Inv (init_state c g0 progs).
Proof. exact EbrP.init_inv. Qed.
Print Assumptions C13_invariant_initial.

Theorem C13_witnesses_iff :
  forall (s : state) (q n : nat),
       In (q, n) (witnesses s) <->
       (exists lq : local, nth_error (threads s) q = Some lq /\ incs lq = true /\ serial lq = n).
Proof. exact EbrP.witnesses_iff. Qed.
Print Assumptions C13_witnesses_iff.

Theorem C13_defer_records :
  forall (s : state) (t : nat) (l : local) (d : def) (k : list frame) (s' : state) (o : list Z),
       nth_error (threads s) t = Some l ->
       frames l = FDefer d :: k ->
       (length (bag l) < cap s)%nat ->
       micro s t = Some (s', o) ->
       exists l' : local,
         nth_error (threads s') t = Some l' /\
         bag l' = bag l ++ [{| did := did d; dbody := dbody d; dG := G s; wit := witnesses s |}].
Proof. exact EbrP.defer_records. Qed.
Print Assumptions C13_defer_records.

Theorem C13_ran_changes :
  forall (s : state) (t : nat) (s' : state) (o : list Z),
       micro s t = Some (s', o) ->
       ran s' = ran s \/
       (exists (l : local) (d : def) (rest : list def) (k : list frame),
          nth_error (threads s) t = Some l /\
          frames l = FRunItems (d :: rest) :: k /\
          0 <= did d /\ ran s' = did d :: ran s /\ o = [2010; did d; 0]).
Proof. exact EbrP.ran_changes. Qed.
Print Assumptions C13_ran_changes.

Theorem C13_grace_micro :
  forall (s : state) (t : nat) (l : local) (d : def) (rest : list def) (k : list frame),
       Inv s ->
       nth_error (threads s) t = Some l ->
       frames l = FRunItems (d :: rest) :: k ->
       forall (q n : nat) (lq : local),
       In (q, n) (wit d) -> nth_error (threads s) q = Some lq -> ~ (incs lq = true /\ serial lq = n).
Proof. exact EbrP.C13_grace_micro. Qed.
Print Assumptions C13_grace_micro.

Theorem C13_grace :
  forall (c : nat) (g0 : Z) (progs : list (list cmd)) (sched : list nat) (t : nat) 
         (l : local) (d : def) (rest : list def) (k : list frame),
       let s := mrun (init_state c g0 progs) sched in
       nth_error (threads s) t = Some l ->
       frames l = FRunItems (d :: rest) :: k ->
       forall (q n : nat) (lq : local),
       In (q, n) (wit d) -> nth_error (threads s) q = Some lq -> ~ (incs lq = true /\ serial lq = n).
Proof. exact EbrP.C13_grace. Qed.
Print Assumptions C13_grace.


(* ---- the model's defensive guards (try_advance / repin_without_collect only by a validated participant,
   scanned participants exist) never fire on reachable states of well-formed programs (EbrNoStuckP.v) *)
Theorem C13_no_guard_fires :
  forall (s : state) (t : nat) (l : local),
       NS s ->
       getl s t = Some l -> frames l <> [] -> exists (s' : state) (o : list Z), micro s t = Some (s', o).
Proof. exact EbrNoStuckP.micro_total. Qed.
Print Assumptions C13_no_guard_fires.

Theorem C13_no_stuck_invariant :
  forall (s : state) (t : nat) (s' : state) (o : list Z), NS s -> micro s t = Some (s', o) -> NS s'.
Proof. exact EbrNoStuckP.micro_ns. Qed.
Print Assumptions C13_no_stuck_invariant.

Theorem C13_no_stuck_initial :
  forall (c : nat) (g0 : Z) (progs : list (list cmd)),
       forallb prog_ok progs = true -> NS (init_state c g0 progs).
Proof. exact EbrNoStuckP.init_ns. Qed.
Print Assumptions C13_no_stuck_initial.

Theorem C13_no_guard_fires_step :
  forall (c : nat) (g0 : Z) (progs : list (list cmd)) (sched : list nat) (t : nat) (l : local),
       forallb prog_ok progs = true ->
       getl (srun (init_state c g0 progs) sched) t = Some l ->
       frames l <> [] -> micro (srun (init_state c g0 progs) sched) t <> None.
Proof. exact EbrNoStuckP.no_guard_fires_step. Qed.
Print Assumptions C13_no_guard_fires_step.

