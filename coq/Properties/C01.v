(* C01 -- pinned statements only; the statement text below is the definition of RcSpec.v written out (the proof is
   `exact`, so it is checked to be convertible with it); proofs in RcP.v (strong side) and RcWeakP.v (weak side) *)
From Coq Require Import ZArith List Bool Lia Arith.
Import ListNotations.
Require Import RcPinnedP Params StateW DisposeW ModularW RcSnapCheck RcSnapP RcSnapInvP RcWSnapInvP Rc RcSpec RcP RcWeakP RcRunOkEx.
Local Open Scope Z_scope.

Theorem C01_strong_owner_keeps_alive :
  forall s0 sched, fresh_start s0 -> bounded_run s0 sched -> live_counted s0 sched ->
  let s := mrun s0 sched in
  forall o ob, geto s o = Some ob -> 0 < owners s o -> dropped ob = false /\ freed ob = false /\ destructed (word ob) = false.
Proof. exact RcWeakP.C01. Qed.
Print Assumptions C01_strong_owner_keeps_alive.

Theorem C01_invariant_initial :
  forall s : state, fresh_start s -> Inv' s.
Proof. exact RcP.Inv_fresh. Qed.
Print Assumptions C01_invariant_initial.

Theorem C01_invariant_preserved :
  forall (s : state) (t : nat) (rec : list Z) (s' : state) (o : list Z),
       Inv' s ->
       tde_ok s -> counted_ok s -> bounded s -> bounded s' -> micro s t rec = Some (s', o) -> Inv' s'.
Proof. exact RcP.micro_inv. Qed.
Print Assumptions C01_invariant_preserved.

Theorem C01_example_state :
  let s := mrun ex_s0 (ex_sched 20 9) in
       match geto s 1 with
       | Some ob =>
           (owners s 1 =? 2) && (strong (word ob) =? 2) && (weak (word ob) =? 2) &&
           negb (destructed (word ob))
       | None => false
       end &&
       match gett s 1 with
       | Some x => match frames x with
                   | FIncS100 1%nat _ :: _ => true
                   | _ => false
                   end
       | None => false
       end = true.
Proof. exact RcP.ex_state. Qed.
Print Assumptions C01_example_state.

Theorem C01_invariant_runs :
  forall (s0 : state) (sched : list (nat * list Z)),
       fresh_start s0 -> bounded_run s0 sched -> live_counted s0 sched -> Inv' (mrun s0 sched).
Proof. exact RcWeakP.mrun_inv. Qed.
Print Assumptions C01_invariant_runs.

Theorem C01_weak_invariant_preserved :
  forall (s : state) (t : nat) (rec : list Z) (s' : state) (o : list Z),
       Winv s -> Inv' s -> counted_ok s -> bounded s -> bounded s' -> micro s t rec = Some (s', o) -> Winv s'.
Proof. exact RcWeakP.wmicro_inv. Qed.
Print Assumptions C01_weak_invariant_preserved.

Theorem C01_hypotheses_satisfiable :
  fresh_start ex_s0 /\ bounded_run ex_s0 (ex_sched 20 9) /\ live_counted ex_s0 (ex_sched 20 9).
Proof. exact RcWeakP.ex_theorem_hyps. Qed.
Print Assumptions C01_hypotheses_satisfiable.

(* ---- FINAL FORM (RcWSnapInvP.v): the same statements under run_ok only - fresh start, well-formed programs
   (cellops_ok, bounded_run) and the run hypotheses H2 pinned / H3 scoped, wscoped / epoch < 2^62; the former hypothesis
   live_counted (scounted_ok, wcounted_ok = finding F5, wlive_ok) is now a THEOREM (C02_count_hypotheses_discharged) *)
Theorem C01_final :
  forall (s0 : state) (sched : list (nat * list Z)),
       run_ok s0 sched ->
       let s := mrun s0 sched in
       forall (o : nat) (ob : obj),
       geto s o = Some ob ->
       0 < owners s o -> dropped ob = false /\ freed ob = false /\ destructed (word ob) = false.
Proof. exact RcWSnapInvP.C01_final. Qed.
Print Assumptions C01_final.

(* ---- the hypothesis run_ok of the final theorems is satisfiable (RcRunOkEx.v: boolean forms of every run hypothesis with
   soundness lemmas, evaluated by vm_compute on a two-thread run) *)
Theorem C01_final_hypotheses_satisfiable :
  run_ok ex_s0 (ex_sched 20 9).
Proof. exact RcRunOkEx.ex_run_ok. Qed.
Print Assumptions C01_final_hypotheses_satisfiable.

(* ---- H2 only where the model lacks the pin (RcPinnedP.v): the run hypothesis `pinned` (epochs carried by frames are within one
   of the global epoch) is DERIVED for every thread that is inside a critical section - the epoch was read after the pin and the
   section holds the clock - and remains an assumption (`pinned_out`, run_ok') only for threads outside one: deferred functions
   run by an unpinned collector and guard-less operations, where the real code pins internally and the model does not *)
Theorem C01_final_H2_outside_sections_only :
  forall (s0 : state) (sched : list (nat * list Z)),
       run_ok' s0 sched ->
       let s := RcDepthP.mrun s0 sched in
       forall (o : nat) (ob : obj),
       geto s o = Some ob ->
       0 < owners s o -> dropped ob = false /\ freed ob = false /\ destructed (word ob) = false.
Proof. exact RcPinnedP.C01_final'. Qed.
Print Assumptions C01_final_H2_outside_sections_only.
