(* C01 -- pinned statements only (generated once by tools/pin.py from `Check`, then fixed); proofs in RcP.v *)
From Coq Require Import ZArith List Bool Lia Arith.
Import ListNotations.
Require Import Params StateW DisposeW Rc RcSpec RcP.
Local Open Scope Z_scope.

Theorem C01_invariant_initial :
  forall s : state, fresh_start s -> Inv' s.
Proof. exact RcP.Inv_fresh. Qed.
Print Assumptions C01_invariant_initial.

Theorem C01_invariant_preserved :
  forall (s : state) (t : nat) (rec : list Z) (s' : state) (o : list Z),
       Inv' s ->
       tde_ok s -> counted_ok s -> bounded s -> bounded s' -> micro s t rec = Some (s', o) -> Inv' s'.
Proof. exact RcP.micro_inv. Qed.
Print Assumptions C01_invariant_preserved.

Theorem C01_invariant_runs :
  forall (sched : list (nat * list Z)) (s0 : state),
       Inv' s0 -> bounded_run s0 sched -> live_counted s0 sched -> tde_run s0 sched -> Inv' (mrun s0 sched).
Proof. exact RcP.mrun_inv_tde. Qed.
Print Assumptions C01_invariant_runs.

Theorem C01_tde :
  forall (s0 : state) (sched : list (nat * list Z)),
       run_hyps s0 sched ->
       let s := mrun s0 sched in
       forall (o : nat) (ob : obj),
       geto s o = Some ob ->
       0 < owners s o -> dropped ob = false /\ freed ob = false /\ destructed (word ob) = false.
Proof. exact RcP.C01_tde. Qed.
Print Assumptions C01_tde.

Theorem C01_hypotheses_satisfiable :
  run_hyps ex_s0 (ex_sched 20 9).
Proof. exact RcP.ex_hyps. Qed.
Print Assumptions C01_hypotheses_satisfiable.

Theorem C01_example_state :
  let s := mrun ex_s0 (ex_sched 20 9) in
       match geto s 1 with
       | Some ob =>
           (owners s 1 =? 2) && (strong (word ob) =? 2) && (weak (word ob) =? 2) &&
           negb (destructed (word ob))
       | None => false
       end &&
       match gett s 1 with
       | Some x => match frames x with
                   | FIncS100 1%nat _ :: _ => true
                   | _ => false
                   end
       | None => false
       end = true.
Proof. exact RcP.ex_state. Qed.
Print Assumptions C01_example_state.

