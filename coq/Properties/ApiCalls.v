(* ApiCalls -- pinned statements only (generated once by tools/pin.py from `Check`, then fixed); proofs in ApiCallsP.v *)
From Coq Require Import ZArith List Bool Lia Arith.
Import ListNotations.
Require Import Params StateW DisposeW ApiCallsW ApiCallsRef Rc ApiCallsP.
Local Open Scope Z_scope.

Theorem ApiCalls_api_calls_are_the_reference :
  api_calls = api_calls_ref.
Proof. exact ApiCallsP.api_calls_are_the_reference. Qed.
Print Assumptions ApiCalls_api_calls_are_the_reference.

Theorem ApiCalls_api_drop_rc :
  forall (s : state) (x : thr) (rec : list Z) (a : Z) (l : link),
       dst_free x [7; a] = true ->
       getv x (nat_of a) = HRc l ->
       start_op s x rec [7; a] =
       (s, setv x (nat_of a) HNone,
        frames_of no_env (fst l) (gdepth x =? 0)%nat K0
          (String.String (Ascii.Ascii true true false false true true true false)
             (String.String (Ascii.Ascii false false true false true true true false)
                (String.String (Ascii.Ascii false true false false true true true false)
                   (String.String (Ascii.Ascii true true true true false true true false)
                      (String.String (Ascii.Ascii false true true true false true true false)
                         (String.String (Ascii.Ascii true true true false false true true false)
                            (String.String (Ascii.Ascii false true true true false true false false)
                               (String.String (Ascii.Ascii false true false false true true true false)
                                  (String.String (Ascii.Ascii true true false false true true true false)
                                     (String.String
                                        (Ascii.Ascii false false false false false true false false)
                                        (String.String
                                           (Ascii.Ascii false false true false false false true false)
                                           (String.String
                                              (Ascii.Ascii false true false false true true true false)
                                              (String.String
                                                 (Ascii.Ascii true true true true false true true false)
                                                 (String.String
                                                    (Ascii.Ascii false false false false true true true false)
                                                    (String.String
                                                       (Ascii.Ascii false false false false false true false
                                                          false)
                                                       (String.String
                                                          (Ascii.Ascii false true true false false true true
                                                             false)
                                                          (String.String
                                                             (Ascii.Ascii true true true true false true true
                                                                false)
                                                             (String.String
                                                                (Ascii.Ascii false true false false true true
                                                                   true false)
                                                                (String.String
                                                                   (Ascii.Ascii false false false false false
                                                                      true false false)
                                                                   (String.String
                                                                      (Ascii.Ascii false true false false
                                                                         true false true false)
                                                                      (String.String
                                                                         (Ascii.Ascii true true false false
                                                                            false true true false)
                                                                         (String.String
                                                                            (Ascii.Ascii false true false
                                                                               true true true false false)
                                                                            (String.String
                                                                               (Ascii.Ascii false true false
                                                                                true true true false false)
                                                                               (String.String
                                                                                (Ascii.Ascii false false true
                                                                                false false true true false)
                                                                                (String.String
                                                                                (Ascii.Ascii false true false
                                                                                false true true true false)
                                                                                (String.String
                                                                                (Ascii.Ascii true true true
                                                                                true false true true false)
                                                                                (String.String
                                                                                (Ascii.Ascii false false
                                                                                false false true true true
                                                                                false) String.EmptyString))))))))))))))))))))))))))),
        []).
Proof. exact ApiCallsP.api_drop_rc. Qed.
Print Assumptions ApiCalls_api_drop_rc.

Theorem ApiCalls_api_finalize :
  forall (s : state) (x : thr) (rec : list Z) (a : Z) (l : link),
       dst_free x [8; a] = true ->
       getv x (nat_of a) = HRc l ->
       start_op s x rec [8; a] =
       (s, setv x (nat_of a) HNone,
        frames_of no_env (fst l) (gdepth x =? 0)%nat K0
          (String.String (Ascii.Ascii true true false false true true true false)
             (String.String (Ascii.Ascii false false true false true true true false)
                (String.String (Ascii.Ascii false true false false true true true false)
                   (String.String (Ascii.Ascii true true true true false true true false)
                      (String.String (Ascii.Ascii false true true true false true true false)
                         (String.String (Ascii.Ascii true true true false false true true false)
                            (String.String (Ascii.Ascii false true true true false true false false)
                               (String.String (Ascii.Ascii false true false false true true true false)
                                  (String.String (Ascii.Ascii true true false false true true true false)
                                     (String.String
                                        (Ascii.Ascii false false false false false true false false)
                                        (String.String
                                           (Ascii.Ascii false true false false true false true false)
                                           (String.String
                                              (Ascii.Ascii true true false false false true true false)
                                              (String.String
                                                 (Ascii.Ascii false true false true true true false false)
                                                 (String.String
                                                    (Ascii.Ascii false true false true true true false false)
                                                    (String.String
                                                       (Ascii.Ascii false true true false false true true
                                                          false)
                                                       (String.String
                                                          (Ascii.Ascii true false false true false true true
                                                             false)
                                                          (String.String
                                                             (Ascii.Ascii false true true true false true
                                                                true false)
                                                             (String.String
                                                                (Ascii.Ascii true false false false false
                                                                   true true false)
                                                                (String.String
                                                                   (Ascii.Ascii false false true true false
                                                                      true true false)
                                                                   (String.String
                                                                      (Ascii.Ascii true false false true
                                                                         false true true false)
                                                                      (String.String
                                                                         (Ascii.Ascii false true false true
                                                                            true true true false)
                                                                         (String.String
                                                                            (Ascii.Ascii true false true
                                                                               false false true true false)
                                                                            String.EmptyString)))))))))))))))))))))),
        []).
Proof. exact ApiCallsP.api_finalize. Qed.
Print Assumptions ApiCalls_api_finalize.

Theorem ApiCalls_api_clone :
  forall (s : state) (x : thr) (rec : list Z) (a d : Z) (l : link),
       dst_free x [6; a; d] = true ->
       getv x (nat_of a) = HRc l ->
       start_op s x rec [6; a; d] =
       (s, x,
        frames_of no_env (fst l) (gdepth x =? 0)%nat (KSET (nat_of d) (HRc l))
          (String.String (Ascii.Ascii true true false false true true true false)
             (String.String (Ascii.Ascii false false true false true true true false)
                (String.String (Ascii.Ascii false true false false true true true false)
                   (String.String (Ascii.Ascii true true true true false true true false)
                      (String.String (Ascii.Ascii false true true true false true true false)
                         (String.String (Ascii.Ascii true true true false false true true false)
                            (String.String (Ascii.Ascii false true true true false true false false)
                               (String.String (Ascii.Ascii false true false false true true true false)
                                  (String.String (Ascii.Ascii true true false false true true true false)
                                     (String.String
                                        (Ascii.Ascii false false false false false true false false)
                                        (String.String
                                           (Ascii.Ascii true true false false false false true false)
                                           (String.String
                                              (Ascii.Ascii false false true true false true true false)
                                              (String.String
                                                 (Ascii.Ascii true true true true false true true false)
                                                 (String.String
                                                    (Ascii.Ascii false true true true false true true false)
                                                    (String.String
                                                       (Ascii.Ascii true false true false false true true
                                                          false)
                                                       (String.String
                                                          (Ascii.Ascii false false false false false true
                                                             false false)
                                                          (String.String
                                                             (Ascii.Ascii false true true false false true
                                                                true false)
                                                             (String.String
                                                                (Ascii.Ascii true true true true false true
                                                                   true false)
                                                                (String.String
                                                                   (Ascii.Ascii false true false false true
                                                                      true true false)
                                                                   (String.String
                                                                      (Ascii.Ascii false false false false
                                                                         false true false false)
                                                                      (String.String
                                                                         (Ascii.Ascii false true false false
                                                                            true false true false)
                                                                         (String.String
                                                                            (Ascii.Ascii true true false
                                                                               false false true true false)
                                                                            (String.String
                                                                               (Ascii.Ascii false true false
                                                                                true true true false false)
                                                                               (String.String
                                                                                (Ascii.Ascii false true false
                                                                                true true true false false)
                                                                                (String.String
                                                                                (Ascii.Ascii true true false
                                                                                false false true true false)
                                                                                (String.String
                                                                                (Ascii.Ascii false false true
                                                                                true false true true false)
                                                                                (String.String
                                                                                (Ascii.Ascii true true true
                                                                                true false true true false)
                                                                                (String.String
                                                                                (Ascii.Ascii false true true
                                                                                true false true true false)
                                                                                (String.String
                                                                                (Ascii.Ascii true false true
                                                                                false false true true false)
                                                                                String.EmptyString))))))))))))))))))))))))))))),
        []).
Proof. exact ApiCallsP.api_clone. Qed.
Print Assumptions ApiCalls_api_clone.

Theorem ApiCalls_api_downgrade :
  forall (s : state) (x : thr) (rec : list Z) (a d : Z) (l : link),
       dst_free x [9; a; d] = true ->
       getv x (nat_of a) = HRc l ->
       start_op s x rec [9; a; d] =
       (s, x,
        frames_of no_env (fst l) (gdepth x =? 0)%nat (KSET (nat_of d) (HWeak l))
          (String.String (Ascii.Ascii true true false false true true true false)
             (String.String (Ascii.Ascii false false true false true true true false)
                (String.String (Ascii.Ascii false true false false true true true false)
                   (String.String (Ascii.Ascii true true true true false true true false)
                      (String.String (Ascii.Ascii false true true true false true true false)
                         (String.String (Ascii.Ascii true true true false false true true false)
                            (String.String (Ascii.Ascii false true true true false true false false)
                               (String.String (Ascii.Ascii false true false false true true true false)
                                  (String.String (Ascii.Ascii true true false false true true true false)
                                     (String.String
                                        (Ascii.Ascii false false false false false true false false)
                                        (String.String
                                           (Ascii.Ascii false true false false true false true false)
                                           (String.String
                                              (Ascii.Ascii true true false false false true true false)
                                              (String.String
                                                 (Ascii.Ascii false true false true true true false false)
                                                 (String.String
                                                    (Ascii.Ascii false true false true true true false false)
                                                    (String.String
                                                       (Ascii.Ascii false false true false false true true
                                                          false)
                                                       (String.String
                                                          (Ascii.Ascii true true true true false true true
                                                             false)
                                                          (String.String
                                                             (Ascii.Ascii true true true false true true true
                                                                false)
                                                             (String.String
                                                                (Ascii.Ascii false true true true false true
                                                                   true false)
                                                                (String.String
                                                                   (Ascii.Ascii true true true false false
                                                                      true true false)
                                                                   (String.String
                                                                      (Ascii.Ascii false true false false
                                                                         true true true false)
                                                                      (String.String
                                                                         (Ascii.Ascii true false false false
                                                                            false true true false)
                                                                         (String.String
                                                                            (Ascii.Ascii false false true
                                                                               false false true true false)
                                                                            (String.String
                                                                               (Ascii.Ascii true false true
                                                                                false false true true false)
                                                                               String.EmptyString))))))))))))))))))))))),
        []).
Proof. exact ApiCallsP.api_downgrade. Qed.
Print Assumptions ApiCalls_api_downgrade.

Theorem ApiCalls_api_weak_clone :
  forall (s : state) (x : thr) (rec : list Z) (a d : Z) (l : link),
       dst_free x [11; a; d] = true ->
       getv x (nat_of a) = HWeak l ->
       start_op s x rec [11; a; d] =
       (s, x,
        frames_of no_env (fst l) (gdepth x =? 0)%nat (KSET (nat_of d) (HWeak l))
          (String.String (Ascii.Ascii true true true false true true true false)
             (String.String (Ascii.Ascii true false true false false true true false)
                (String.String (Ascii.Ascii true false false false false true true false)
                   (String.String (Ascii.Ascii true true false true false true true false)
                      (String.String (Ascii.Ascii false true true true false true false false)
                         (String.String (Ascii.Ascii false true false false true true true false)
                            (String.String (Ascii.Ascii true true false false true true true false)
                               (String.String (Ascii.Ascii false false false false false true false false)
                                  (String.String (Ascii.Ascii true true false false false false true false)
                                     (String.String (Ascii.Ascii false false true true false true true false)
                                        (String.String
                                           (Ascii.Ascii true true true true false true true false)
                                           (String.String
                                              (Ascii.Ascii false true true true false true true false)
                                              (String.String
                                                 (Ascii.Ascii true false true false false true true false)
                                                 (String.String
                                                    (Ascii.Ascii false false false false false true false
                                                       false)
                                                    (String.String
                                                       (Ascii.Ascii false true true false false true true
                                                          false)
                                                       (String.String
                                                          (Ascii.Ascii true true true true false true true
                                                             false)
                                                          (String.String
                                                             (Ascii.Ascii false true false false true true
                                                                true false)
                                                             (String.String
                                                                (Ascii.Ascii false false false false false
                                                                   true false false)
                                                                (String.String
                                                                   (Ascii.Ascii true true true false true
                                                                      false true false)
                                                                   (String.String
                                                                      (Ascii.Ascii true false true false
                                                                         false true true false)
                                                                      (String.String
                                                                         (Ascii.Ascii true false false false
                                                                            false true true false)
                                                                         (String.String
                                                                            (Ascii.Ascii true true false true
                                                                               false true true false)
                                                                            (String.String
                                                                               (Ascii.Ascii false true false
                                                                                true true true false false)
                                                                               (String.String
                                                                                (Ascii.Ascii false true false
                                                                                true true true false false)
                                                                                (String.String
                                                                                (Ascii.Ascii true true false
                                                                                false false true true false)
                                                                                (String.String
                                                                                (Ascii.Ascii false false true
                                                                                true false true true false)
                                                                                (String.String
                                                                                (Ascii.Ascii true true true
                                                                                true false true true false)
                                                                                (String.String
                                                                                (Ascii.Ascii false true true
                                                                                true false true true false)
                                                                                (String.String
                                                                                (Ascii.Ascii true false true
                                                                                false false true true false)
                                                                                String.EmptyString))))))))))))))))))))))))))))),
        []).
Proof. exact ApiCallsP.api_weak_clone. Qed.
Print Assumptions ApiCalls_api_weak_clone.

Theorem ApiCalls_api_drop_weak :
  forall (s : state) (x : thr) (rec : list Z) (a : Z) (l : link),
       dst_free x [12; a] = true ->
       getv x (nat_of a) = HWeak l ->
       start_op s x rec [12; a] =
       (s, setv x (nat_of a) HNone,
        frames_of no_env (fst l) (gdepth x =? 0)%nat K0
          (String.String (Ascii.Ascii true true true false true true true false)
             (String.String (Ascii.Ascii true false true false false true true false)
                (String.String (Ascii.Ascii true false false false false true true false)
                   (String.String (Ascii.Ascii true true false true false true true false)
                      (String.String (Ascii.Ascii false true true true false true false false)
                         (String.String (Ascii.Ascii false true false false true true true false)
                            (String.String (Ascii.Ascii true true false false true true true false)
                               (String.String (Ascii.Ascii false false false false false true false false)
                                  (String.String (Ascii.Ascii false false true false false false true false)
                                     (String.String (Ascii.Ascii false true false false true true true false)
                                        (String.String
                                           (Ascii.Ascii true true true true false true true false)
                                           (String.String
                                              (Ascii.Ascii false false false false true true true false)
                                              (String.String
                                                 (Ascii.Ascii false false false false false true false false)
                                                 (String.String
                                                    (Ascii.Ascii false true true false false true true false)
                                                    (String.String
                                                       (Ascii.Ascii true true true true false true true false)
                                                       (String.String
                                                          (Ascii.Ascii false true false false true true true
                                                             false)
                                                          (String.String
                                                             (Ascii.Ascii false false false false false true
                                                                false false)
                                                             (String.String
                                                                (Ascii.Ascii true true true false true false
                                                                   true false)
                                                                (String.String
                                                                   (Ascii.Ascii true false true false false
                                                                      true true false)
                                                                   (String.String
                                                                      (Ascii.Ascii true false false false
                                                                         false true true false)
                                                                      (String.String
                                                                         (Ascii.Ascii true true false true
                                                                            false true true false)
                                                                         (String.String
                                                                            (Ascii.Ascii false true false
                                                                               true true true false false)
                                                                            (String.String
                                                                               (Ascii.Ascii false true false
                                                                                true true true false false)
                                                                               (String.String
                                                                                (Ascii.Ascii false false true
                                                                                false false true true false)
                                                                                (String.String
                                                                                (Ascii.Ascii false true false
                                                                                false true true true false)
                                                                                (String.String
                                                                                (Ascii.Ascii true true true
                                                                                true false true true false)
                                                                                (String.String
                                                                                (Ascii.Ascii false false
                                                                                false false true true true
                                                                                false) String.EmptyString))))))))))))))))))))))))))),
        []).
Proof. exact ApiCallsP.api_drop_weak. Qed.
Print Assumptions ApiCalls_api_drop_weak.

Theorem ApiCalls_api_upgrade :
  forall (s : state) (x : thr) (rec : list Z) (a d : Z) (l : link),
       dst_free x [13; a; d] = true ->
       getv x (nat_of a) = HWeak l ->
       start_op s x rec [13; a; d] =
       (s, x,
        frames_of no_env (fst l) (gdepth x =? 0)%nat
          {| cdst := nat_of d; cok := HRc l; cfail := HNone; cign := false |}
          (String.String (Ascii.Ascii true true true false true true true false)
             (String.String (Ascii.Ascii true false true false false true true false)
                (String.String (Ascii.Ascii true false false false false true true false)
                   (String.String (Ascii.Ascii true true false true false true true false)
                      (String.String (Ascii.Ascii false true true true false true false false)
                         (String.String (Ascii.Ascii false true false false true true true false)
                            (String.String (Ascii.Ascii true true false false true true true false)
                               (String.String (Ascii.Ascii false false false false false true false false)
                                  (String.String (Ascii.Ascii true true true false true false true false)
                                     (String.String (Ascii.Ascii true false true false false true true false)
                                        (String.String
                                           (Ascii.Ascii true false false false false true true false)
                                           (String.String
                                              (Ascii.Ascii true true false true false true true false)
                                              (String.String
                                                 (Ascii.Ascii false true false true true true false false)
                                                 (String.String
                                                    (Ascii.Ascii false true false true true true false false)
                                                    (String.String
                                                       (Ascii.Ascii true false true false true true true
                                                          false)
                                                       (String.String
                                                          (Ascii.Ascii false false false false true true true
                                                             false)
                                                          (String.String
                                                             (Ascii.Ascii true true true false false true
                                                                true false)
                                                             (String.String
                                                                (Ascii.Ascii false true false false true true
                                                                   true false)
                                                                (String.String
                                                                   (Ascii.Ascii true false false false false
                                                                      true true false)
                                                                   (String.String
                                                                      (Ascii.Ascii false false true false
                                                                         false true true false)
                                                                      (String.String
                                                                         (Ascii.Ascii true false true false
                                                                            false true true false)
                                                                         String.EmptyString))))))))))))))))))))),
        []).
Proof. exact ApiCallsP.api_upgrade. Qed.
Print Assumptions ApiCalls_api_upgrade.

Theorem ApiCalls_api_snapshot_counted :
  forall (s : state) (x : thr) (rec : list Z) (a d : Z) (l : link) (n : nat),
       dst_free x [15; a; d] = true ->
       getv x (nat_of a) = HSnap l n ->
       start_op s x rec [15; a; d] =
       (s, x,
        frames_of no_env (fst l) (gdepth x =? 0)%nat (KSET (nat_of d) (HRc l))
          (String.String (Ascii.Ascii true true false false true true true false)
             (String.String (Ascii.Ascii false false true false true true true false)
                (String.String (Ascii.Ascii false true false false true true true false)
                   (String.String (Ascii.Ascii true true true true false true true false)
                      (String.String (Ascii.Ascii false true true true false true true false)
                         (String.String (Ascii.Ascii true true true false false true true false)
                            (String.String (Ascii.Ascii false true true true false true false false)
                               (String.String (Ascii.Ascii false true false false true true true false)
                                  (String.String (Ascii.Ascii true true false false true true true false)
                                     (String.String
                                        (Ascii.Ascii false false false false false true false false)
                                        (String.String
                                           (Ascii.Ascii true true false false true false true false)
                                           (String.String
                                              (Ascii.Ascii false true true true false true true false)
                                              (String.String
                                                 (Ascii.Ascii true false false false false true true false)
                                                 (String.String
                                                    (Ascii.Ascii false false false false true true true false)
                                                    (String.String
                                                       (Ascii.Ascii true true false false true true true
                                                          false)
                                                       (String.String
                                                          (Ascii.Ascii false false false true false true true
                                                             false)
                                                          (String.String
                                                             (Ascii.Ascii true true true true false true true
                                                                false)
                                                             (String.String
                                                                (Ascii.Ascii false false true false true true
                                                                   true false)
                                                                (String.String
                                                                   (Ascii.Ascii false true false true true
                                                                      true false false)
                                                                   (String.String
                                                                      (Ascii.Ascii false true false true true
                                                                         true false false)
                                                                      (String.String
                                                                         (Ascii.Ascii true true false false
                                                                            false true true false)
                                                                         (String.String
                                                                            (Ascii.Ascii true true true true
                                                                               false true true false)
                                                                            (String.String
                                                                               (Ascii.Ascii true false true
                                                                                false true true true false)
                                                                               (String.String
                                                                                (Ascii.Ascii false true true
                                                                                true false true true false)
                                                                                (String.String
                                                                                (Ascii.Ascii false false true
                                                                                false true true true false)
                                                                                (String.String
                                                                                (Ascii.Ascii true false true
                                                                                false false true true false)
                                                                                (String.String
                                                                                (Ascii.Ascii false false true
                                                                                false false true true false)
                                                                                String.EmptyString))))))))))))))))))))))))))),
        []).
Proof. exact ApiCallsP.api_snapshot_counted. Qed.
Print Assumptions ApiCalls_api_snapshot_counted.

Theorem ApiCalls_api_wsnapshot_counted :
  forall (s : state) (x : thr) (rec : list Z) (a d : Z) (l : link) (n : nat),
       dst_free x [17; a; d] = true ->
       getv x (nat_of a) = HWSnap l n ->
       start_op s x rec [17; a; d] =
       (s, x,
        frames_of no_env (fst l) (gdepth x =? 0)%nat (KSET (nat_of d) (HWeak l))
          (String.String (Ascii.Ascii true true true false true true true false)
             (String.String (Ascii.Ascii true false true false false true true false)
                (String.String (Ascii.Ascii true false false false false true true false)
                   (String.String (Ascii.Ascii true true false true false true true false)
                      (String.String (Ascii.Ascii false true true true false true false false)
                         (String.String (Ascii.Ascii false true false false true true true false)
                            (String.String (Ascii.Ascii true true false false true true true false)
                               (String.String (Ascii.Ascii false false false false false true false false)
                                  (String.String (Ascii.Ascii true true true false true false true false)
                                     (String.String (Ascii.Ascii true false true false false true true false)
                                        (String.String
                                           (Ascii.Ascii true false false false false true true false)
                                           (String.String
                                              (Ascii.Ascii true true false true false true true false)
                                              (String.String
                                                 (Ascii.Ascii true true false false true false true false)
                                                 (String.String
                                                    (Ascii.Ascii false true true true false true true false)
                                                    (String.String
                                                       (Ascii.Ascii true false false false false true true
                                                          false)
                                                       (String.String
                                                          (Ascii.Ascii false false false false true true true
                                                             false)
                                                          (String.String
                                                             (Ascii.Ascii true true false false true true
                                                                true false)
                                                             (String.String
                                                                (Ascii.Ascii false false false true false
                                                                   true true false)
                                                                (String.String
                                                                   (Ascii.Ascii true true true true false
                                                                      true true false)
                                                                   (String.String
                                                                      (Ascii.Ascii false false true false
                                                                         true true true false)
                                                                      (String.String
                                                                         (Ascii.Ascii false true false true
                                                                            true true false false)
                                                                         (String.String
                                                                            (Ascii.Ascii false true false
                                                                               true true true false false)
                                                                            (String.String
                                                                               (Ascii.Ascii true true false
                                                                                false false true true false)
                                                                               (String.String
                                                                                (Ascii.Ascii true true true
                                                                                true false true true false)
                                                                                (String.String
                                                                                (Ascii.Ascii true false true
                                                                                false true true true false)
                                                                                (String.String
                                                                                (Ascii.Ascii false true true
                                                                                true false true true false)
                                                                                (String.String
                                                                                (Ascii.Ascii false false true
                                                                                false true true true false)
                                                                                (String.String
                                                                                (Ascii.Ascii true false true
                                                                                false false true true false)
                                                                                (String.String
                                                                                (Ascii.Ascii false false true
                                                                                false false true true false)
                                                                                String.EmptyString))))))))))))))))))))))))))))),
        []).
Proof. exact ApiCallsP.api_wsnapshot_counted. Qed.
Print Assumptions ApiCalls_api_wsnapshot_counted.

Theorem ApiCalls_api_iter_drop :
  forall (s : state) (x : thr) (rec : list Z) (i : Z) (o : nat) (rem : Z),
       dst_free x [5; i] = true ->
       getv x (nat_of i) = HIter o rem ->
       (0 <? rem) = true ->
       start_op s x rec [5; i] =
       (s, setv x (nat_of i) HNone,
        frames_of (fun _ : String.string => rem) o (gdepth x =? 0)%nat K0
          (String.String (Ascii.Ascii true true false false true true true false)
             (String.String (Ascii.Ascii false false true false true true true false)
                (String.String (Ascii.Ascii false true false false true true true false)
                   (String.String (Ascii.Ascii true true true true false true true false)
                      (String.String (Ascii.Ascii false true true true false true true false)
                         (String.String (Ascii.Ascii true true true false false true true false)
                            (String.String (Ascii.Ascii false true true true false true false false)
                               (String.String (Ascii.Ascii false true false false true true true false)
                                  (String.String (Ascii.Ascii true true false false true true true false)
                                     (String.String
                                        (Ascii.Ascii false false false false false true false false)
                                        (String.String
                                           (Ascii.Ascii false false true false false false true false)
                                           (String.String
                                              (Ascii.Ascii false true false false true true true false)
                                              (String.String
                                                 (Ascii.Ascii true true true true false true true false)
                                                 (String.String
                                                    (Ascii.Ascii false false false false true true true false)
                                                    (String.String
                                                       (Ascii.Ascii false false false false false true false
                                                          false)
                                                       (String.String
                                                          (Ascii.Ascii false true true false false true true
                                                             false)
                                                          (String.String
                                                             (Ascii.Ascii true true true true false true true
                                                                false)
                                                             (String.String
                                                                (Ascii.Ascii false true false false true true
                                                                   true false)
                                                                (String.String
                                                                   (Ascii.Ascii false false false false false
                                                                      true false false)
                                                                   (String.String
                                                                      (Ascii.Ascii false true true true false
                                                                         false true false)
                                                                      (String.String
                                                                         (Ascii.Ascii true false true false
                                                                            false true true false)
                                                                         (String.String
                                                                            (Ascii.Ascii true true true false
                                                                               true true true false)
                                                                            (String.String
                                                                               (Ascii.Ascii false true false
                                                                                false true false true false)
                                                                               (String.String
                                                                                (Ascii.Ascii true true false
                                                                                false false true true false)
                                                                                (String.String
                                                                                (Ascii.Ascii true false false
                                                                                true false false true false)
                                                                                (String.String
                                                                                (Ascii.Ascii false false true
                                                                                false true true true false)
                                                                                (String.String
                                                                                (Ascii.Ascii true false true
                                                                                false false true true false)
                                                                                (String.String
                                                                                (Ascii.Ascii false true false
                                                                                false true true true false)
                                                                                (String.String
                                                                                (Ascii.Ascii false true false
                                                                                true true true false false)
                                                                                (String.String
                                                                                (Ascii.Ascii false true false
                                                                                true true true false false)
                                                                                (String.String
                                                                                (Ascii.Ascii false false true
                                                                                false false true true false)
                                                                                (String.String
                                                                                (Ascii.Ascii false true false
                                                                                false true true true false)
                                                                                (String.String
                                                                                (Ascii.Ascii true true true
                                                                                true false true true false)
                                                                                (String.String
                                                                                (Ascii.Ascii false false
                                                                                false false true true true
                                                                                false) String.EmptyString)))))))))))))))))))))))))))))))))),
        []).
Proof. exact ApiCallsP.api_iter_drop. Qed.
Print Assumptions ApiCalls_api_iter_drop.

Theorem ApiCalls_api_iter_abort :
  forall (s : state) (x : thr) (rec : list Z) (i : Z) (o : nat) (rem : Z),
       dst_free x [4; i] = true ->
       getv x (nat_of i) = HIter o rem ->
       (0 <? rem) = true ->
       start_op s x rec [4; i] =
       (s, setv x (nat_of i) HNone,
        frames_of (fun _ : String.string => rem) o (gdepth x =? 0)%nat K0
          (String.String (Ascii.Ascii true true false false true true true false)
             (String.String (Ascii.Ascii false false true false true true true false)
                (String.String (Ascii.Ascii false true false false true true true false)
                   (String.String (Ascii.Ascii true true true true false true true false)
                      (String.String (Ascii.Ascii false true true true false true true false)
                         (String.String (Ascii.Ascii true true true false false true true false)
                            (String.String (Ascii.Ascii false true true true false true false false)
                               (String.String (Ascii.Ascii false true false false true true true false)
                                  (String.String (Ascii.Ascii true true false false true true true false)
                                     (String.String
                                        (Ascii.Ascii false false false false false true false false)
                                        (String.String
                                           (Ascii.Ascii false true true true false false true false)
                                           (String.String
                                              (Ascii.Ascii true false true false false true true false)
                                              (String.String
                                                 (Ascii.Ascii true true true false true true true false)
                                                 (String.String
                                                    (Ascii.Ascii false true false false true false true false)
                                                    (String.String
                                                       (Ascii.Ascii true true false false false true true
                                                          false)
                                                       (String.String
                                                          (Ascii.Ascii true false false true false false true
                                                             false)
                                                          (String.String
                                                             (Ascii.Ascii false false true false true true
                                                                true false)
                                                             (String.String
                                                                (Ascii.Ascii true false true false false true
                                                                   true false)
                                                                (String.String
                                                                   (Ascii.Ascii false true false false true
                                                                      true true false)
                                                                   (String.String
                                                                      (Ascii.Ascii false true false true true
                                                                         true false false)
                                                                      (String.String
                                                                         (Ascii.Ascii false true false true
                                                                            true true false false)
                                                                         (String.String
                                                                            (Ascii.Ascii true false false
                                                                               false false true true false)
                                                                            (String.String
                                                                               (Ascii.Ascii false true false
                                                                                false false true true false)
                                                                               (String.String
                                                                                (Ascii.Ascii true true true
                                                                                true false true true false)
                                                                                (String.String
                                                                                (Ascii.Ascii false true false
                                                                                false true true true false)
                                                                                (String.String
                                                                                (Ascii.Ascii false false true
                                                                                false true true true false)
                                                                                String.EmptyString)))))))))))))))))))))))))),
        []).
Proof. exact ApiCallsP.api_iter_abort. Qed.
Print Assumptions ApiCalls_api_iter_abort.

