(* C12 -- Count-word fields are independent; the modular epoch test only errs to "too recent".
   Pinned statements only; proofs are in StateP.v / ModularP.v about the GENERATED definitions of
   Gen/StateW.v, Gen/ModularW.v, Gen/DisposeW.v. *)
From Coq Require Import ZArith Bool List.
Import ListNotations.
Require Import Params StateW ModularW DisposeW StateP ModularP.
Local Open Scope Z_scope.

(* (a) the accessors are exactly the five fields of a 64-bit word *)
Theorem C12_accessors : forall w, word w ->
  strong w = f_strong w /\ weak w = f_weak w /\ weaked w = (f_weaked w =? 1) /\
  destructed w = (f_destructed w =? 1) /\ epoch w = f_epoch w /\
  w = f_strong w + 2 ^ 29 * f_weak w + 2 ^ 58 * f_weaked w + 2 ^ 59 * f_destructed w + 2 ^ 60 * f_epoch w.
Proof.
  intros w Hw. repeat split;
  [apply strong_spec | apply weak_spec | apply weaked_spec | apply destructed_spec | apply epoch_spec | apply word_decompose]; exact Hw.
Qed.
Print Assumptions C12_accessors.

(* (a) every updater changes its own field as intended and no other, for in-range values *)
Theorem C12_add_strong : forall w v, word w -> 0 <= v -> f_strong w + v < 2 ^ 29 ->
  same_except w (add_strong w v) true false false false false /\ f_strong (add_strong w v) = f_strong w + v.
Proof. exact add_strong_indep. Qed.
Print Assumptions C12_add_strong.
Theorem C12_sub_strong : forall w v, word w -> 0 <= v <= f_strong w ->
  same_except w (sub_strong w v) true false false false false /\ f_strong (sub_strong w v) = f_strong w - v.
Proof. exact sub_strong_indep. Qed.
Print Assumptions C12_sub_strong.
Theorem C12_add_weak : forall w v, word w -> 0 <= v -> f_weak w + v < 2 ^ 29 ->
  same_except w (add_weak w v) false true false false false /\ f_weak (add_weak w v) = f_weak w + v.
Proof. exact add_weak_indep. Qed.
Print Assumptions C12_add_weak.
Theorem C12_with_epoch : forall w e, word w -> 0 <= e ->
  same_except w (with_epoch w e) false false false false true /\ f_epoch (with_epoch w e) = e mod 16.
Proof. exact with_epoch_indep. Qed.
Print Assumptions C12_with_epoch.
Theorem C12_with_destructed : forall w b, word w ->
  same_except w (with_destructed w b) false false false true false /\ f_destructed (with_destructed w b) = Z.b2z b.
Proof. exact with_destructed_indep. Qed.
Print Assumptions C12_with_destructed.
Theorem C12_with_weaked : forall w b, word w ->
  same_except w (with_weaked w b) false false true false false /\ f_weaked (with_weaked w b) = Z.b2z b.
Proof. exact with_weaked_indep. Qed.
Print Assumptions C12_with_weaked.
Theorem C12_fetch_add_count : forall w v, word w -> 0 <= v -> f_strong w + v < 2 ^ 29 ->
  same_except w (wrap 64 (w + v * COUNT)) true false false false false /\ f_strong (wrap 64 (w + v * COUNT)) = f_strong w + v.
Proof. exact fetch_add_count_indep. Qed.
Print Assumptions C12_fetch_add_count.
Theorem C12_fetch_add_weak : forall w v, word w -> 0 <= v -> f_weak w + v < 2 ^ 29 ->
  same_except w (wrap 64 (w + v * WEAK_COUNT)) false true false false false /\ f_weak (wrap 64 (w + v * WEAK_COUNT)) = f_weak w + v.
Proof. exact fetch_add_weak_indep. Qed.
Print Assumptions C12_fetch_add_weak.
Theorem C12_fetch_sub_weak : forall w, word w -> 1 <= f_weak w ->
  same_except w (wrap 64 (w - WEAK_COUNT)) false true false false false /\ f_weak (wrap 64 (w - WEAK_COUNT)) = f_weak w - 1.
Proof. exact fetch_sub_weak_indep. Qed.
Print Assumptions C12_fetch_sub_weak.
Theorem C12_alloc : forall n, 0 <= n < 2 ^ 29 ->
  word (alloc_word n) /\ f_strong (alloc_word n) = n /\ f_weak (alloc_word n) = 1 /\
  f_weaked (alloc_word n) = 0 /\ f_destructed (alloc_word n) = 0 /\ f_epoch (alloc_word n) = 0.
Proof. exact alloc_word_fields. Qed.
Print Assumptions C12_alloc.

(* (b) soundness for EVERY true age >= -2 (stamps up to two epochs ahead), including ages beyond one
       wrap: "old enough" is never answered below the threshold *)
Theorem C12_reclaim_sound : forall c s, epoch_ok c -> 0 <= s <= c + 2 ->
  reclaim_now c (s mod 16) = true -> RECLAIM_AGE <= c - s.
Proof. exact reclaim_sound. Qed.
Print Assumptions C12_reclaim_sound.

(* (b) completeness on the unambiguous window *)
Theorem C12_reclaim_complete : forall c s, epoch_ok c -> 0 <= s ->
  RECLAIM_AGE <= c - s <= 2 ^ EPOCH_WIDTH - 3 -> reclaim_now c (s mod 16) = true.
Proof. exact reclaim_complete. Qed.
Print Assumptions C12_reclaim_complete.

(* (b) the threshold of the generated test, read through decode (the window [c-13, c+2]) *)
Theorem C12_reclaim_threshold : forall c a, epoch_ok c -> 0 <= a < 16 -> a <= c + 2 ->
  reclaim_now c a = (decode c a <=? c - RECLAIM_AGE).
Proof. exact reclaim_now_threshold. Qed.
Print Assumptions C12_reclaim_threshold.

(* (b) the stamp written into a child: never older than the most recent of the three, exact in the window *)
Theorem C12_merged : forall c s1 s2 s3, epoch_ok c ->
  0 <= s1 <= c + 2 -> 0 <= s2 <= c + 2 -> 0 <= s3 <= c + 2 ->
  let m := merged c (s1 mod 16) (s2 mod 16) (s3 mod 16) mod 16 in
  Z.max s1 (Z.max s2 s3) <= decode c m /\
  (c - 13 <= s1 -> c - 13 <= s2 -> c - 13 <= s3 -> m = Z.max s1 (Z.max s2 s3) mod 16).
Proof. exact merged_true_stamps. Qed.
Print Assumptions C12_merged.

Theorem C12_merged_decode : forall c a1 a2 a3, epoch_ok c ->
  0 <= a1 < 16 -> 0 <= a2 < 16 -> 0 <= a3 < 16 -> a1 <= c + 2 -> a2 <= c + 2 -> a3 <= c + 2 ->
  decode c (merged c a1 a2 a3 mod 16) = Z.max (decode c a1) (Z.max (decode c a2) (decode c a3)).
Proof. exact merged_decode. Qed.
Print Assumptions C12_merged_decode.

(* side conditions on the generated constants used by higher layers *)
Theorem C12_layout :
  EPOCH_WIDTH = 4 /\ EPOCH_MASK_HEIGHT = 60 /\ STRONG_WIDTH = 29 /\ WEAK_WIDTH = 29 /\
  STRONG_WIDTH + WEAK_WIDTH + 2 + EPOCH_WIDTH = 64 /\ EPOCH_WIDTH = HIGH_TAG_WIDTH.
Proof. exact layout_widths. Qed.
Print Assumptions C12_layout.

(* "old enough" = at least the collector's own grace period (generated from ebr_impl/internal.rs) *)
Theorem C12_threshold_covers_grace : EXPIRE_AFTER <= RECLAIM_AGE.
Proof. exact threshold_covers_grace. Qed.
Print Assumptions C12_threshold_covers_grace.

(* ---- finding D13: the stamp the cascade writes is the maximum clamped one epoch ahead; it never decodes
   two epochs ahead (a residue there is the alias of a 14-epoch-old stamp and reads as ancient one epoch earlier) *)
Theorem C12_child_stamp_not_ahead :
  forall c a1 a2 a3 : Z,
       epoch_ok c ->
       STAMP_CLAMPED = true ->
       14 <= c ->
       0 <= a1 < 16 ->
       0 <= a2 < 16 ->
       0 <= a3 < 16 ->
       decode c (child_stamp c a1 a2 a3 mod 16) <= c + 1 /\
       decode c (child_stamp c a1 a2 a3 mod 16) =
       Z.min (c + 1) (Z.max (decode c a1) (Z.max (decode c a2) (decode c a3))).
Proof. exact ModularP.child_stamp_not_ahead. Qed.
Print Assumptions C12_child_stamp_not_ahead.

Theorem C12_stamp_clamped_now :
  STAMP_CLAMPED = true.
Proof. exact ModularP.stamp_clamped_now. Qed.
Print Assumptions C12_stamp_clamped_now.

