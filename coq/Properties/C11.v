(* C11 -- Tagging never corrupts the address; internal epoch bits are invisible to users.
   This file contains only the pinned statements; each is closed by `exact` of a lemma proved in
   TaggedP.v about the GENERATED definitions of Gen/TaggedW.v, followed by Print Assumptions. *)
From Coq Require Import ZArith Bool.
Require Import Params TaggedW TaggedP.
Local Open Scope Z_scope.

(* p = with_high_tag (with_tag a tag) ts  for an aligned address a below the reserved high bits *)
Theorem C11_accessors : forall k a tag ts, align_ok k -> addr_ok k a -> 0 <= ts ->
  t_tag k (mk k a tag ts) = tag mod 2 ^ k /\ t_as_raw k (mk k a tag ts) = a /\
  t_high_tag k (mk k a tag ts) = ts mod 16 /\ t_is_null k (mk k a tag ts) = (a =? 0).
Proof. exact TaggedP.C11_accessors. Qed.
Print Assumptions C11_accessors.

Theorem C11_with_tag : forall k a tag ts tag', align_ok k -> addr_ok k a -> 0 <= ts ->
  let p := mk k a tag ts in
  t_tag k (t_with_tag k p tag') = tag' mod 2 ^ k /\
  t_as_raw k (t_with_tag k p tag') = a /\
  t_high_tag k (t_with_tag k p tag') = ts mod 16.
Proof. exact TaggedP.C11_with_tag. Qed.
Print Assumptions C11_with_tag.

Theorem C11_with_high_tag : forall k a tag ts ts', align_ok k -> addr_ok k a -> 0 <= ts -> 0 <= ts' ->
  let p := mk k a tag ts in
  t_tag k (t_with_high_tag k p ts') = tag mod 2 ^ k /\
  t_as_raw k (t_with_high_tag k p ts') = a /\
  t_high_tag k (t_with_high_tag k p ts') = ts' mod 16 /\
  t_ptr_eq k p (t_with_high_tag k p ts') = true /\
  t_is_null k (t_with_high_tag k p ts') = t_is_null k p.
Proof. exact TaggedP.C11_with_high_tag. Qed.
Print Assumptions C11_with_high_tag.

Theorem C11_ptr_eq_iff : forall k a tag ts a' tag' ts',
  align_ok k -> addr_ok k a -> addr_ok k a' -> 0 <= ts -> 0 <= ts' ->
  t_ptr_eq k (mk k a tag ts) (mk k a' tag' ts') = true <-> (a = a' /\ tag mod 2 ^ k = tag' mod 2 ^ k).
Proof. exact TaggedP.C11_ptr_eq_iff. Qed.
Print Assumptions C11_ptr_eq_iff.

Theorem C11_null : forall k tag ts, align_ok k -> 0 <= ts -> t_is_null k (mk k 0 tag ts) = true.
Proof. exact TaggedP.C11_null. Qed.
Print Assumptions C11_null.

(* Pointer::fmt prints as_raw(): the address, whatever the tag and timestamp *)
Theorem C11_fmt : forall k a tag ts, align_ok k -> addr_ok k a -> 0 <= ts -> t_as_raw k (mk k a tag ts) = a.
Proof. exact TaggedP.as_raw_is_addr. Qed.
Print Assumptions C11_fmt.

(* the side condition tying the two layers: the timestamp field is as wide as the count word's epoch *)
Theorem C11_width : HIGH_TAG_WIDTH = 4.
Proof. exact TaggedP.HIGH_TAG_WIDTH_is. Qed.
Print Assumptions C11_width.
