(* C10 -- pinned statements only; the statement text below is the definition of RcSpec.v written out (the proof is
   `exact`, so it is checked to be convertible with it); proofs in RcP.v (strong side) and RcWeakP.v (weak side) *)
From Coq Require Import ZArith List Bool Lia Arith.
Import ListNotations.
Require Import Params StateW DisposeW Rc RcSpec RcP RcWeakP.
Local Open Scope Z_scope.

Theorem C10_count_equals_owners :
  forall s0 sched, fresh_start s0 -> bounded_run s0 sched -> live_counted s0 sched ->
  let s := mrun s0 sched in
  forall o ob, geto s o = Some ob -> destructed (word ob) = false ->
    strong (word ob) = owners s o + b2z (tok ob) /\ (owners s o = 0 -> tok ob = false -> attempts s o = 1).
Proof. exact RcWeakP.C10. Qed.
Print Assumptions C10_count_equals_owners.

