(* C10 -- pinned statements only (generated once by tools/pin.py from `Check`, then fixed); proofs in RcP.v *)
From Coq Require Import ZArith List Bool Lia Arith.
Import ListNotations.
Require Import Params StateW DisposeW Rc RcSpec RcP.
Local Open Scope Z_scope.

Theorem C10_tde :
  forall (s0 : state) (sched : list (nat * list Z)),
       run_hyps s0 sched ->
       let s := mrun s0 sched in
       forall (o : nat) (ob : obj),
       geto s o = Some ob ->
       destructed (word ob) = false ->
       strong (word ob) = owners s o + b2z (tok ob) /\ (owners s o = 0 -> tok ob = false -> attempts s o = 1).
Proof. exact RcP.C10_tde. Qed.
Print Assumptions C10_tde.

