(* C10 -- pinned statements only; the statement text below is the definition of RcSpec.v written out (the proof is
   `exact`, so it is checked to be convertible with it); proofs in RcP.v (strong side) and RcWeakP.v (weak side) *)
From Coq Require Import ZArith List Bool Lia Arith.
Import ListNotations.
Require Import RcPinnedP RcWeakCountP Params StateW DisposeW ModularW RcSnapCheck RcSnapP RcSnapInvP RcWSnapInvP Rc RcSpec RcP RcWeakP.
Local Open Scope Z_scope.

Theorem C10_count_equals_owners :
  forall s0 sched, fresh_start s0 -> bounded_run s0 sched -> live_counted s0 sched ->
  let s := mrun s0 sched in
  forall o ob, geto s o = Some ob -> destructed (word ob) = false ->
    strong (word ob) = owners s o + b2z (tok ob) /\ (owners s o = 0 -> tok ob = false -> attempts s o = 1).
Proof. exact RcWeakP.C10. Qed.
Print Assumptions C10_count_equals_owners.


(* ---- FINAL FORM (RcWSnapInvP.v): the same statements under run_ok only - fresh start, well-formed programs
   (cellops_ok, bounded_run) and the run hypotheses H2 pinned / H3 scoped, wscoped / epoch < 2^62; the former hypothesis
   live_counted (scounted_ok, wcounted_ok = finding F5, wlive_ok) is now a THEOREM (C02_count_hypotheses_discharged) *)
Theorem C10_final :
  forall (s0 : state) (sched : list (nat * list Z)),
       run_ok s0 sched ->
       let s := mrun s0 sched in
       forall (o : nat) (ob : obj),
       geto s o = Some ob ->
       destructed (word ob) = false ->
       strong (word ob) = owners s o + b2z (tok ob) /\ (owners s o = 0 -> tok ob = false -> attempts s o = 1).
Proof. exact RcWSnapInvP.C10_final. Qed.
Print Assumptions C10_final.

(* ---- the weak half (weak_many): weak field = weak owners + token + the strong side's share (RcWeakCountP.v) *)
Theorem C10_weak_count_equals_owners :
  forall (s0 : state) (sched : list (nat * list Z)),
       run_ok s0 sched ->
       let s := mrun s0 sched in
       forall (o : nat) (ob : obj),
       geto s o = Some ob ->
       freed ob = false ->
       weak (word ob) = wowners s o + b2z (wtok ob) + (b2z (negb (dropped ob)) + gfr s o) /\
       0 <= gfr s o /\ (weaked (word ob) = false -> weak (word ob) = 1).
Proof. exact RcWeakCountP.C10_weak_count_equals_owners. Qed.
Print Assumptions C10_weak_count_equals_owners.

(* ---- H2 only where the model lacks the pin (RcPinnedP.v): the run hypothesis `pinned` (epochs carried by frames are within one
   of the global epoch) is DERIVED for every thread that is inside a critical section - the epoch was read after the pin and the
   section holds the clock - and remains an assumption (`pinned_out`, run_ok') only for threads outside one: deferred functions
   run by an unpinned collector and guard-less operations, where the real code pins internally and the model does not *)
Theorem C10_final_H2_outside_sections_only :
  forall (s0 : state) (sched : list (nat * list Z)),
       run_ok' s0 sched ->
       let s := RcDepthP.mrun s0 sched in
       forall (o : nat) (ob : obj),
       geto s o = Some ob ->
       destructed (word ob) = false ->
       strong (word ob) = owners s o + b2z (tok ob) /\ (owners s o = 0 -> tok ob = false -> attempts s o = 1).
Proof. exact RcPinnedP.C10_final'. Qed.
Print Assumptions C10_final_H2_outside_sections_only.
