(* GuardCalls -- pinned statements only (generated once by tools/pin.py from `Check`, then fixed); proofs in GuardCallsP.v *)
From Coq Require Import ZArith List Bool Lia Arith.
Import ListNotations.
Require Import Params GuardCallsW GuardSeq GuardCallsP.
Local Open Scope Z_scope.

Theorem GuardCalls_repin_is_generated :
  forall (u : state -> res state) (s : state), run_calls u G_repin s = repin_with u s.
Proof. exact GuardCallsP.repin_is_generated. Qed.
Print Assumptions GuardCalls_repin_is_generated.

Theorem GuardCalls_reactivate_after_is_generated :
  forall (u : state -> res state) (s : state) (p : bool),
       run_calls u G_reactivate_after s = reactivate_after_with u s p.
Proof. exact GuardCallsP.reactivate_after_is_generated. Qed.
Print Assumptions GuardCalls_reactivate_after_is_generated.

Theorem GuardCalls_flush_is_generated :
  forall (u : state -> res state) (s : state), run_calls u G_flush s = Ok (flush s).
Proof. exact GuardCallsP.flush_is_generated. Qed.
Print Assumptions GuardCalls_flush_is_generated.

Theorem GuardCalls_finalize_is_generated :
  forall (u : state -> res state) (s : state), run_calls u G_finalize s = finalize_with u s.
Proof. exact GuardCallsP.finalize_is_generated. Qed.
Print Assumptions GuardCalls_finalize_is_generated.

