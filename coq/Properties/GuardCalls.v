(* GuardCalls -- pinned statements only (generated once by tools/pin.py from `Check`, then fixed); proofs in GuardCallsP.v *)
From Coq Require Import ZArith List Bool Lia Arith.
Import ListNotations.
Require Import Params GuardCallsW EbrProtoW GuardSeq GuardCallsP.
Local Open Scope Z_scope.

Theorem GuardCalls_repin_is_generated :
  forall (u : state -> res state) (s : state), run_calls u G_repin s = repin_with u s.
Proof. exact GuardCallsP.repin_is_generated. Qed.
Print Assumptions GuardCalls_repin_is_generated.

Theorem GuardCalls_reactivate_after_is_generated :
  forall (u : state -> res state) (s : state) (p : bool),
       run_calls u G_reactivate_after s = reactivate_after_with u s p.
Proof. exact GuardCallsP.reactivate_after_is_generated. Qed.
Print Assumptions GuardCalls_reactivate_after_is_generated.

Theorem GuardCalls_flush_is_generated :
  forall (u : state -> res state) (s : state), run_calls u G_flush s = Ok (flush s).
Proof. exact GuardCallsP.flush_is_generated. Qed.
Print Assumptions GuardCalls_flush_is_generated.

Theorem GuardCalls_finalize_is_generated :
  forall (u : state -> res state) (s : state), run_calls u G_finalize s = finalize_with u s.
Proof. exact GuardCallsP.finalize_is_generated. Qed.
Print Assumptions GuardCalls_finalize_is_generated.

Theorem GuardCalls_pin_decision :
  forall s : state,
       pin s =
       (if MAXC <=? gc s
        then Err E_OVERFLOW
        else
         let s1 := set_gc (gc s + 1) s in
         if nbg (E_pin_conds (gc s) 0 0 0) 0
         then
          let s2 := set_ann (G s) (set_pinned true s1) in
          Ok (if prev s =? G s then s2 else set_advc 0 (set_prev (G s) s2))
         else Ok s1).
Proof. exact GuardCallsP.pin_decision. Qed.
Print Assumptions GuardCalls_pin_decision.

Theorem GuardCalls_schedule_collection_decision :
  forall s : state,
       schedule_collection s =
       (let s1 := set_must_collect true s in
        if nbg (E_sched_conds (collecting s1) (gc s1)) 0 then repin_without_collect s1 else s1).
Proof. exact GuardCallsP.schedule_collection_decision. Qed.
Print Assumptions GuardCalls_schedule_collection_decision.

Theorem GuardCalls_release_handle_decision :
  forall (u : state -> res state) (s : state),
       release_handle_with u s =
       (let s1 := set_hc (hc s - 1) s in
        if nbg (E_relh_conds (gc s) (hc s)) 0 then finalize_with u s1 else Ok s1).
Proof. exact GuardCallsP.release_handle_decision. Qed.
Print Assumptions GuardCalls_release_handle_decision.

Theorem GuardCalls_unpin_decisions :
  forall (ur : state -> res state) (fuel : nat) (s : state) (mc : bool),
       unpin_lvl ur fuel s =
       (let g0 := gc s in
        bind
          (if nbg (E_unpin_conds g0 (collecting s) mc 0) 0
           then
            bind (coll_loop ur fuel (set_collecting true s)) (fun s' : state => Ok (set_collecting false s'))
           else Ok s)
          (fun s1 : state =>
           let s2 := set_gc (g0 - 1) s1 in
           if nbg (E_unpin_conds g0 false mc 0) 2
           then
            let s3 := set_unpins (unpins s2 + 1) (set_ann 0 (set_pinned false s2)) in
            if nbg (E_unpin_conds g0 false mc (hc s3)) 3 then finalize_with ur s3 else Ok s3
           else Ok s2)).
Proof. exact GuardCallsP.unpin_decisions. Qed.
Print Assumptions GuardCalls_unpin_decisions.

