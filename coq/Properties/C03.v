(* C03 -- pinned statements only; the statement text below is the definition of RcSpec.v written out (the proof is
   `exact`, so it is checked to be convertible with it); proofs in RcP.v (strong side) and RcWeakP.v (weak side) *)
From Coq Require Import ZArith List Bool Lia Arith.
Import ListNotations.
Require Import RcPinnedP Params StateW DisposeW ModularW StateP ModularP RcDepthP RcEpochP RcStampP RcSnapCheck RcSnapP RcSnapInvP RcWSnapInvP Rc RcSpec RcP RcWeakP RcRunOkEx.
Local Open Scope Z_scope.

(* the WeakSnapshot half of the property (RcSpec.C03_wsnap_statement) is stated in RcSpec.v and NOT proved *)

Theorem C03_weak_owner_keeps_block :
  forall s0 sched, fresh_start s0 -> bounded_run s0 sched -> live_counted s0 sched ->
  let s := mrun s0 sched in
  forall o ob, geto s o = Some ob -> 0 < wowners s o -> freed ob = false.
Proof. exact RcWeakP.C03. Qed.
Print Assumptions C03_weak_owner_keeps_block.

Theorem C03_weak_invariant_initial :
  forall s : state, fresh_start s -> Winv s.
Proof. exact RcWeakP.Winv_fresh. Qed.
Print Assumptions C03_weak_invariant_initial.

Theorem C03_weak_invariant_preserved :
  forall (s : state) (t : nat) (rec : list Z) (s' : state) (o : list Z),
       Winv s -> Inv' s -> counted_ok s -> bounded s -> bounded s' -> micro s t rec = Some (s', o) -> Winv s'.
Proof. exact RcWeakP.wmicro_inv. Qed.
Print Assumptions C03_weak_invariant_preserved.

Theorem C03_dealloc_only_after_drop :
  forall s : state, Winv s -> tde_ok s.
Proof. exact RcWeakP.Winv_tde. Qed.
Print Assumptions C03_dealloc_only_after_drop.

Theorem C03_hypotheses_satisfiable :
  fresh_start ex_s0 /\ bounded_run ex_s0 (ex_sched 40 30) /\ live_counted ex_s0 (ex_sched 40 30).
Proof. exact RcWeakP.ex_C03_hyps. Qed.
Print Assumptions C03_hypotheses_satisfiable.

Theorem C03_example_state :
  let s := mrun ex_s0 (ex_sched 40 30) in
       (wowners s 1 =? 1) &&
       match geto s 1 with
       | Some ob => (weak (word ob) =? 2) && negb (freed ob)
       | None => false
       end = true.
Proof. exact RcWeakP.ex_C03_state. Qed.
Print Assumptions C03_example_state.


(* ---- FINAL FORM (RcWSnapInvP.v): the same statements under run_ok only - fresh start, well-formed programs
   (cellops_ok, bounded_run) and the run hypotheses H2 pinned / H3 scoped, wscoped / epoch < 2^62; the former hypothesis
   live_counted (scounted_ok, wcounted_ok = finding F5, wlive_ok) is now a THEOREM (C02_count_hypotheses_discharged) *)
Theorem C03_final :
  forall (s0 : state) (sched : list (nat * list Z)),
       run_ok s0 sched ->
       let s := mrun s0 sched in
       forall (o : nat) (ob : obj), geto s o = Some ob -> 0 < wowners s o -> freed ob = false.
Proof. exact RcWSnapInvP.C03_final. Qed.
Print Assumptions C03_final.

Theorem C03_weak_snapshot_keeps_block :
  C03_wsnap_statement'.
Proof. exact RcWSnapInvP.C03_wsnap. Qed.
Print Assumptions C03_weak_snapshot_keeps_block.

Theorem C03_weak_step :
  forall (s : state) (t : nat) (rec : list Z) (s' : state) (obs : list Z),
       Inv' s -> EOK s -> bounded s -> bounded s' -> micro s t rec = Some (s', obs) -> WStep s s'.
Proof. exact RcWSnapInvP.micro_wstep. Qed.
Print Assumptions C03_weak_step.

Theorem C03_weak_protection_stable :
  forall (s : state) (t : nat) (rec : list Z) (s' : state) (obs : list Z),
       Inv' s ->
       Inv' s' ->
       Winv s ->
       EOK s -> bounded s -> bounded s' -> stable s s' -> micro s t rec = Some (s', obs) -> wstable s s'.
Proof. exact RcWSnapInvP.micro_wstable. Qed.
Print Assumptions C03_weak_protection_stable.

(* ---- run_ok is satisfiable, on a run that holds a WeakSnapshot inside its section (conclusion of the WeakSnapshot half) and
   then turns it into a Weak after the count was zero (RcRunOkEx.v) *)
Theorem C03_final_hypotheses_satisfiable :
  run_ok ex2_s0 ex3_sched.
Proof. exact RcRunOkEx.ex3_run_ok. Qed.
Print Assumptions C03_final_hypotheses_satisfiable.

Theorem C03_final_example_conclusion :
  wsnap_valid (RcDepthP.mrun ex2_s0 ex2_sched).
Proof. exact RcRunOkEx.ex2_wsnap_valid. Qed.
Print Assumptions C03_final_example_conclusion.

Theorem C03_final_example_state :
  let s := RcDepthP.mrun ex2_s0 ex3_sched in
       match gett s 1 with
       | Some x =>
           match geto s 1 with
           | Some ob =>
               negb (incs x) && obj_live s 1 && (owners s 1 =? 1) && (wowners s 1 =? 1) &&
               (strong (word ob) =? 2) && tok ob && (weak (word ob) =? 2) && (err s =? 0)
           | None => false
           end
       | None => false
       end = true.
Proof. exact RcRunOkEx.ex3_state. Qed.
Print Assumptions C03_final_example_state.

(* ---- H2 only where the model lacks the pin (RcPinnedP.v): the run hypothesis `pinned` (epochs carried by frames are within one
   of the global epoch) is DERIVED for every thread that is inside a critical section - the epoch was read after the pin and the
   section holds the clock - and remains an assumption (`pinned_out`, run_ok') only for threads outside one: deferred functions
   run by an unpinned collector and guard-less operations, where the real code pins internally and the model does not *)
Theorem C03_wsnap_H2_outside_sections_only :
  forall (s0 : state) (sched : list (nat * list Z)),
       run_ok' s0 sched -> wsnap_valid (RcDepthP.mrun s0 sched).
Proof. exact RcPinnedP.C03_wsnap'. Qed.
Print Assumptions C03_wsnap_H2_outside_sections_only.

Theorem C03_final_H2_outside_sections_only :
  forall (s0 : state) (sched : list (nat * list Z)),
       run_ok' s0 sched ->
       let s := RcDepthP.mrun s0 sched in
       forall (o : nat) (ob : obj), geto s o = Some ob -> 0 < wowners s o -> freed ob = false.
Proof. exact RcPinnedP.C03_final'. Qed.
Print Assumptions C03_final_H2_outside_sections_only.
