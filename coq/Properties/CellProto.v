(* CellProto -- pinned statements only (generated once by tools/pin.py from `Check`, then fixed); proofs in CellProtoP.v *)
From Coq Require Import ZArith List Bool Lia Arith.
Import ListNotations.
Require Import Params TaggedW CellProtoW Cell CellProtoP.
Local Open Scope Z_scope.

Theorem CellProto_stamp_generated :
  forall E w : Z, c_with_timestamp K E w = stamp true E w.
Proof. exact CellProtoP.stamp_generated. Qed.
Print Assumptions CellProto_stamp_generated.

Theorem CellProto_cell_table :
  forall (kind : bool) (E h ex cur tag : Z),
       w0 (pick kind (CS_store_words K E h ex cur tag) (CW_store_words K E h ex cur tag)) = stamp kind E h /\
       w0 (pick kind (CS_swap_words K E h ex cur tag) (CW_swap_words K E h ex cur tag)) = stamp kind E h /\
       w0
         (pick kind (CS_compare_exchange_words K E h ex cur tag) (CW_compare_exchange_words K E h ex cur tag)) =
       stamp kind E h /\
       w0
         (pick kind (CS_compare_exchange_weak_words K E h ex cur tag)
            (CW_compare_exchange_weak_words K E h ex cur tag)) = stamp kind E h /\
       w0
         (pick kind (CS_compare_exchange_tag_words K E h ex cur tag)
            (CW_compare_exchange_tag_words K E h ex cur tag)) = stamp kind E (t_with_tag K ex tag) /\
       pick kind (CS_compare_exchange_expected K E h ex cur tag)
         (CW_compare_exchange_expected K E h ex cur tag) = [ex] /\
       pick kind (CS_compare_exchange_weak_expected K E h ex cur tag)
         (CW_compare_exchange_weak_expected K E h ex cur tag) = [ex] /\
       pick kind (CS_compare_exchange_tag_expected K E h ex cur tag)
         (CW_compare_exchange_tag_expected K E h ex cur tag) = [ex] /\
       pick kind (CS_compare_exchange_retry K E h ex cur tag) (CW_compare_exchange_retry K E h ex cur tag) =
       [t_ptr_eq K cur ex] /\
       pick kind (CS_compare_exchange_weak_retry K E h ex cur tag)
         (CW_compare_exchange_weak_retry K E h ex cur tag) = [t_ptr_eq K cur ex] /\
       pick kind (CS_compare_exchange_tag_retry K E h ex cur tag)
         (CW_compare_exchange_tag_retry K E h ex cur tag) = [t_ptr_eq K cur ex] /\
       pick kind (CS_store_expected K E h ex cur tag ++ CS_swap_expected K E h ex cur tag)
         (CW_store_expected K E h ex cur tag ++ CW_swap_expected K E h ex cur tag) = [] /\
       pick kind (CS_store_retry K E h ex cur tag ++ CS_swap_retry K E h ex cur tag)
         (CW_store_retry K E h ex cur tag ++ CW_swap_retry K E h ex cur tag) = [].
Proof. exact CellProtoP.cell_table. Qed.
Print Assumptions CellProto_cell_table.

Theorem CellProto_tstep_cas_start :
  forall (k : bool) (E c : Z) (th : thread) (e h d : nat),
       t_pc th = POp ->
       nth_error (t_prog th) (t_ip th) = Some (Cas e h d) ->
       op_ok th (Cas e h d) = true ->
       tstep k E c th =
       Some
         (c,
          set_pc th
            (PCas (sget th e) (sget th e)
               (w0
                  (pick k (CS_compare_exchange_words K E (hget th h) (sget th e) 0 0)
                     (CW_compare_exchange_words K E (hget th h) (sget th e) 0 0)))), [
          1; 3; Z.of_nat e]).
Proof. exact CellProtoP.tstep_cas_start. Qed.
Print Assumptions CellProto_tstep_cas_start.

Theorem CellProto_tstep_casweak_start :
  forall (k : bool) (E c : Z) (th : thread) (e h d : nat),
       t_pc th = POp ->
       nth_error (t_prog th) (t_ip th) = Some (CasWeak e h d) ->
       op_ok th (CasWeak e h d) = true ->
       tstep k E c th =
       Some
         (c,
          set_pc th
            (PCas (sget th e) (sget th e)
               (w0
                  (pick k (CS_compare_exchange_weak_words K E (hget th h) (sget th e) 0 0)
                     (CW_compare_exchange_weak_words K E (hget th h) (sget th e) 0 0)))), [
          1; 4; Z.of_nat e]).
Proof. exact CellProtoP.tstep_casweak_start. Qed.
Print Assumptions CellProto_tstep_casweak_start.

Theorem CellProto_tstep_castag_start :
  forall (k : bool) (E c : Z) (th : thread) (e : nat) (tag : Z) (d : nat),
       t_pc th = POp ->
       nth_error (t_prog th) (t_ip th) = Some (CasTag e tag d) ->
       op_ok th (CasTag e tag d) = true ->
       tstep k E c th =
       Some
         (c,
          set_pc th
            (PCas (sget th e) (sget th e)
               (w0
                  (pick k (CS_compare_exchange_tag_words K E 0 (sget th e) 0 tag)
                     (CW_compare_exchange_tag_words K E 0 (sget th e) 0 tag)))), [
          1; 5; Z.of_nat e]).
Proof. exact CellProtoP.tstep_castag_start. Qed.
Print Assumptions CellProto_tstep_castag_start.

Theorem CellProto_tstep_store :
  forall (k : bool) (E c : Z) (th : thread) (h : nat),
       t_pc th = PSwap ->
       nth_error (t_prog th) (t_ip th) = Some (Store h) ->
       hin th h = true ->
       tstep k E c th =
       (let w := hget th h in
        Some
          (w0 (pick k (CS_store_words K E w 0 0 0) (CW_store_words K E w 0 0 0)),
           ret th (upd (t_hv th) h 0) (t_sv th), [site_swap k; 0; w; site_swap k + 900; 0; c; 2000; 1; 0])).
Proof. exact CellProtoP.tstep_store. Qed.
Print Assumptions CellProto_tstep_store.

Theorem CellProto_tstep_swap :
  forall (k : bool) (E c : Z) (th : thread) (h : nat),
       t_pc th = PSwap ->
       nth_error (t_prog th) (t_ip th) = Some (Swap h) ->
       hin th h = true ->
       tstep k E c th =
       (let w := hget th h in
        Some
          (w0 (pick k (CS_swap_words K E w 0 0 0) (CW_swap_words K E w 0 0 0)),
           ret th (upd (t_hv th) h c) (t_sv th), [site_swap k; 0; w; site_swap k + 900; 0; c; 2000; 2; c])).
Proof. exact CellProtoP.tstep_swap. Qed.
Print Assumptions CellProto_tstep_swap.

Theorem CellProto_tstep_cas_outcome :
  forall (k : bool) (E c : Z) (th : thread) (orig ex des : Z) (e h d : nat),
       t_pc th = PCas orig ex des ->
       nth_error (t_prog th) (t_ip th) = Some (Cas e h d) ->
       sin th e && hin th h && sin th d = true ->
       tstep k E c th =
       (if c =? ex
        then Some (des, ret th (upd (t_hv th) h ex) (t_sv th), [site_cas k; 0; ex; 2001; 1; ex])
        else
         if b0 (pick k (CS_compare_exchange_retry K E 0 ex c 0) (CW_compare_exchange_retry K E 0 ex c 0))
         then Some (c, set_pc th (PCas orig c des), [site_cas k; 0; ex])
         else
          Some (c, ret th (t_hv th) (upd (t_sv th) d c), [site_cas k; 0; ex; 2001; 0; c; 2002; 0; hget th h])).
Proof. exact CellProtoP.tstep_cas_outcome. Qed.
Print Assumptions CellProto_tstep_cas_outcome.

Theorem CellProto_tstep_castag_outcome :
  forall (k : bool) (E c : Z) (th : thread) (orig ex des : Z) (e : nat) (tag : Z) (d : nat),
       t_pc th = PCas orig ex des ->
       nth_error (t_prog th) (t_ip th) = Some (CasTag e tag d) ->
       sin th e && sin th d = true ->
       tstep k E c th =
       (if c =? ex
        then Some (des, ret th (t_hv th) (upd (t_sv th) d c), [site_cas k; 0; ex; 2001; 1; c])
        else
         if
          b0
            (pick k (CS_compare_exchange_tag_retry K E 0 ex c tag)
               (CW_compare_exchange_tag_retry K E 0 ex c tag))
         then Some (c, set_pc th (PCas orig c des), [site_cas k; 0; ex])
         else Some (c, ret th (t_hv th) (upd (t_sv th) d c), [site_cas k; 0; ex; 2001; 0; c; 2002; 0; des])).
Proof. exact CellProtoP.tstep_castag_outcome. Qed.
Print Assumptions CellProto_tstep_castag_outcome.

