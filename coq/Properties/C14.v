(* C14 -- pinned statements only (generated once by tools/pin.py from `Check`, then fixed); proofs in EbrP.v *)
From Coq Require Import ZArith List Bool Lia Arith.
Import ListNotations.
Require Import Params Ebr EbrP EbrNoStuckP EpochW EpochP.
Local Open Scope Z_scope.

Theorem C14_skew_inv :
  forall (s : state) (q : nat) (lq : local),
       Inv s ->
       nth_error (threads s) q = Some lq ->
       valid lq = true -> pinned lq = true /\ ann lq <= G s <= ann lq + 1.
Proof. exact EbrP.C14_skew_inv. Qed.
Print Assumptions C14_skew_inv.

Theorem C14_monotone_micro :
  forall (s : state) (t : nat) (s' : state) (o : list Z),
       Inv s -> micro s t = Some (s', o) -> G s <= G s' <= G s + 1.
Proof. exact EbrP.C14_monotone_micro. Qed.
Print Assumptions C14_monotone_micro.

Theorem C14_ann_stable_micro :
  forall (s : state) (t : nat) (s' : state) (o : list Z) (q : nat) (lq lq' : local),
       Inv s ->
       micro s t = Some (s', o) ->
       nth_error (threads s) q = Some lq ->
       nth_error (threads s') q = Some lq' ->
       incs lq' = true -> serial lq' = serial lq -> incs lq = true /\ ann lq' = ann lq.
Proof. exact EbrP.C14_ann_stable_micro. Qed.
Print Assumptions C14_ann_stable_micro.

Theorem C14_skew :
  forall (c : nat) (g0 : Z) (progs : list (list cmd)) (sched : list nat) (q : nat) (lq : local),
       let s := mrun (init_state c g0 progs) sched in
       nth_error (threads s) q = Some lq ->
       valid lq = true -> pinned lq = true /\ ann lq <= G s <= ann lq + 1.
Proof. exact EbrP.C14_skew. Qed.
Print Assumptions C14_skew.

Theorem C14_monotone :
  forall (c : nat) (g0 : Z) (progs : list (list cmd)) (sched : list nat) (t : nat) 
         (s' : state) (o : list Z),
       let s := mrun (init_state c g0 progs) sched in micro s t = Some (s', o) -> G s <= G s' <= G s + 1.
Proof. exact EbrP.C14_monotone. Qed.
Print Assumptions C14_monotone.

Theorem C14_invariant_step :
  forall (s : state) (t : nat) (s' : state) (o : list Z), Inv s -> step s t = Some (s', o) -> Inv s'.
Proof. exact EbrP.step_inv. Qed.
Print Assumptions C14_invariant_step.

Theorem C14_skew_reachable :
  let s :=
         srun (init_state 2 0 [[CPin; CUnpin]; [CPin; CFlush; CUnpin]])
           [0%nat; 1%nat; 0%nat; 0%nat; 0%nat; 0%nat; 1%nat; 1%nat; 1%nat; 1%nat; 1%nat; 1%nat; 1%nat; 1%nat;
            1%nat; 1%nat; 1%nat] in
       exists lq : local, nth_error (threads s) 0 = Some lq /\ valid lq = true /\ G s = ann lq + 1.
Proof. exact EbrP.skew_reachable. Qed.
Print Assumptions C14_skew_reachable.


(* ---- machine level: the generated image of ebr_impl/epoch.rs *)
Theorem C14_e_pinned_spec :
  forall (g : Z) (b : bool), ep g -> e_pinned (2 * g + Z.b2z b) = 2 * g + 1.
Proof. exact EpochP.e_pinned_spec. Qed.
Print Assumptions C14_e_pinned_spec.

Theorem C14_e_unpinned_spec :
  forall (g : Z) (b : bool), ep g -> e_unpinned (2 * g + Z.b2z b) = 2 * g.
Proof. exact EpochP.e_unpinned_spec. Qed.
Print Assumptions C14_e_unpinned_spec.

Theorem C14_e_is_pinned_spec :
  forall (g : Z) (b : bool), ep g -> e_is_pinned (2 * g + Z.b2z b) = b.
Proof. exact EpochP.e_is_pinned_spec. Qed.
Print Assumptions C14_e_is_pinned_spec.

Theorem C14_e_value_spec :
  forall (g : Z) (b : bool), ep g -> e_value (2 * g + Z.b2z b) = g.
Proof. exact EpochP.e_value_spec. Qed.
Print Assumptions C14_e_value_spec.

Theorem C14_e_successor_spec :
  forall (g : Z) (b : bool), ep g -> e_successor (2 * g + Z.b2z b) = 2 * (g + 1) + Z.b2z b.
Proof. exact EpochP.e_successor_spec. Qed.
Print Assumptions C14_e_successor_spec.

Theorem C14_e_wrapping_sub_spec :
  forall (g e : Z) (b b' : bool),
       ep g -> ep e -> e_wrapping_sub (2 * g + Z.b2z b) (2 * e + Z.b2z b') = g - e.
Proof. exact EpochP.e_wrapping_sub_spec. Qed.
Print Assumptions C14_e_wrapping_sub_spec.

Theorem C14_is_expired_spec :
  forall g e : Z, ep g -> ep e -> is_expired (2 * e) (2 * g) = (g - e >=? EXPIRE_AFTER).
Proof. exact EpochP.is_expired_spec. Qed.
Print Assumptions C14_is_expired_spec.


(* ---- the model's defensive guards (try_advance / repin_without_collect only by a validated participant,
   scanned participants exist) never fire on reachable states of well-formed programs (EbrNoStuckP.v) *)
Theorem C14_no_guard_fires :
  forall (s : state) (t : nat) (l : local),
       NS s ->
       getl s t = Some l -> frames l <> [] -> exists (s' : state) (o : list Z), micro s t = Some (s', o).
Proof. exact EbrNoStuckP.micro_total. Qed.
Print Assumptions C14_no_guard_fires.

Theorem C14_no_stuck_invariant :
  forall (s : state) (t : nat) (s' : state) (o : list Z), NS s -> micro s t = Some (s', o) -> NS s'.
Proof. exact EbrNoStuckP.micro_ns. Qed.
Print Assumptions C14_no_stuck_invariant.

Theorem C14_no_stuck_initial :
  forall (c : nat) (g0 : Z) (progs : list (list cmd)),
       forallb prog_ok progs = true -> NS (init_state c g0 progs).
Proof. exact EbrNoStuckP.init_ns. Qed.
Print Assumptions C14_no_stuck_initial.

Theorem C14_no_guard_fires_step :
  forall (c : nat) (g0 : Z) (progs : list (list cmd)) (sched : list nat) (t : nat) (l : local),
       forallb prog_ok progs = true ->
       getl (srun (init_state c g0 progs) sched) t = Some l ->
       frames l <> [] -> micro (srun (init_state c g0 progs) sched) t <> None.
Proof. exact EbrNoStuckP.no_guard_fires_step. Qed.
Print Assumptions C14_no_guard_fires_step.

