(* C04 -- pinned statements only (generated once by tools/pin.py from `Check`, then fixed); proofs in RcP.v *)
From Coq Require Import ZArith List Bool Lia Arith.
Import ListNotations.
Require Import Params StateW DisposeW Rc RcSpec RcP.
Local Open Scope Z_scope.

Theorem C04_flags_final :
  forall (s : state) (t : nat) (rec : list Z) (s' : state) (o : list Z),
       Inv' s ->
       tde_ok s -> counted_ok s -> bounded s -> bounded s' -> micro s t rec = Some (s', o) -> flags_mono s s'.
Proof. exact RcP.micro_flags_mono. Qed.
Print Assumptions C04_flags_final.

Theorem C04_tde :
  forall (s0 : state) (sched : list (nat * list Z)) (t : nat) (rec : list Z) (s' : state) (obs : list Z),
       run_hyps s0 sched ->
       let s := mrun s0 sched in
       micro s t rec = Some (s', obs) ->
       forall (o : nat) (ob ob' : obj), geto s o = Some ob -> geto s' o = Some ob' -> C04_concl ob ob' obs.
Proof. exact RcP.C04_tde. Qed.
Print Assumptions C04_tde.

