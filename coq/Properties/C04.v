(* C04 -- pinned statements only; the statement text below is the definition of RcSpec.v written out (the proof is
   `exact`, so it is checked to be convertible with it); proofs in RcP.v (strong side) and RcWeakP.v (weak side) *)
From Coq Require Import ZArith List Bool Lia Arith.
Import ListNotations.
Require Import Params StateW DisposeW ModularW RcSnapCheck RcSnapP RcSnapInvP RcWSnapInvP Rc RcSpec RcP RcWeakP RcNoOrphanP.
Local Open Scope Z_scope.

Theorem C04_at_most_once_in_order :
  forall s0 sched t rec s' obs, fresh_start s0 -> bounded_run s0 sched -> live_counted s0 sched ->
  let s := mrun s0 sched in
  micro s t rec = Some (s', obs) ->
  forall o ob ob', geto s o = Some ob -> geto s' o = Some ob' ->
    (dropped ob = true -> dropped ob' = true) /\ (freed ob = true -> freed ob' = true) /\
    (dropped ob = false -> dropped ob' = true -> In 1102 obs /\ destructed (word ob) = true /\ freed ob = false) /\
    (freed ob = false -> freed ob' = true -> In 1100 obs /\ dropped ob = true).
Proof. exact RcWeakP.C04. Qed.
Print Assumptions C04_at_most_once_in_order.

Theorem C04_flags_final :
  forall (s : state) (t : nat) (rec : list Z) (s' : state) (o : list Z),
       Inv' s ->
       tde_ok s -> counted_ok s -> bounded s -> bounded s' -> micro s t rec = Some (s', o) -> flags_mono s s'.
Proof. exact RcP.micro_flags_mono. Qed.
Print Assumptions C04_flags_final.


(* ---- FINAL FORM (RcWSnapInvP.v): the same statements under run_ok only - fresh start, well-formed programs
   (cellops_ok, bounded_run) and the run hypotheses H2 pinned / H3 scoped, wscoped / epoch < 2^62; the former hypothesis
   live_counted (scounted_ok, wcounted_ok = finding F5, wlive_ok) is now a THEOREM (C02_count_hypotheses_discharged) *)
Theorem C04_final :
  forall (s0 : state) (sched : list (nat * list Z)) (t : nat) (rec : list Z) (s' : state) (obs : list Z),
       run_ok s0 sched ->
       let s := mrun s0 sched in
       micro s t rec = Some (s', obs) ->
       forall (o : nat) (ob ob' : obj),
       geto s o = Some ob ->
       geto s' o = Some ob' ->
       (dropped ob = true -> dropped ob' = true) /\
       (freed ob = true -> freed ob' = true) /\
       (dropped ob = false ->
        dropped ob' = true -> In 1102 obs /\ destructed (word ob) = true /\ freed ob = false) /\
       (freed ob = false -> freed ob' = true -> In 1100 obs /\ dropped ob = true).
Proof. exact RcWSnapInvP.C04_final. Qed.
Print Assumptions C04_final.

(* ---- NOTHING IS ORPHANED (RcNoOrphanP.v; corollary of the count invariants): every object whose block is not yet freed has a
   counted owner or exactly one destruction attempt (not destructed); exactly one disposer at work (destructed, payload not yet
   dropped); a weak owner, the strong side's share or exactly one try_dealloc (payload dropped).  With C15 (every deferred
   function is eventually run) this is the logical content of 'nothing leaks at quiescence' *)
Theorem C04_no_orphan :
  forall (s0 : state) (sched : list (nat * list Z)), run_ok s0 sched ->
  let s := RcSpec.mrun s0 sched in
  forall (o : nat) (ob : obj), o <> O -> geto s o = Some ob -> freed ob = false ->
    (destructed (word ob) = false -> 0 < owners s o \/ attempts s o = 1) /\
    (destructed (word ob) = true -> dropped ob = false -> RcWeakP.disp s o = 1) /\
    (dropped ob = true -> 0 < wowners s o \/ 0 < RcWeakP.gfr s o \/ dealloc_attempts s o = 1).
Proof. exact RcNoOrphanP.C04_no_orphan. Qed.
Print Assumptions C04_no_orphan.
