(* memory orderings of src/ebr_impl/sync/queue.rs: at least those of the reference table (see OrderP.v) *)
From Coq Require Import ZArith List Bool String.
Import ListNotations.
Require Import OrderW OrderRef OrderP.
Local Open Scope string_scope.

Theorem orderings_queue_cover_reference :
  files_ok ["src/ebr_impl/sync/queue.rs"] = true.
Proof. vm_compute. reflexivity. Qed.
Print Assumptions orderings_queue_cover_reference.
