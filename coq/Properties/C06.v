(* C06 -- pinned statements only (generated once by tools/pin.py from `Check`, then fixed); proofs in RcCascadeP.v *)
From Coq Require Import ZArith List Bool Lia Arith.
Import ListNotations.
Require Import Params StateW ModularW DisposeW StateP ModularP Rc RcChain RcCascadeP RcTreeP.
Local Open Scope Z_scope.

Theorem C06_cascade_full :
  forall (t : nat) (s : state) (x : thr) (o : nat) (l' : list nat) (K : list frame) 
         (oa : obj) (lk : link),
       gett s t = Some x ->
       frames x = FDispEnter o 0 :: K ->
       Z.of_nat (length (o :: l')) <= DEPTH_CAP ->
       epoch_ok (G s) ->
       geto s o = Some oa ->
       wordp (oword oa) ->
       destructed (oword oa) = true ->
       weaked (oword oa) = false ->
       old (G s) (epoch (oword oa)) ->
       links oa = [lk; null_link] ->
       seg s lk l' null_link ->
       NoDup (o :: l') ->
       exists (n : nat) (s' : state),
         (n <= 12 * length (o :: l'))%nat /\
         iter_micro n s t = s' /\
         (forall o' : nat, In o' (o :: l') -> exists ob : obj, geto s' o' = Some ob /\ gone ob) /\
         pending s' = pending s /\ footprint s s' t x K (o :: l').
Proof. exact RcCascadeP.cascade_full. Qed.
Print Assumptions C06_cascade_full.

Theorem C06_cascade_survivor :
  forall (t : nat) (s : state) (x : thr) (o : nat) (pre : list nat) (h : nat) 
         (post : list nat) (ts : Z) (K : list frame) (oa : obj) (lk : link) (oh : obj),
       gett s t = Some x ->
       frames x = FDispEnter o 0 :: K ->
       Z.of_nat (length (o :: pre)) <= DEPTH_CAP ->
       epoch_ok (G s) ->
       geto s o = Some oa ->
       wordp (oword oa) ->
       destructed (oword oa) = true ->
       weaked (oword oa) = false ->
       old (G s) (epoch (oword oa)) ->
       links oa = [lk; null_link] ->
       seg s lk pre (h, ts) ->
       NoDup (o :: pre ++ h :: post) ->
       h <> 0%nat ->
       old (G s) ts ->
       geto s h = Some oh ->
       wordp (oword oh) ->
       strong (oword oh) = 2 ->
       destructed (oword oh) = false ->
       exists (n : nat) (s' : state) (oh' : obj),
         (n <= 12 * length (o :: pre) + 3)%nat /\
         iter_micro n s t = s' /\
         (forall o' : nat, In o' (o :: pre) -> exists ob : obj, geto s' o' = Some ob /\ gone ob) /\
         geto s' h = Some oh' /\
         strong (oword oh') = 1 /\
         destructed (oword oh') = false /\
         weaked (oword oh') = weaked (oword oh) /\
         dropped oh' = dropped oh /\
         freed oh' = freed oh /\
         links oh' = links oh /\
         (forall o' : nat, In o' post -> geto s' o' = geto s o') /\
         pending s' = pending s /\ footprint s s' t x K (o :: pre ++ [h]).
Proof. exact RcCascadeP.cascade_survivor. Qed.
Print Assumptions C06_cascade_survivor.

Theorem C06_cascade_cap :
  forall (t : nat) (s : state) (x : thr) (o : nat) (pre : list nat) (h : nat) 
         (post : list nat) (ts : Z) (K : list frame) (oa : obj) (lk : link) (oh : obj),
       gett s t = Some x ->
       frames x = FDispEnter o 0 :: K ->
       Z.of_nat (length (o :: pre)) = DEPTH_CAP ->
       epoch_ok (G s) ->
       geto s o = Some oa ->
       wordp (oword oa) ->
       destructed (oword oa) = true ->
       weaked (oword oa) = false ->
       old (G s) (epoch (oword oa)) ->
       links oa = [lk; null_link] ->
       seg s lk pre (h, ts) ->
       NoDup (o :: pre ++ h :: post) ->
       h <> 0%nat ->
       old (G s) ts ->
       geto s h = Some oh ->
       wordp (oword oh) ->
       strong (oword oh) = 1 ->
       destructed (oword oh) = false ->
       exists (n : nat) (s' : state) (oh' : obj),
         (n <= 12 * length (o :: pre) + 4)%nat /\
         iter_micro n s t = s' /\
         (forall o' : nat, In o' (o :: pre) -> exists ob : obj, geto s' o' = Some ob /\ gone ob) /\
         geto s' h = Some oh' /\
         strong (oword oh') = 0 /\
         destructed (oword oh') = false /\
         weaked (oword oh') = weaked (oword oh) /\
         dropped oh' = dropped oh /\
         freed oh' = freed oh /\
         links oh' = links oh /\
         (forall o' : nat, In o' post -> geto s' o' = geto s o') /\
         pending s' = pending s ++ [{| pk := KDestruct; po := h; pG := G s; pwit := witnesses s |}] /\
         footprint s s' t x K (o :: pre ++ [h]).
Proof. exact RcCascadeP.cascade_cap. Qed.
Print Assumptions C06_cascade_cap.

Theorem C06_chain3_hyps :
  let s := chain_state 3 0 100 95 94 in
       let x := chain_thread [FDispEnter 1 0] in
       exists (oa : obj) (lk : link),
         gett s 0 = Some x /\
         frames x = [FDispEnter 1 0] /\
         Z.of_nat (length [1%nat; 2%nat; 3%nat]) <= DEPTH_CAP /\
         epoch_ok (G s) /\
         geto s 1 = Some oa /\
         wordp (oword oa) /\
         destructed (oword oa) = true /\
         weaked (oword oa) = false /\
         old (G s) (epoch (oword oa)) /\
         links oa = [lk; null_link] /\ seg s lk [2%nat; 3%nat] null_link /\ NoDup [1%nat; 2%nat; 3%nat].
Proof. exact RcCascadeP.chain3_hyps. Qed.
Print Assumptions C06_chain3_hyps.

Theorem C06_chain3_recent_link_defers :
  let s' := iter_micro 36 (chain_state 3 0 100 99 94) 0 in
       map dropped (objs s') = [true; false; false] /\ map po (pending s') = [2%nat].
Proof. exact RcCascadeP.chain3_recent_link_defers. Qed.
Print Assumptions C06_chain3_recent_link_defers.


(* ---- binary trees of any size and shape (RcTreeP.v) *)
Theorem C06_tree_cascade_full :
  forall (t : nat) (s : state) (x : thr) (a : nat) (K : list frame) (oa : obj) 
         (ll lr : link) (TL TR : tree),
       let T := Node a TL TR in
       gett s t = Some x ->
       frames x = FDispEnter a 0 :: K ->
       Z.of_nat (height T) <= DEPTH_CAP ->
       epoch_ok (G s) ->
       geto s a = Some oa ->
       wordp (oword oa) ->
       destructed (oword oa) = true ->
       weaked (oword oa) = false ->
       old (G s) (epoch (oword oa)) ->
       links oa = [ll; lr] ->
       tree_in s ll TL ->
       tree_in s lr TR ->
       shared T = [] ->
       NoDup (ids T) ->
       exists (n : nat) (s' : state),
         (n <= 11 * size T)%nat /\
         iter_micro n s t = s' /\
         (forall o : nat, In o (ids T) -> exists ob : obj, geto s' o = Some ob /\ gone ob) /\
         pending s' = pending s /\ footprint s s' t x K (ids T).
Proof. exact RcTreeP.tree_cascade_full. Qed.
Print Assumptions C06_tree_cascade_full.

Theorem C06_tree_cascade_survivor :
  forall (t : nat) (s : state) (x : thr) (a : nat) (K : list frame) (oa : obj) 
         (ll lr : link) (TL TR : tree) (h : nat) (oh : obj),
       let T := Node a TL TR in
       gett s t = Some x ->
       frames x = FDispEnter a 0 :: K ->
       Z.of_nat (height T) <= DEPTH_CAP ->
       epoch_ok (G s) ->
       geto s a = Some oa ->
       wordp (oword oa) ->
       destructed (oword oa) = true ->
       weaked (oword oa) = false ->
       old (G s) (epoch (oword oa)) ->
       links oa = [ll; lr] ->
       tree_in s ll TL ->
       tree_in s lr TR ->
       NoDup (ids T) ->
       shared T = [h] ->
       geto s h = Some oh ->
       strong (oword oh) = 2 ->
       destructed (oword oh) = false ->
       exists (n : nat) (s' : state) (oh' : obj),
         (n <= 11 * size T)%nat /\
         iter_micro n s t = s' /\
         (forall o : nat, In o (nodes T) -> exists ob : obj, geto s' o = Some ob /\ gone ob) /\
         geto s' h = Some oh' /\
         strong (oword oh') = 1 /\
         destructed (oword oh') = false /\
         weaked (oword oh') = weaked (oword oh) /\
         dropped oh' = dropped oh /\
         freed oh' = freed oh /\
         links oh' = links oh /\ pending s' = pending s /\ footprint s s' t x K (ids T).
Proof. exact RcTreeP.tree_cascade_survivor. Qed.
Print Assumptions C06_tree_cascade_survivor.

Theorem C06_tree5_hyps :
  let s := tree5_state 0 100 95 93 94 in
       let x := chain_thread [FDispEnter 1 0] in
       exists (oa : obj) (ll lr : link),
         gett s 0 = Some x /\
         frames x = [FDispEnter 1 0] /\
         Z.of_nat (height (Node 1 T5L T5R)) <= DEPTH_CAP /\
         epoch_ok (G s) /\
         geto s 1 = Some oa /\
         wordp (oword oa) /\
         destructed (oword oa) = true /\
         weaked (oword oa) = false /\
         old (G s) (epoch (oword oa)) /\
         links oa = [ll; lr] /\
         tree_in s ll T5L /\ tree_in s lr T5R /\ shared (Node 1 T5L T5R) = [] /\ NoDup (ids (Node 1 T5L T5R)).
Proof. exact RcTreeP.tree5_hyps. Qed.
Print Assumptions C06_tree5_hyps.

