(* C06 -- pinned statements only (generated once by tools/pin.py from `Check`, then fixed); proofs in RcCascadeP.v *)
From Coq Require Import ZArith List Bool Lia Arith.
Import ListNotations.
Require Import Params StateW ModularW DisposeW StateP ModularP Rc RcSpec RcEpochP RcChain RcCascadeP RcTreeP RcChainAnyP.
Local Open Scope Z_scope.

Theorem C06_cascade_full :
  forall (t : nat) (s : state) (x : thr) (o : nat) (l' : list nat) (K : list frame) 
         (oa : obj) (lk : link),
       gett s t = Some x ->
       frames x = FDispEnter o 0 :: K ->
       Z.of_nat (length (o :: l')) <= DEPTH_CAP ->
       epoch_ok (G s) ->
       geto s o = Some oa ->
       wordp (oword oa) ->
       destructed (oword oa) = true ->
       weaked (oword oa) = false ->
       old (G s) (epoch (oword oa)) ->
       links oa = [lk; null_link] ->
       seg s lk l' null_link ->
       NoDup (o :: l') ->
       exists (n : nat) (s' : state),
         (n <= 12 * length (o :: l'))%nat /\
         iter_micro n s t = s' /\
         (forall o' : nat, In o' (o :: l') -> exists ob : obj, geto s' o' = Some ob /\ gone ob) /\
         pending s' = pending s /\ footprint s s' t x K (o :: l').
Proof. exact RcCascadeP.cascade_full. Qed.
Print Assumptions C06_cascade_full.

Theorem C06_cascade_survivor :
  forall (t : nat) (s : state) (x : thr) (o : nat) (pre : list nat) (h : nat) 
         (post : list nat) (ts : Z) (K : list frame) (oa : obj) (lk : link) (oh : obj),
       gett s t = Some x ->
       frames x = FDispEnter o 0 :: K ->
       Z.of_nat (length (o :: pre)) <= DEPTH_CAP ->
       epoch_ok (G s) ->
       geto s o = Some oa ->
       wordp (oword oa) ->
       destructed (oword oa) = true ->
       weaked (oword oa) = false ->
       old (G s) (epoch (oword oa)) ->
       links oa = [lk; null_link] ->
       seg s lk pre (h, ts) ->
       NoDup (o :: pre ++ h :: post) ->
       h <> 0%nat ->
       old (G s) ts ->
       geto s h = Some oh ->
       wordp (oword oh) ->
       strong (oword oh) = 2 ->
       destructed (oword oh) = false ->
       exists (n : nat) (s' : state) (oh' : obj),
         (n <= 12 * length (o :: pre) + 3)%nat /\
         iter_micro n s t = s' /\
         (forall o' : nat, In o' (o :: pre) -> exists ob : obj, geto s' o' = Some ob /\ gone ob) /\
         geto s' h = Some oh' /\
         strong (oword oh') = 1 /\
         destructed (oword oh') = false /\
         weaked (oword oh') = weaked (oword oh) /\
         dropped oh' = dropped oh /\
         freed oh' = freed oh /\
         links oh' = links oh /\
         (forall o' : nat, In o' post -> geto s' o' = geto s o') /\
         pending s' = pending s /\ footprint s s' t x K (o :: pre ++ [h]).
Proof. exact RcCascadeP.cascade_survivor. Qed.
Print Assumptions C06_cascade_survivor.

Theorem C06_cascade_cap :
  forall (t : nat) (s : state) (x : thr) (o : nat) (pre : list nat) (h : nat) 
         (post : list nat) (ts : Z) (K : list frame) (oa : obj) (lk : link) (oh : obj),
       gett s t = Some x ->
       frames x = FDispEnter o 0 :: K ->
       Z.of_nat (length (o :: pre)) = DEPTH_CAP ->
       epoch_ok (G s) ->
       geto s o = Some oa ->
       wordp (oword oa) ->
       destructed (oword oa) = true ->
       weaked (oword oa) = false ->
       old (G s) (epoch (oword oa)) ->
       links oa = [lk; null_link] ->
       seg s lk pre (h, ts) ->
       NoDup (o :: pre ++ h :: post) ->
       h <> 0%nat ->
       old (G s) ts ->
       geto s h = Some oh ->
       wordp (oword oh) ->
       strong (oword oh) = 1 ->
       destructed (oword oh) = false ->
       exists (n : nat) (s' : state) (oh' : obj),
         (n <= 12 * length (o :: pre) + 4)%nat /\
         iter_micro n s t = s' /\
         (forall o' : nat, In o' (o :: pre) -> exists ob : obj, geto s' o' = Some ob /\ gone ob) /\
         geto s' h = Some oh' /\
         strong (oword oh') = 0 /\
         destructed (oword oh') = false /\
         weaked (oword oh') = weaked (oword oh) /\
         dropped oh' = dropped oh /\
         freed oh' = freed oh /\
         links oh' = links oh /\
         (forall o' : nat, In o' post -> geto s' o' = geto s o') /\
         pending s' = pending s ++ [{| pk := KDestruct; po := h; pG := G s; pwit := witnesses s |}] /\
         footprint s s' t x K (o :: pre ++ [h]).
Proof. exact RcCascadeP.cascade_cap. Qed.
Print Assumptions C06_cascade_cap.

Theorem C06_chain3_hyps :
  let s := chain_state 3 0 100 95 94 in
       let x := chain_thread [FDispEnter 1 0] in
       exists (oa : obj) (lk : link),
         gett s 0 = Some x /\
         frames x = [FDispEnter 1 0] /\
         Z.of_nat (length [1%nat; 2%nat; 3%nat]) <= DEPTH_CAP /\
         epoch_ok (G s) /\
         geto s 1 = Some oa /\
         wordp (oword oa) /\
         destructed (oword oa) = true /\
         weaked (oword oa) = false /\
         old (G s) (epoch (oword oa)) /\
         links oa = [lk; null_link] /\ seg s lk [2%nat; 3%nat] null_link /\ NoDup [1%nat; 2%nat; 3%nat].
Proof. exact RcCascadeP.chain3_hyps. Qed.
Print Assumptions C06_chain3_hyps.

Theorem C06_chain3_recent_link_defers :
  let s' := iter_micro 36 (chain_state 3 0 100 99 94) 0 in
       map dropped (objs s') = [true; false; false] /\ map po (pending s') = [2%nat].
Proof. exact RcCascadeP.chain3_recent_link_defers. Qed.
Print Assumptions C06_chain3_recent_link_defers.


(* ---- binary trees of any size and shape (RcTreeP.v) *)
Theorem C06_tree_cascade_full :
  forall (t : nat) (s : state) (x : thr) (a : nat) (K : list frame) (oa : obj) 
         (ll lr : link) (TL TR : tree),
       let T := Node a TL TR in
       gett s t = Some x ->
       frames x = FDispEnter a 0 :: K ->
       Z.of_nat (height T) <= DEPTH_CAP ->
       epoch_ok (G s) ->
       geto s a = Some oa ->
       wordp (oword oa) ->
       destructed (oword oa) = true ->
       weaked (oword oa) = false ->
       old (G s) (epoch (oword oa)) ->
       links oa = [ll; lr] ->
       tree_in s ll TL ->
       tree_in s lr TR ->
       shared T = [] ->
       NoDup (ids T) ->
       exists (n : nat) (s' : state),
         (n <= 11 * size T)%nat /\
         iter_micro n s t = s' /\
         (forall o : nat, In o (ids T) -> exists ob : obj, geto s' o = Some ob /\ gone ob) /\
         pending s' = pending s /\ footprint s s' t x K (ids T).
Proof. exact RcTreeP.tree_cascade_full. Qed.
Print Assumptions C06_tree_cascade_full.

Theorem C06_tree_cascade_survivor :
  forall (t : nat) (s : state) (x : thr) (a : nat) (K : list frame) (oa : obj) 
         (ll lr : link) (TL TR : tree) (h : nat) (oh : obj),
       let T := Node a TL TR in
       gett s t = Some x ->
       frames x = FDispEnter a 0 :: K ->
       Z.of_nat (height T) <= DEPTH_CAP ->
       epoch_ok (G s) ->
       geto s a = Some oa ->
       wordp (oword oa) ->
       destructed (oword oa) = true ->
       weaked (oword oa) = false ->
       old (G s) (epoch (oword oa)) ->
       links oa = [ll; lr] ->
       tree_in s ll TL ->
       tree_in s lr TR ->
       NoDup (ids T) ->
       shared T = [h] ->
       geto s h = Some oh ->
       strong (oword oh) = 2 ->
       destructed (oword oh) = false ->
       exists (n : nat) (s' : state) (oh' : obj),
         (n <= 11 * size T)%nat /\
         iter_micro n s t = s' /\
         (forall o : nat, In o (nodes T) -> exists ob : obj, geto s' o = Some ob /\ gone ob) /\
         geto s' h = Some oh' /\
         strong (oword oh') = 1 /\
         destructed (oword oh') = false /\
         weaked (oword oh') = weaked (oword oh) /\
         dropped oh' = dropped oh /\
         freed oh' = freed oh /\
         links oh' = links oh /\ pending s' = pending s /\ footprint s s' t x K (ids T).
Proof. exact RcTreeP.tree_cascade_survivor. Qed.
Print Assumptions C06_tree_cascade_survivor.

Theorem C06_tree5_hyps :
  let s := tree5_state 0 100 95 93 94 in
       let x := chain_thread [FDispEnter 1 0] in
       exists (oa : obj) (ll lr : link),
         gett s 0 = Some x /\
         frames x = [FDispEnter 1 0] /\
         Z.of_nat (height (Node 1 T5L T5R)) <= DEPTH_CAP /\
         epoch_ok (G s) /\
         geto s 1 = Some oa /\
         wordp (oword oa) /\
         destructed (oword oa) = true /\
         weaked (oword oa) = false /\
         old (G s) (epoch (oword oa)) /\
         links oa = [ll; lr] /\
         tree_in s ll T5L /\ tree_in s lr T5R /\ shared (Node 1 T5L T5R) = [] /\ NoDup (ids (Node 1 T5L T5R)).
Proof. exact RcTreeP.tree5_hyps. Qed.
Print Assumptions C06_tree5_hyps.

(* ---- chains of ANY length (RcChainAnyP.v): a chain of n old nodes is reclaimed by exactly ceil(n / DEPTH_CAP) executions of
   deferred functions (= grace periods that have to elapse one after the other): the length enters only through that
   quotient.  The induction composes cascade_cap (DEPTH_CAP nodes per pass, the next node re-deferred with a stamp that is
   old again one grace period later: C06_redeferred_stamp_old_next) and cascade_full; example: 1030 nodes, two passes. *)
Theorem C06_chain_any_length :
  forall (t : nat) (s : state) (x : thr) (K : list frame) (h : nat) (l : list nat) 
         (p : pend) (rest : list pend) (oh : obj) (lk : link),
       gett s t = Some x ->
       frames x = FMay :: K ->
       inclosure x = false ->
       unpinned s ->
       take_pending (pending s) KDestruct h = Some (p, rest) ->
       (forall r : pend, In r rest -> pk r = KDestruct -> ~ In (po r) l) ->
       let g := Z.max (G s) (pG p + EXPIRE_AFTER) in
       let n := Z.of_nat (length (h :: l)) in
       epoch_ok g ->
       geto s h = Some oh ->
       wordp (oword oh) ->
       strong (oword oh) = 0 ->
       weaked (oword oh) = false ->
       old g (epoch (oword oh)) ->
       links oh = [lk; null_link] ->
       chn s g (Init.Nat.pred capn) lk l ->
       NoDup (h :: l) ->
       exists (sched : list (nat * list Z)) (s' : state),
         mrun s sched = s' /\
         only t sched /\
         Z.of_nat (starts s sched) = (n - 1) / DEPTH_CAP + 1 /\
         (forall o : nat, In o (h :: l) -> exists ob : obj, geto s' o = Some ob /\ gone ob) /\
         pending s' = rest /\
         G s' = g + EXPIRE_AFTER * ((n - 1) / DEPTH_CAP) /\
         gett s' t = Some x /\
         err s' = err s /\
         cells s' = cells s /\
         (forall o : nat, ~ In o (h :: l) -> geto s' o = geto s o) /\
         (forall t' : nat, t' <> t -> gett s' t' = gett s t') /\ (EOK s -> EOK s').
Proof. exact RcChainAnyP.chain_any_length. Qed.
Print Assumptions C06_chain_any_length.

Theorem C06_passes_ceil :
  forall n : Z, 1 <= n -> (n - 1) / DEPTH_CAP + 1 = (n + DEPTH_CAP - 1) / DEPTH_CAP.
Proof. exact RcChainAnyP.passes_ceil. Qed.
Print Assumptions C06_passes_ceil.

Theorem C06_passes_bounds :
  forall n : Z, 1 <= n -> n / DEPTH_CAP <= (n - 1) / DEPTH_CAP + 1 <= n / DEPTH_CAP + 1.
Proof. exact RcChainAnyP.passes_bounds. Qed.
Print Assumptions C06_passes_bounds.

Theorem C06_chain_any_length_hyps :
  let s := ex_state in
       let g := Z.max (G s) (pG (any_entry 100) + EXPIRE_AFTER) in
       g = 100 /\
       gett s 0 = Some any_thread /\
       frames any_thread = [FMay] /\
       inclosure any_thread = false /\
       unpinned s /\
       take_pending (pending s) KDestruct 1 = Some (any_entry 100, []) /\
       epoch_ok g /\
       geto s 1 = Some (any_head ex_n 95 94) /\
       wordp (oword (any_head ex_n 95 94)) /\
       strong (oword (any_head ex_n 95 94)) = 0 /\
       weaked (oword (any_head ex_n 95 94)) = false /\
       old g (epoch (oword (any_head ex_n 95 94))) /\
       links (any_head ex_n 95 94) = [(2%nat, 15); null_link] /\
       chn s g (Init.Nat.pred capn) (2%nat, 15) ex_tail /\
       NoDup (1%nat :: ex_tail) /\ Z.of_nat (length (1%nat :: ex_tail)) = 1030.
Proof. exact RcChainAnyP.ex_hyps. Qed.
Print Assumptions C06_chain_any_length_hyps.

Theorem C06_chain_1030_two_passes :
  exists (sched : list (nat * list Z)) (s' : state),
         mrun ex_state sched = s' /\
         starts ex_state sched = 2%nat /\
         (forall o : nat, In o (1%nat :: ex_tail) -> exists ob : obj, geto s' o = Some ob /\ gone ob) /\
         pending s' = [] /\ G s' = 103 /\ err s' = 0.
Proof. exact RcChainAnyP.ex_two_passes. Qed.
Print Assumptions C06_chain_1030_two_passes.

Theorem C06_chain_1030_executed :
  let s' := mrun ex_state ex_sched in
       starts ex_state ex_sched = 2%nat /\
       count_dropped s' = 1030 /\
       forallb (fun ob : obj => dropped ob && freed ob && destructed (oword ob)) (objs s') = true /\
       pending s' = [] /\ err s' = 0 /\ G s' = 103 /\ option_map frames (gett s' 0) = Some [FMay].
Proof. exact RcChainAnyP.ex_exec. Qed.
Print Assumptions C06_chain_1030_executed.

Theorem C06_redeferred_stamp_old_next :
  forall g a1 a2 a3 : Z,
       epoch_ok g ->
       epoch_ok (g + EXPIRE_AFTER) ->
       old g a1 ->
       old g a2 ->
       old g a3 -> old (g + EXPIRE_AFTER) a3 -> old (g + EXPIRE_AFTER) (child_stamp g a1 a2 a3 mod 16).
Proof. exact RcChainAnyP.old_next. Qed.
Print Assumptions C06_redeferred_stamp_old_next.
