(* Deferred -- pinned statements only (generated once by tools/pin.py from `Check`, then fixed); proofs in DeferredP.v *)
From Coq Require Import ZArith List Bool Lia Arith.
Import ListNotations.
Require Import Params DeferredW DeferredP.
Local Open Scope Z_scope.

Theorem Deferred_inline_only_if_it_fits :
  forall size align : Z,
       0 <= size -> 0 < align -> stored_inline size align = true -> size <= 8 * DATA_WORDS /\ align <= 8.
Proof. exact DeferredP.inline_only_if_it_fits. Qed.
Print Assumptions Deferred_inline_only_if_it_fits.

Theorem Deferred_inline_if_it_fits :
  forall size align : Z,
       0 <= size <= 8 * DATA_WORDS -> 0 < align <= 8 -> stored_inline size align = true.
Proof. exact DeferredP.inline_if_it_fits. Qed.
Print Assumptions Deferred_inline_if_it_fits.

