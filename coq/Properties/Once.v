(* Once -- pinned statements only (generated once by tools/pin.py from `Check`, then fixed); proofs in OnceLockP.v *)
From Coq Require Import ZArith List Bool Lia Arith.
Import ListNotations.
Require Import OnceLock OnceLockP.
Local Open Scope Z_scope.

Theorem Once_init_inv :
  forall vals : list Z, Inv vals (init vals).
Proof. exact OnceLockP.init_inv. Qed.
Print Assumptions Once_init_inv.

Theorem Once_step_inv :
  forall (vals : list Z) (s : state) (t : nat) (s' : state),
       Inv vals s -> step s t = Some s' -> Inv vals s'.
Proof. exact OnceLockP.step_inv. Qed.
Print Assumptions Once_step_inv.

Theorem Once_once_at_most_one_execution :
  forall (vals : list Z) (sched : list nat), (length (runs (run (init vals) sched)) <= 1)%nat.
Proof. exact OnceLockP.once_at_most_one_execution. Qed.
Print Assumptions Once_once_at_most_one_execution.

Theorem Once_once_every_call_returns_the_initialised_value :
  forall (vals : list Z) (sched : list nat) (t : nat) (r : Z),
       let s := run (init vals) sched in
       In (t, r) (rets s) \/ nth_error (threads s) t = Some (PDone r) ->
       exists w : nat, runs s = [(w, r)] /\ nth_error vals w = Some r /\ slot s = Some r.
Proof. exact OnceLockP.once_every_call_returns_the_initialised_value. Qed.
Print Assumptions Once_once_every_call_returns_the_initialised_value.

Theorem Once_once_calls_agree :
  forall (vals : list Z) (sched : list nat) (t : nat) (r : Z) (t' : nat) (r' : Z),
       let s := run (init vals) sched in In (t, r) (rets s) -> In (t', r') (rets s) -> r = r'.
Proof. exact OnceLockP.once_calls_agree. Qed.
Print Assumptions Once_once_calls_agree.

Theorem Once_once_never_reads_an_uninitialised_slot :
  forall (vals : list Z) (sched : list nat), bad (run (init vals) sched) = false.
Proof. exact OnceLockP.once_never_reads_an_uninitialised_slot. Qed.
Print Assumptions Once_once_never_reads_an_uninitialised_slot.

Theorem Once_once_no_deadlock :
  forall (vals : list Z) (s : state) (t : nat) (p : pc),
       Inv vals s ->
       nth_error (threads s) t = Some p ->
       (forall r : Z, p <> PDone r) -> exists (q : nat) (s' : state), step s q = Some s'.
Proof. exact OnceLockP.once_no_deadlock. Qed.
Print Assumptions Once_once_no_deadlock.

Theorem Once_once_example :
  let s :=
         run (init [10; 20; 30])
           [1%nat; 1%nat; 1%nat; 0%nat; 0%nat; 0%nat; 1%nat; 1%nat; 2%nat; 2%nat; 1%nat; 1%nat; 0%nat; 0%nat;
            1%nat; 2%nat; 2%nat; 0%nat; 0%nat] in
       runs s = [(1%nat, 20)] /\ map (ret_of s) [0%nat; 1%nat; 2%nat] = [20; 20; 20] /\ bad s = false.
Proof. exact OnceLockP.once_example. Qed.
Print Assumptions Once_once_example.

Theorem Once_once_line_example :
  once_line [3; 10; 20; 30; 2; 0; 4; 3] = [1; 1; 1; 1; 0; 20; 20; 20].
Proof. exact OnceLockP.once_line_example. Qed.
Print Assumptions Once_once_line_example.

