(* EbrProto -- pinned statements only (generated once by tools/pin.py from `Check`, then fixed); proofs in EbrProtoP.v *)
From Coq Require Import ZArith List Bool Lia Arith.
Import ListNotations.
Require Import Params EpochW EbrProtoW Ebr EpochP EbrProtoP.
Local Open Scope Z_scope.

Theorem EbrProto_shape_ebr :
  forall (ge le gc gp pe : Z) (c mc : bool) (hc ac man : Z),
       length (E_adv_conds ge le) = 1%nat /\
       length (E_pin_conds gc gp ge pe) = 3%nat /\
       length (E_unpin_conds gc c mc hc) = 4%nat /\
       length (E_repin_conds le gp) = 1%nat /\
       length (E_sched_conds c gc) = 1%nat /\
       length (E_incadv_conds ac) = 1%nat /\
       length (E_incman_conds man) = 1%nat /\ length (E_relh_conds gc hc) = 1%nat.
Proof. exact EbrProtoP.shape_ebr. Qed.
Print Assumptions EbrProto_shape_ebr.

Theorem EbrProto_adv_blocked_decoded :
  forall (lq : local) (ge : Z),
       ep (ann lq) -> ep ge -> nb (E_adv_conds (2 * ge) (edata lq)) 0 = pinned lq && negb (ann lq =? ge).
Proof. exact EbrProtoP.adv_blocked_decoded. Qed.
Print Assumptions EbrProto_adv_blocked_decoded.

Theorem EbrProto_adv_new_epoch_decoded :
  forall ge le : Z, ep ge -> E_adv_new_epoch (2 * ge) le = 2 * (ge + 1).
Proof. exact EbrProtoP.adv_new_epoch_decoded. Qed.
Print Assumptions EbrProto_adv_new_epoch_decoded.

Theorem EbrProto_pin_outermost_decoded :
  forall (gc : nat) (gp ge pe : Z),
       nb (E_pin_conds (Z.of_nat gc) gp ge pe) 0 = match gc with
                                                   | 0%nat => true
                                                   | S _ => false
                                                   end.
Proof. exact EbrProtoP.pin_outermost_decoded. Qed.
Print Assumptions EbrProto_pin_outermost_decoded.

Theorem EbrProto_pin_announces_decoded :
  forall gc gp r pe : Z, ep r -> E_pin_new_epoch gc gp (2 * r) pe = 2 * r + 1.
Proof. exact EbrProtoP.pin_announces_decoded. Qed.
Print Assumptions EbrProto_pin_announces_decoded.

Theorem EbrProto_pin_validates_decoded :
  forall gc g r pe : Z, ep r -> ep g -> nb (E_pin_conds gc (2 * g) (2 * r) pe) 1 = (g =? r).
Proof. exact EbrProtoP.pin_validates_decoded. Qed.
Print Assumptions EbrProto_pin_validates_decoded.

Theorem EbrProto_pin_resets_counter_decoded :
  forall gc gp r pe : Z, ep r -> nb (E_pin_conds gc gp (2 * r) pe) 2 = negb (2 * r + 1 =? pe).
Proof. exact EbrProtoP.pin_resets_counter_decoded. Qed.
Print Assumptions EbrProto_pin_resets_counter_decoded.

Theorem EbrProto_unpin_decoded :
  forall (gc : nat) (c mc : bool) (hc : Z),
       nb (E_unpin_conds (Z.of_nat gc) c mc hc) 0 = (gc =? 1)%nat && negb c /\
       nb (E_unpin_conds (Z.of_nat gc) c mc hc) 1 = mc /\
       nb (E_unpin_conds (Z.of_nat gc) c mc hc) 2 = (gc =? 1)%nat.
Proof. exact EbrProtoP.unpin_decoded. Qed.
Print Assumptions EbrProto_unpin_decoded.

Theorem EbrProto_repin_decoded :
  forall (l : local) (g : Z),
       ep g ->
       nb (E_repin_conds (edata l) (2 * g)) 0 = negb (edata l =? 2 * g + 1) /\
       E_repin_global_epoch (edata l) (2 * g) = 2 * g + 1.
Proof. exact EbrProtoP.repin_decoded. Qed.
Print Assumptions EbrProto_repin_decoded.

Theorem EbrProto_sched_decoded :
  forall (c : bool) (gc : nat), nb (E_sched_conds c (Z.of_nat gc)) 0 = c && (gc =? 1)%nat.
Proof. exact EbrProtoP.sched_decoded. Qed.
Print Assumptions EbrProto_sched_decoded.

Theorem EbrProto_incadv_decoded :
  forall ac : Z,
       E_incadv_advance_count ac = (ac + 1) mod 2 ^ 64 /\
       nb (E_incadv_conds ac) 0 = (((ac + 1) mod 2 ^ 64) mod COUNTS_BETWEEN_ADVANCE =? 0).
Proof. exact EbrProtoP.incadv_decoded. Qed.
Print Assumptions EbrProto_incadv_decoded.

Theorem EbrProto_collect_trials_decoded :
  E_collect_trials = COLLECTS_TRIALS.
Proof. exact EbrProtoP.collect_trials_decoded. Qed.
Print Assumptions EbrProto_collect_trials_decoded.

Theorem EbrProto_ebr_adv19 :
  forall (s : state) (t : nat) (l : local) (k : list frame),
       getl s t = Some l ->
       forall (ge : Z) (q : nat) (rest : list nat) (lq : local),
       frames l = FAdv19 ge q rest :: k ->
       getl s q = Some lq ->
       ep (ann lq) ->
       ep ge ->
       micro s t =
       (let o := [19; Z.of_nat q; 0; 1219; Z.of_nat q; edata lq] in
        if nb (E_adv_conds (2 * ge) (edata lq)) 0
        then Some (setl s t (with_frames l k), o)
        else Some (setl s t (with_frames l (FAdvScan ge rest :: k)), o)).
Proof. exact EbrProtoP.ebr_adv19. Qed.
Print Assumptions EbrProto_ebr_adv19.

Theorem EbrProto_ebr_adv20 :
  forall (s : state) (t : nat) (l : local) (k : list frame),
       getl s t = Some l ->
       forall ge le : Z,
       frames l = FAdv20 ge :: k ->
       ep ge ->
       micro s t =
       Some
         ({|
            G := E_adv_new_epoch (2 * ge) le / 2;
            cap := cap s;
            registry := registry s;
            sealed := sealed s;
            threads := set_nth (threads s) t (with_frames l k);
            ran := ran s
          |}, [20; E_adv_new_epoch (2 * ge) le; 0]).
Proof. exact EbrProtoP.ebr_adv20. Qed.
Print Assumptions EbrProto_ebr_adv20.

Theorem EbrProto_ebr_unpin0 :
  forall (s : state) (t : nat) (l : local) (k : list frame),
       getl s t = Some l ->
       forall (mc : bool) (hc : Z),
       frames l = FUnpin0 :: k ->
       micro s t =
       (if nb (E_unpin_conds (Z.of_nat (gcnt l)) (collecting l) mc hc) 0
        then
         Some
           (setl s t
              (with_frames
                 {|
                   ann := ann l;
                   pinned := pinned l;
                   valid := valid l;
                   incs := false;
                   serial := serial l;
                   gcnt := gcnt l;
                   bag := bag l;
                   must_collect := must_collect l;
                   collecting := true;
                   advance_count := advance_count l;
                   prev_epoch := prev_epoch l;
                   frames := frames l;
                   prog := prog l;
                   registered := registered l
                 |} (FUnpinLoop :: k)), [])
        else Some (setl s t (with_frames l (FUnpinFin :: k)), [])).
Proof. exact EbrProtoP.ebr_unpin0. Qed.
Print Assumptions EbrProto_ebr_unpin0.

Theorem EbrProto_ebr_sched :
  forall (s : state) (t : nat) (l : local) (k : list frame),
       getl s t = Some l ->
       frames l = FSched :: k ->
       micro s t =
       (let l' :=
          {|
            ann := ann l;
            pinned := pinned l;
            valid := valid l;
            incs := incs l;
            serial := serial l;
            gcnt := gcnt l;
            bag := bag l;
            must_collect := true;
            collecting := collecting l;
            advance_count := advance_count l;
            prev_epoch := prev_epoch l;
            frames := frames l;
            prog := prog l;
            registered := registered l
          |} in
        if nb (E_sched_conds (collecting l) (Z.of_nat (gcnt l))) 0
        then Some (setl s t (with_frames l' (FRepin16 :: k)), [])
        else Some (setl s t (with_frames l' k), [])).
Proof. exact EbrProtoP.ebr_sched. Qed.
Print Assumptions EbrProto_ebr_sched.

Theorem EbrProto_ebr_repin16 :
  forall (s : state) (t : nat) (l : local) (k : list frame),
       getl s t = Some l ->
       frames l = FRepin16 :: k ->
       valid l = true ->
       incs l = false ->
       ep (G s) ->
       micro s t =
       (let o := [16; 0; 0; 1216; E_repin_global_epoch (edata l) (2 * G s); 0] in
        if nb (E_repin_conds (edata l) (2 * G s)) 0
        then Some (setl s t (with_frames l (FRepin17 (G s) :: k)), o)
        else Some (setl s t (with_frames l k), o)).
Proof. exact EbrProtoP.ebr_repin16. Qed.
Print Assumptions EbrProto_ebr_repin16.

Theorem EbrProto_ebr_defer_incr :
  forall (s : state) (t : nat) (l : local) (k : list frame),
       getl s t = Some l ->
       frames l = FDeferIncr :: k ->
       micro s t =
       (let l' :=
          {|
            ann := ann l;
            pinned := pinned l;
            valid := valid l;
            incs := incs l;
            serial := serial l;
            gcnt := gcnt l;
            bag := bag l;
            must_collect := must_collect l;
            collecting := collecting l;
            advance_count := E_incadv_advance_count (advance_count l);
            prev_epoch := prev_epoch l;
            frames := frames l;
            prog := prog l;
            registered := registered l
          |} in
        if nb (E_incadv_conds (advance_count l)) 0
        then Some (setl s t (with_frames l' (FAdv18 :: k)), [])
        else Some (setl s t (with_frames l' k), [])).
Proof. exact EbrProtoP.ebr_defer_incr. Qed.
Print Assumptions EbrProto_ebr_defer_incr.

Theorem EbrProto_ebr_collect_pop :
  forall (s : state) (t : nat) (l : local) (k : list frame),
       getl s t = Some l ->
       forall i : nat,
       frames l = FCollectPop i :: k ->
       micro s t =
       (if (i <? Z.to_nat E_collect_trials)%nat
        then Some (setl s t (with_frames l (FCollect23 i :: k)), [])
        else Some (setl s t (with_frames l k), [])).
Proof. exact EbrProtoP.ebr_collect_pop. Qed.
Print Assumptions EbrProto_ebr_collect_pop.

Theorem EbrProto_ebr_pin12 :
  forall (s : state) (t : nat) (l : local) (k : list frame),
       getl s t = Some l ->
       forall r gc gp pe : Z,
       frames l = FPin12 r :: k ->
       ep r ->
       ep (G s) ->
       micro s t =
       (if nb (E_pin_conds gc (2 * G s) (2 * r) pe) 1
        then
         let newdata := E_pin_new_epoch gc gp (2 * r) pe in
         Some
           (setl s t
              (with_frames
                 {|
                   ann := ann l;
                   pinned := pinned l;
                   valid := true;
                   incs := negb (collecting l);
                   serial := if collecting l then serial l else S (serial l);
                   gcnt := gcnt l;
                   bag := bag l;
                   must_collect := must_collect l;
                   collecting := collecting l;
                   advance_count :=
                     if nb (E_pin_conds gc gp (2 * r) (prev_epoch l)) 2 then 0 else advance_count l;
                   prev_epoch := newdata;
                   frames := frames l;
                   prog := prog l;
                   registered := registered l
                 |} k), [12; 0; 0])
        else Some (setl s t (with_frames l (FPin13 :: k)), [12; 0; 0])).
Proof. exact EbrProtoP.ebr_pin12. Qed.
Print Assumptions EbrProto_ebr_pin12.

