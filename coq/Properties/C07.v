(* C07 -- pinned statements only (generated once by tools/pin.py from `Check`, then fixed); proofs in RcDepthP.v *)
From Coq Require Import ZArith List Bool Lia Arith.
Import ListNotations.
Require Import Params StateW DisposeW Rc RcDepthP.
Local Open Scope Z_scope.

Theorem C07_depth_cap_value :
  DEPTH_CAP = 1024.
Proof. exact RcDepthP.depth_cap_value. Qed.
Print Assumptions C07_depth_cap_value.

Theorem C07_depth_bound_runs :
  forall (prog : list Z) (sched : list (nat * list Z)) (t : nat) (x : thr),
       gett (srun (init prog) sched) t = Some x ->
       Z.of_nat (length (working_depths (frames x))) <= DEPTH_CAP /\
       Z.of_nat (length (depths (frames x))) <= DEPTH_CAP + 1 /\
       decreasing (depths (frames x)) /\
       (forall (f : frame) (d : Z),
        In f (frames x) ->
        disp_depth f = Some d -> 0 <= d <= DEPTH_CAP /\ (entered f = false -> d < DEPTH_CAP)).
Proof. exact RcDepthP.depth_bound_runs. Qed.
Print Assumptions C07_depth_bound_runs.

Theorem C07_invariant_preserved :
  forall (s : state) (t : nat) (rec : list Z) (s' : state) (obs : list Z),
       DInv s -> micro s t rec = Some (s', obs) -> DInv s'.
Proof. exact RcDepthP.micro_dinv. Qed.
Print Assumptions C07_invariant_preserved.

Theorem C07_invariant_preserved_step :
  forall (s : state) (t : nat) (rec : list Z) (s' : state) (obs : list Z),
       DInv s -> step s t rec = Some (s', obs) -> DInv s'.
Proof. exact RcDepthP.step_dinv. Qed.
Print Assumptions C07_invariant_preserved_step.

Theorem C07_invariant_initial :
  forall prog : list Z, DInv (init prog).
Proof. exact RcDepthP.init_dinv. Qed.
Print Assumptions C07_invariant_initial.

Theorem C07_enter_at_cap_defers :
  forall (s : state) (t : nat) (rec : list Z) (x : thr) (o : nat) (d : Z) (k : list frame),
       gett s t = Some x ->
       frames x = FDispEnter o d :: k ->
       DEPTH_CAP <= d ->
       exists obs : list Z, micro s t rec = Some (sett (defer s KDestruct o) t (with_frames x k), obs).
Proof. exact RcDepthP.enter_at_cap_defers. Qed.
Print Assumptions C07_enter_at_cap_defers.

Theorem C07_dinv_nonvacuous :
  stack_ok [FDispEnter 3 2; FKids 1 0 0 []; FKids 0 0 0 []; FEndClosure; FMay; FOpEnd 0; FOp] /\
       td_clean [FDispEnter 3 2; FKids 1 0 0 []; FKids 0 0 0 []; FEndClosure; FMay; FOpEnd 0; FOp].
Proof. exact RcDepthP.dinv_nonvacuous. Qed.
Print Assumptions C07_dinv_nonvacuous.

