(* ApiTag -- pinned statements only (generated once by tools/pin.py from `Check`, then fixed); proofs in ApiTagP.v *)
From Coq Require Import ZArith List Bool Lia Arith.
Import ListNotations.
Require Import Params TaggedW ApiTagW TaggedP ApiTagP.
Local Open Scope Z_scope.

Theorem ApiTag_rc_delegates :
  delegates rc_is_null rc_tag rc_with_tag rc_ptr_eq.
Proof. exact ApiTagP.rc_delegates. Qed.
Print Assumptions ApiTag_rc_delegates.

Theorem ApiTag_snap_delegates :
  delegates snap_is_null snap_tag snap_with_tag snap_ptr_eq.
Proof. exact ApiTagP.snap_delegates. Qed.
Print Assumptions ApiTag_snap_delegates.

Theorem ApiTag_weak_delegates :
  delegates weak_is_null weak_tag weak_with_tag weak_ptr_eq.
Proof. exact ApiTagP.weak_delegates. Qed.
Print Assumptions ApiTag_weak_delegates.

Theorem ApiTag_wsnap_delegates :
  delegates wsnap_is_null wsnap_tag wsnap_with_tag wsnap_ptr_eq.
Proof. exact ApiTagP.wsnap_delegates. Qed.
Print Assumptions ApiTag_wsnap_delegates.

Theorem ApiTag_as_ref_tests_null :
  forall k p : Z, rc_as_ref_is_none k p = t_is_null k p /\ snap_as_ref_is_none k p = t_is_null k p.
Proof. exact ApiTagP.as_ref_tests_null. Qed.
Print Assumptions ApiTag_as_ref_tests_null.

Theorem ApiTag_delegates_ok :
  forall (is_null : Z -> Z -> bool) (tag : Z -> Z -> Z) (with_tag : Z -> Z -> Z -> Z)
         (ptr_eq : Z -> Z -> Z -> bool),
       delegates is_null tag with_tag ptr_eq -> handle_ok is_null tag with_tag ptr_eq.
Proof. exact ApiTagP.delegates_ok. Qed.
Print Assumptions ApiTag_delegates_ok.

Theorem ApiTag_C11_handles :
  handle_ok rc_is_null rc_tag rc_with_tag rc_ptr_eq /\
       handle_ok snap_is_null snap_tag snap_with_tag snap_ptr_eq /\
       handle_ok weak_is_null weak_tag weak_with_tag weak_ptr_eq /\
       handle_ok wsnap_is_null wsnap_tag wsnap_with_tag wsnap_ptr_eq.
Proof. exact ApiTagP.C11_handles. Qed.
Print Assumptions ApiTag_C11_handles.

