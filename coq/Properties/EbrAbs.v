(* EbrAbs -- pinned statements only (generated once by tools/pin.py from `Check`, then fixed); proofs in EbrAbsP.v *)
From Coq Require Import ZArith List Bool Lia Arith.
Import ListNotations.
Require Import Params Ebr EbrP EbrAbsP.
Local Open Scope Z_scope.

Theorem EbrAbs_abs_advance_rule :
  forall (s : state) (t : nat) (s' : state) (o : list Z),
       Inv s ->
       micro s t = Some (s', o) ->
       G s' <> G s ->
       G s' = G s + 1 /\
       (forall (q : nat) (lq : local), nth_error (threads s) q = Some lq -> incs lq = true -> ann lq = G s).
Proof. exact EbrAbsP.abs_advance_rule. Qed.
Print Assumptions EbrAbs_abs_advance_rule.

Theorem EbrAbs_abs_enter_rule :
  forall (s : state) (t : nat) (s' : state) (o : list Z) (q : nat) (lq lq' : local),
       Inv s ->
       micro s t = Some (s', o) ->
       nth_error (threads s) q = Some lq ->
       nth_error (threads s') q = Some lq' ->
       incs lq = false ->
       incs lq' = true -> q = t /\ ann lq' = G s /\ G s' = G s /\ serial lq' = S (serial lq).
Proof. exact EbrAbsP.abs_enter_rule. Qed.
Print Assumptions EbrAbs_abs_enter_rule.

Theorem EbrAbs_abs_run_rule :
  forall (s : state) (t : nat) (l : local) (d : def) (rest : list def) (k : list frame),
       Inv s ->
       nth_error (threads s) t = Some l ->
       frames l = FRunItems (d :: rest) :: k ->
       dG d + EXPIRE_AFTER <= G s /\
       (forall (q n : nat) (lq : local),
        In (q, n) (wit d) -> nth_error (threads s) q = Some lq -> ~ (incs lq = true /\ serial lq = n)).
Proof. exact EbrAbsP.abs_run_rule. Qed.
Print Assumptions EbrAbs_abs_run_rule.

Theorem EbrAbs_ebr_obeys_abstract_layer :
  forall (c : nat) (g0 : Z) (progs : list (list cmd)) (sched : list nat) (t : nat) 
         (s' : state) (o : list Z),
       let s := mrun (init_state c g0 progs) sched in
       micro s t = Some (s', o) ->
       (G s' <> G s ->
        G s' = G s + 1 /\
        (forall (q : nat) (lq : local), nth_error (threads s) q = Some lq -> incs lq = true -> ann lq = G s)) /\
       (forall (q : nat) (lq lq' : local),
        nth_error (threads s) q = Some lq ->
        nth_error (threads s') q = Some lq' ->
        incs lq = false ->
        incs lq' = true -> q = t /\ ann lq' = G s /\ G s' = G s /\ serial lq' = S (serial lq)) /\
       (forall (l : local) (d : def) (rest : list def) (k : list frame),
        nth_error (threads s) t = Some l ->
        frames l = FRunItems (d :: rest) :: k ->
        dG d + EXPIRE_AFTER <= G s /\
        (forall (q n : nat) (lq : local),
         In (q, n) (wit d) -> nth_error (threads s) q = Some lq -> ~ (incs lq = true /\ serial lq = n))) /\
       (forall (l : local) (d : def) (k : list frame),
        nth_error (threads s) t = Some l ->
        frames l = FDefer d :: k ->
        (length (bag l) < cap s)%nat ->
        exists l' : local,
          nth_error (threads s') t = Some l' /\
          bag l' = bag l ++ [{| did := did d; dbody := dbody d; dG := G s; wit := witnesses s |}]).
Proof. exact EbrAbsP.ebr_obeys_abstract_layer. Qed.
Print Assumptions EbrAbs_ebr_obeys_abstract_layer.

