(* C17 -- pinned statements only (generated once by tools/pin.py from `Check`, then fixed); proofs in QueueP.v *)
From Coq Require Import ZArith List Bool Lia Arith.
Import ListNotations.
Require Import Queue QueueP.
Local Open Scope Z_scope.

Theorem C17_invariant_reachable :
  forall (prog : list Z) (s : state) (g : ghost),
       greach prog s g -> exists Lp Lq : list Z, Inv s g Lp Lq.
Proof. exact QueueP.Inv_reach. Qed.
Print Assumptions C17_invariant_reachable.

Theorem C17_structure :
  forall (prog : list Z) (s : state) (g : ghost),
       greach prog s g ->
       exists Lp Lq : list Z,
         seg (heap s) 1 (Lp ++ head s :: Lq) 0 /\
         NoDup (Lp ++ head s :: Lq) /\
         (forall x : Z, In x (Lp ++ head s :: Lq) -> 0 < x < fresh s) /\
         In (tail s) (Lp ++ head s :: Lq) /\
         (forall x : Z, 0 < x -> ~ In x (Lp ++ head s :: Lq) -> nextof (heap s) x = 0) /\
         fresh s = Z.of_nat (length (heap s)) /\ absq_ids s = Lq /\ 1 :: g_popped_ids g = Lp ++ [head s].
Proof. exact QueueP.C17_structure. Qed.
Print Assumptions C17_structure.

Theorem C17_write_once :
  forall (prog : list Z) (s : state) (g : ghost) (t : nat) (s' : state) (o : list obs),
       greach prog s g ->
       stepT s t = Some (s', o) ->
       (forall x : Z, nextof (heap s) x <> 0 -> nextof (heap s') x = nextof (heap s) x) /\
       (forall x : Z, 0 < x < fresh s -> valof (heap s') x = valof (heap s) x) /\ fresh s <= fresh s'.
Proof. exact QueueP.C17_write_once. Qed.
Print Assumptions C17_write_once.

Theorem C17_fresh_id :
  forall (s : state) (t : nat) (s' : state) (o : list obs) (id : Z),
       stepT s t = Some (s', o) -> In (1229, id, 0) o -> id = fresh s /\ fresh s' = id + 1.
Proof. exact QueueP.C17_fresh_id. Qed.
Print Assumptions C17_fresh_id.

Theorem C17_lp :
  forall (prog : list Z) (s : state) (g : ghost) (t : nat) (s' : state) (o : list obs),
       greach prog s g ->
       stepT s t = Some (s', o) ->
       match kind_of s o with
       | KPush _ new =>
           exists v : Z, g_op (gt g t) = Some (0, v) /\ valof (heap s) new = v /\ absq s' = absq s ++ [v]
       | KPop _ n =>
           exists r : list Z,
             absq s = valof (heap s) n :: r /\
             absq s' = r /\ g_lp (gt (mon s t o s' g) t) = Some (valof (heap s) n)
       | KOther => absq s' = absq s
       end.
Proof. exact QueueP.C17_lp. Qed.
Print Assumptions C17_lp.

Theorem C17_push_lp :
  forall (prog : list Z) (s : state) (g : ghost) (t : nat) (s' : state) (o : list obs),
       greach prog s g ->
       stepT s t = Some (s', o) ->
       (forall onto new : Z,
        kind_of s o = KPush onto new -> exists v : Z, g_op (gt g t) = Some (0, v) /\ absq s' = absq s ++ [v]) /\
       (forall h n : Z, kind_of s o = KPop h n -> exists v : Z, absq s = v :: absq s') /\
       (kind_of s o = KOther -> absq s' = absq s).
Proof. exact QueueP.C17_push_lp. Qed.
Print Assumptions C17_push_lp.

Theorem C17_pop_lp :
  forall (prog : list Z) (s : state) (g : ghost) (t : nat) (s' : state) (o : list obs),
       greach prog s g ->
       stepT s t = Some (s', o) ->
       (forall h n : Z,
        kind_of s o = KPop h n ->
        exists v : Z, absq s = v :: absq s' /\ g_lp (gt (mon s t o s' g) t) = Some v) /\
       (forall v : Z, In (2000, 1, v) o -> g_lp (gt g t) = Some v /\ g_lp (gt (mon s t o s' g) t) = Some v).
Proof. exact QueueP.C17_pop_lp. Qed.
Print Assumptions C17_pop_lp.

Theorem C17_fifo :
  forall (prog : list Z) (s : state) (g : ghost),
       greach prog s g ->
       g_pushed g = g_popped g ++ absq s /\
       NoDup (g_popped_ids g) /\ g_popped g = map (valof (heap s)) (g_popped_ids g).
Proof. exact QueueP.C17_fifo. Qed.
Print Assumptions C17_fifo.

Theorem C17_pop_if_elem :
  forall (prog : list Z) (s : state) (g : ghost) (t : nat) (s' : state) (o : list obs),
       greach prog s g ->
       stepT s t = Some (s', o) ->
       (forall h n : Z,
        kind_of s o = KPop h n ->
        site_of o = 42 ->
        exists c v : Z,
          g_op (gt g t) = Some (2, c) /\ absq s = v :: absq s' /\ g_pred (gt g t) = Some v /\ v < c) /\
       (forall v c : Z,
        In (2000, 1, v) o ->
        g_op (gt g t) = Some (2, c) -> g_pred (gt g t) = Some v /\ g_lp (gt g t) = Some v /\ v < c).
Proof. exact QueueP.C17_pop_if_elem. Qed.
Print Assumptions C17_pop_if_elem.

Theorem C17_none :
  forall (prog : list Z) (s : state) (g : ghost) (t : nat) (s' : state) (o : list obs),
       greach prog s g ->
       stepT s t = Some (s', o) ->
       In (2000, 0, 0) o ->
       (site_of o = 36 \/ site_of o = 41) /\
       (absq s = [] \/
        (exists c v : Z,
           site_of o = 41 /\
           g_op (gt g t) = Some (2, c) /\
           In (2001, v, 0) o /\
           ~ v < c /\ In v (g_fronts (gt g t)) /\ (arg1_of o = head s -> exists r : list Z, absq s = v :: r))).
Proof. exact QueueP.C17_none. Qed.
Print Assumptions C17_none.

Theorem C17_one_removal_per_op :
  forall (prog : list Z) (s : state) (g : ghost) (t : nat) (s' : state) (o : list obs),
       greach prog s g ->
       stepT s t = Some (s', o) ->
       (forall h n : Z, kind_of s o = KPop h n -> g_lp (gt g t) = None) /\
       (In (2000, 0, 0) o \/ In (2000, 2, 0) o -> g_lp (gt g t) = None).
Proof. exact QueueP.C17_one_removal_per_op. Qed.
Print Assumptions C17_one_removal_per_op.

Theorem C17_none_stale_head :
  exists (s : state) (g : ghost) (t : nat) (s' : state) (o : list obs),
         greach ex_prog s g /\
         stepT s t = Some (s', o) /\
         In (2000, 0, 0) o /\
         In (2001, 4, 0) o /\
         site_of o = 41 /\
         g_op (gt g t) = Some (2, 3) /\
         absq s = [1] /\ 1 < 3 /\ In 4 (g_fronts (gt g t)) /\ arg1_of o <> head s.
Proof. exact QueueP.C17_none_stale_head. Qed.
Print Assumptions C17_none_stale_head.

