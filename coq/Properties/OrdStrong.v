(* memory orderings of src/strong.rs: at least those of the reference table (see OrderP.v) *)
From Coq Require Import ZArith List Bool String.
Import ListNotations.
Require Import OrderW OrderRef OrderP.
Local Open Scope string_scope.

Theorem orderings_strong_cover_reference :
  files_ok ["src/strong.rs"] = true.
Proof. vm_compute. reflexivity. Qed.
Print Assumptions orderings_strong_cover_reference.
