(* C15 -- pinned statements only (generated once by tools/pin.py from `Check`, then fixed); proofs in EbrConserveP.v *)
From Coq Require Import ZArith List Bool Lia Arith.
Import ListNotations.
Require Import Params Ebr EbrP EbrConserveP EbrDrainP.
Local Open Scope Z_scope.

Theorem C15_micro_conserves :
  forall (s : state) (t : nat) (s' : state) (o : list Z),
       WF s -> micro s t = Some (s', o) -> Permutation.Permutation (state_ids s') (state_ids s).
Proof. exact EbrConserveP.micro_conserves. Qed.
Print Assumptions C15_micro_conserves.

Theorem C15_micro_no_gain :
  forall (s : state) (t : nat) (s' : state) (o : list Z) (x : Z),
       micro s t = Some (s', o) -> (cnt x (state_ids s') <= cnt x (state_ids s))%nat.
Proof. exact EbrConserveP.micro_no_gain. Qed.
Print Assumptions C15_micro_no_gain.

Theorem C15_micro_wf :
  forall (s : state) (t : nat) (s' : state) (o : list Z), WF s -> micro s t = Some (s', o) -> WF s'.
Proof. exact EbrConserveP.micro_wf. Qed.
Print Assumptions C15_micro_wf.

Theorem C15_srun_conserves :
  forall (sched : list nat) (s : state),
       WF s -> WF (srun s sched) /\ Permutation.Permutation (state_ids (srun s sched)) (state_ids s).
Proof. exact EbrConserveP.srun_conserves. Qed.
Print Assumptions C15_srun_conserves.

Theorem C15_init_state_ids :
  forall (c : nat) (g0 : Z) (progs : list (list cmd)),
       state_ids (init_state c g0 progs) = flat_map cmds_ids progs.
Proof. exact EbrConserveP.init_state_ids. Qed.
Print Assumptions C15_init_state_ids.

Theorem C15_init_WF :
  forall (c : nat) (g0 : Z) (progs : list (list cmd)), WF (init_state c g0 progs).
Proof. exact EbrConserveP.init_WF. Qed.
Print Assumptions C15_init_WF.

Theorem C15_micro_runs :
  forall (s : state) (t : nat) (s' : state) (o : list Z),
       micro s t = Some (s', o) ->
       ran s' = ran s \/
       (exists (l : local) (d : def) (rest : list def) (k : list frame),
          nth_error (threads s) t = Some l /\
          frames l = FRunItems (d :: rest) :: k /\
          0 <= did d /\
          ran s' = did d :: ran s /\
          (exists l' : local,
             nth_error (threads s') t = Some l' /\ frames l' = FCmds (dbody d) :: FRunItems rest :: k)).
Proof. exact EbrConserveP.micro_runs. Qed.
Print Assumptions C15_micro_runs.

Theorem C15_srun_ran_grows :
  forall (sched : list nat) (s : state), exists l : list Z, ran (srun s sched) = l ++ ran s.
Proof. exact EbrConserveP.srun_ran_grows. Qed.
Print Assumptions C15_srun_ran_grows.

Theorem C15_exactly_once :
  forall (c : nat) (g0 : Z) (progs : list (list cmd)),
       NoDup (flat_map cmds_ids progs) ->
       forall sched : list nat,
       let s := srun (init_state c g0 progs) sched in
       NoDup (ran s) /\
       NoDup (held_ids s) /\
       (forall x : Z, In x (state_ids s) <-> In x (flat_map cmds_ids progs)) /\
       (forall x : Z,
        In x (flat_map cmds_ids progs) ->
        cnt x (ran s) = 1%nat /\ cnt x (held_ids s) = 0%nat \/
        cnt x (ran s) = 0%nat /\ cnt x (held_ids s) = 1%nat).
Proof. exact EbrConserveP.C15_exactly_once. Qed.
Print Assumptions C15_exactly_once.

Theorem C15_exactly_once_micro :
  forall (c : nat) (g0 : Z) (progs : list (list cmd)),
       NoDup (flat_map cmds_ids progs) ->
       forall sched : list nat,
       let s := mrun (init_state c g0 progs) sched in
       NoDup (ran s) /\
       NoDup (held_ids s) /\
       (forall x : Z, In x (state_ids s) <-> In x (flat_map cmds_ids progs)) /\
       (forall x : Z,
        In x (flat_map cmds_ids progs) ->
        cnt x (ran s) = 1%nat /\ cnt x (held_ids s) = 0%nat \/
        cnt x (ran s) = 0%nat /\ cnt x (held_ids s) = 1%nat).
Proof. exact EbrConserveP.C15_exactly_once_micro. Qed.
Print Assumptions C15_exactly_once_micro.

Theorem C15_try_advance_increments :
  forall (s : state) (t : nat) (l : local) (k : list frame),
       getl s t = Some l ->
       frames l = FAdv18 :: k ->
       valid l = true ->
       passes (G s) l ->
       (forall p : nat,
        In p (registry s) -> p <> t -> exists lp : local, getl s p = Some lp /\ passes (G s) lp) ->
       miter (2 * length (registry s) + 3) s t = foc s t (G s + 1) (sealed s) (ran s) (with_frames l k).
Proof. exact EbrConserveP.try_advance_increments. Qed.
Print Assumptions C15_try_advance_increments.

Theorem C15_drain :
  forall (s : state) (t : nat) (l : local) (k : nat),
       WF s ->
       getl s t = Some l ->
       (forall p : nat,
        In p (registry s) -> p <> t -> exists lp : local, getl s p = Some lp /\ pinned lp = false) ->
       (forall (p : nat) (lp : local), getl s p = Some lp -> p <> t -> local_ids lp = []) ->
       (TR <= cap s)%nat ->
       frames l = [FOp] ->
       prog l = rounds k ->
       pinned l = false ->
       gcnt l = 0%nat ->
       collecting l = false ->
       Forall flat (bag l) ->
       flatq (sealed s) ->
       Forall (fun bq : Z * list def => fst bq <= G s) (sealed s) ->
       (length (sealed s) + 3 <= k)%nat ->
       exists n : nat,
         held_ids (miter n s t) = [] /\ Permutation.Permutation (ran (miter n s t)) (state_ids s).
Proof. exact EbrConserveP.C15_drain. Qed.
Print Assumptions C15_drain.

(* ---- progress for deferred functions whose bodies defer again (EbrDrainP.v): nesting depth d (depth_le: bodies made of
   defer, flush and balanced pin/unpin, repin only under a body-level pin), no bag overflow (capacity hypothesis), a number of
   rounds linear in the queue length (rbound); the flat theorem C15_drain is the instance d = 0 *)
Theorem C15_drain_nested :
  forall (s : state) (t : nat) (l : local) (k d : nat),
       WF s ->
       getl s t = Some l ->
       (forall p : nat,
        In p (registry s) -> p <> t -> exists lp : local, getl s p = Some lp /\ pinned lp = false) ->
       (forall (p : nat) (lp : local), getl s p = Some lp -> p <> t -> local_ids lp = []) ->
       (qsz (sealed s) + wsz (bag l) + TR * (qfl (sealed s) + wfl (bag l) + 1) <= cap s)%nat ->
       frames l = [FOp] ->
       prog l = rounds k ->
       pinned l = false ->
       gcnt l = 0%nat ->
       collecting l = false ->
       Forall (depth_le d) (bag l) ->
       Forall (fun bq : Z * list def => Forall (depth_le d) (snd bq)) (sealed s) ->
       Forall (fun bq : Z * list def => fst bq <= G s) (sealed s) ->
       (rbound (S d) (length (sealed s) + qfl (sealed s) + wfl (bag l)) <= k)%nat ->
       exists n : nat,
         held_ids (miter n s t) = [] /\ Permutation.Permutation (ran (miter n s t)) (state_ids s).
Proof. exact EbrDrainP.C15_drain_nested. Qed.
Print Assumptions C15_drain_nested.

Theorem C15_drain_nested_example :
  exists n : nat,
         held_ids (miter n NestedDemo.s8 0) = [] /\
         Permutation.Permutation (ran (miter n NestedDemo.s8 0)) [1; 2; 3; 4].
Proof. exact EbrDrainP.NestedDemo.nested_demo. Qed.
Print Assumptions C15_drain_nested_example.
