(* C20 -- The library is usable during thread start-up and tear-down.
   Only the pinned statements; each is closed by `exact` of a lemma of GuardSeqP.v / GuardSeqT.v /
   GuardSeqL.v about the model GuardSeq.v (M6), followed by Print Assumptions. *)
From Coq Require Import ZArith List Bool.
Import ListNotations.
Require Import GuardSeq GuardSeqP GuardSeqT GuardSeqL.
Local Open Scope Z_scope.

(* no well-formed program of realistic size ever reaches an error outcome of the model:
   no panic (guard_count overflow), no ill-formed access, and the collection loop terminates *)
Theorem C20_no_stuck : forall mo p, wf_prog p = true -> 2 <= mo -> bsize p <= 262144 ->
  err (run (init_state mo) p) = 0.
Proof. exact GuardSeqT.C20_no_stuck. Qed.
Print Assumptions C20_no_stuck.

Theorem C20_no_stuck_step : forall mo p o q, wf_prog (p ++ o :: q) = true -> 2 <= mo ->
  bsize (p ++ o :: q) <= 262144 ->
  err (run (init_state mo) p) = 0 /\ exists s', step_res (run (init_state mo) p) o = Ok s'.
Proof. exact GuardSeqT.C20_no_stuck_step. Qed.
Print Assumptions C20_no_stuck_step.

(* without the size / MAX_OBJECTS hypotheses: only the two documented outcomes remain *)
Theorem C20_no_stuck_codes : forall mo p, wf_prog p = true ->
  let s := run (init_state mo) p in
  err s = 0 \/ err s = E_OVERFLOW \/ err s = E_LOOP.
Proof. exact GuardSeqP.C20_no_stuck_codes. Qed.
Print Assumptions C20_no_stuck_codes.

Theorem C20_handover : forall mo p, wf_prog p = true ->
  let s := run (init_state mo) p in
  err s = 0 -> handle_alive s = false -> live s = [] ->
  finalized s = true /\ bag s = [] /\ pinned s = false /\
  forall x, 0 <= x ->
    cnt x (deferred s) = cnt x (log s) + cnt x (map cid (concat (map snd (sealed s)))).
Proof. exact GuardSeqP.C20_handover. Qed.
Print Assumptions C20_handover.

Theorem C20_all_run : forall mo p, wf_prog p = true ->
  let s := run (init_state mo) p in
  err s = 0 -> coll_alive s = false ->
  finalized s = true /\ sealed s = [] /\ bag s = [] /\
  forall x, 0 <= x -> cnt x (deferred s) = cnt x (log s).
Proof. exact GuardSeqP.C20_all_run. Qed.
Print Assumptions C20_all_run.

Theorem C20_exit_finalizes : forall s o a' s', reachable s ->
  wf_op (abs_of s) o = Some a' -> step_res s o = Ok s' ->
  handle_alive s' = false -> live s' = [] -> finalized s' = true /\ bag s' = [].
Proof. exact GuardSeqP.C20_exit_finalizes. Qed.
Print Assumptions C20_exit_finalizes.

(* thread-local HANDLE in any state (uninitialised / alive / destroyed) *)
Theorem C20_tls_no_loss : forall order calls,
  let t := tls_thread order calls in
  tguards t = [] -> tglobal t = treleased t /\ tbag t = 0.
Proof. exact GuardSeqL.C20_tls_no_loss. Qed.
Print Assumptions C20_tls_no_loss.

Theorem C20_tls_line_balanced :
  forallb (fun order => forallb (fun ks =>
     match tls_line (64 :: order :: ks) with [a; b] => a =? b | _ => false end) seqs) [0; 1; 2] = true.
Proof. exact GuardSeqL.tls_line_balanced. Qed.
Print Assumptions C20_tls_line_balanced.
