(* C19 -- Eq, Ord, PartialOrd and Hash on Rc and Snapshot agree with the same operations on
   Option<&T> of the referent (so two distinct objects with equal contents are equal, null equals
   only null), while ptr_eq compares identity plus tag; these relations are consistent with each
   other (Eq/Ord/Hash laws).

   This file contains only the pinned statements; each is closed by `exact` of a lemma proved in
   TraitsP.v about the model of Traits.v, followed by Print Assumptions.  The premises
       forall x, cmpT x x = Eq
       forall x y, cmpT y x = CompOpp (cmpT x y)
       forall c x y z, cmpT x y = c -> cmpT y z = c -> cmpT x z = c
       forall x y, cmpT x y = Eq -> hashT x = hashT y
   are the obligations that Rust's Ord / Hash contracts put on the user's payload type T; every
   theorem lists exactly the ones it needs.  `h` is the heap both pointers point into. *)
From Coq Require Import ZArith List Bool.
Import ListNotations.
Require Import Traits TraitsP.
Local Open Scope Z_scope.

(* --- agreement with Option<&T> --- *)
Theorem C19_agree_with_option :
  forall (T : Type) (cmpT : T -> T -> comparison) (hashT : T -> Z) (h : heap T) (p q : ptr),
  eq T cmpT h p q = opt_eq T cmpT (as_ref T h p) (as_ref T h q) /\
  cmp T cmpT h p q = opt_cmp T cmpT (as_ref T h p) (as_ref T h q) /\
  partial_cmp T cmpT h p q = Some (opt_cmp T cmpT (as_ref T h p) (as_ref T h q)) /\
  hash T hashT h p = opt_hash T hashT (as_ref T h p).
Proof. exact TraitsP.agree_with_option. Qed.
Print Assumptions C19_agree_with_option.

Theorem C19_nonnull_by_contents :
  forall (T : Type) (cmpT : T -> T -> comparison) (hashT : T -> Z) (h : heap T) (p q : ptr) (x y : T),
  is_null p = false -> is_null q = false -> h (obj p) = Some x -> h (obj q) = Some y ->
  cmp T cmpT h p q = cmpT x y /\
  eq T cmpT h p q = eqT T cmpT x y /\
  (hashT x = hashT y -> hash T hashT h p = hash T hashT h q).
Proof. exact TraitsP.nonnull_by_contents. Qed.
Print Assumptions C19_nonnull_by_contents.

(* two distinct objects with equal contents are equal (obj p, obj q are unconstrained) *)
Theorem C19_distinct_objects_equal_contents :
  forall (T : Type) (cmpT : T -> T -> comparison) (hashT : T -> Z),
  (forall x y, cmpT x y = Eq -> hashT x = hashT y) ->
  forall (h : heap T) (p q : ptr) (x y : T),
  is_null p = false -> is_null q = false -> h (obj p) = Some x -> h (obj q) = Some y ->
  cmpT x y = Eq ->
  eq T cmpT h p q = true /\ cmp T cmpT h p q = Eq /\ hash T hashT h p = hash T hashT h q.
Proof. exact TraitsP.distinct_objects_equal_contents. Qed.
Print Assumptions C19_distinct_objects_equal_contents.

(* --- Eq laws --- *)
Theorem C19_eq_reflexive :
  forall (T : Type) (cmpT : T -> T -> comparison),
  (forall x, cmpT x x = Eq) ->
  forall (h : heap T) (p : ptr), eq T cmpT h p p = true.
Proof. exact TraitsP.eq_reflexive. Qed.
Print Assumptions C19_eq_reflexive.

Theorem C19_eq_symmetric :
  forall (T : Type) (cmpT : T -> T -> comparison),
  (forall x y, cmpT y x = CompOpp (cmpT x y)) ->
  forall (h : heap T) (p q : ptr), eq T cmpT h p q = true -> eq T cmpT h q p = true.
Proof. exact TraitsP.eq_symmetric. Qed.
Print Assumptions C19_eq_symmetric.

Theorem C19_eq_transitive :
  forall (T : Type) (cmpT : T -> T -> comparison),
  (forall c x y z, cmpT x y = c -> cmpT y z = c -> cmpT x z = c) ->
  forall (h : heap T) (p q r : ptr),
  eq T cmpT h p q = true -> eq T cmpT h q r = true -> eq T cmpT h p r = true.
Proof. exact TraitsP.eq_transitive. Qed.
Print Assumptions C19_eq_transitive.

(* --- Ord laws --- *)
Theorem C19_eq_iff_cmp_Eq :
  forall (T : Type) (cmpT : T -> T -> comparison) (h : heap T) (p q : ptr),
  eq T cmpT h p q = true <-> cmp T cmpT h p q = Eq.
Proof. exact TraitsP.eq_iff_cmp_Eq. Qed.
Print Assumptions C19_eq_iff_cmp_Eq.

Theorem C19_cmp_reflexive :
  forall (T : Type) (cmpT : T -> T -> comparison),
  (forall x, cmpT x x = Eq) ->
  forall (h : heap T) (p : ptr), cmp T cmpT h p p = Eq.
Proof. exact TraitsP.cmp_reflexive. Qed.
Print Assumptions C19_cmp_reflexive.

Theorem C19_cmp_reverse :
  forall (T : Type) (cmpT : T -> T -> comparison),
  (forall x y, cmpT y x = CompOpp (cmpT x y)) ->
  forall (h : heap T) (p q : ptr), cmp T cmpT h q p = CompOpp (cmp T cmpT h p q).
Proof. exact TraitsP.cmp_reverse. Qed.
Print Assumptions C19_cmp_reverse.

Theorem C19_cmp_antisymmetric :
  forall (T : Type) (cmpT : T -> T -> comparison),
  (forall x y, cmpT y x = CompOpp (cmpT x y)) ->
  forall (h : heap T) (p q : ptr),
  le T cmpT h p q = true -> le T cmpT h q p = true -> eq T cmpT h p q = true.
Proof. exact TraitsP.cmp_antisymmetric. Qed.
Print Assumptions C19_cmp_antisymmetric.

Theorem C19_cmp_transitive :
  forall (T : Type) (cmpT : T -> T -> comparison),
  (forall c x y z, cmpT x y = c -> cmpT y z = c -> cmpT x z = c) ->
  forall (h : heap T) (c : comparison) (p q r : ptr),
  cmp T cmpT h p q = c -> cmp T cmpT h q r = c -> cmp T cmpT h p r = c.
Proof. exact TraitsP.cmp_transitive. Qed.
Print Assumptions C19_cmp_transitive.

Theorem C19_le_transitive :
  forall (T : Type) (cmpT : T -> T -> comparison),
  (forall x y, cmpT y x = CompOpp (cmpT x y)) ->
  (forall c x y z, cmpT x y = c -> cmpT y z = c -> cmpT x z = c) ->
  forall (h : heap T) (p q r : ptr),
  le T cmpT h p q = true -> le T cmpT h q r = true -> le T cmpT h p r = true.
Proof. exact TraitsP.le_transitive. Qed.
Print Assumptions C19_le_transitive.

Theorem C19_le_total :
  forall (T : Type) (cmpT : T -> T -> comparison),
  (forall x y, cmpT y x = CompOpp (cmpT x y)) ->
  forall (h : heap T) (p q : ptr), le T cmpT h p q = true \/ le T cmpT h q p = true.
Proof. exact TraitsP.le_total. Qed.
Print Assumptions C19_le_total.

Theorem C19_eq_cmp_compat :
  forall (T : Type) (cmpT : T -> T -> comparison),
  (forall x y, cmpT y x = CompOpp (cmpT x y)) ->
  (forall c x y z, cmpT x y = c -> cmpT y z = c -> cmpT x z = c) ->
  forall (h : heap T) (p p' q : ptr),
  eq T cmpT h p p' = true ->
  cmp T cmpT h p q = cmp T cmpT h p' q /\ cmp T cmpT h q p = cmp T cmpT h q p'.
Proof. exact TraitsP.eq_cmp_compat. Qed.
Print Assumptions C19_eq_cmp_compat.

(* --- PartialOrd agrees with Ord --- *)
Theorem C19_partial_cmp_is_cmp :
  forall (T : Type) (cmpT : T -> T -> comparison) (h : heap T) (p q : ptr),
  partial_cmp T cmpT h p q = Some (cmp T cmpT h p q).
Proof. exact TraitsP.partial_cmp_is_cmp. Qed.
Print Assumptions C19_partial_cmp_is_cmp.

(* --- Hash agrees with Eq --- *)
Theorem C19_eq_hash :
  forall (T : Type) (cmpT : T -> T -> comparison) (hashT : T -> Z),
  (forall x y, cmpT x y = Eq -> hashT x = hashT y) ->
  forall (h : heap T) (p q : ptr),
  eq T cmpT h p q = true -> hash T hashT h p = hash T hashT h q.
Proof. exact TraitsP.eq_hash. Qed.
Print Assumptions C19_eq_hash.

(* --- null --- *)
Theorem C19_null_eq_iff :
  forall (T : Type) (cmpT : T -> T -> comparison) (h : heap T) (p q : ptr),
  is_null p = true -> valid T h q -> (eq T cmpT h p q = true <-> is_null q = true).
Proof. exact TraitsP.null_eq_iff. Qed.
Print Assumptions C19_null_eq_iff.

Theorem C19_null_smallest :
  forall (T : Type) (cmpT : T -> T -> comparison) (h : heap T) (p q : ptr),
  is_null p = true -> cmp T cmpT h p q <> Gt.
Proof. exact TraitsP.null_smallest. Qed.
Print Assumptions C19_null_smallest.

Theorem C19_null_lt_nonnull :
  forall (T : Type) (cmpT : T -> T -> comparison) (h : heap T) (p q : ptr) (x : T),
  is_null p = true -> is_null q = false -> h (obj q) = Some x -> cmp T cmpT h p q = Lt.
Proof. exact TraitsP.null_lt_nonnull. Qed.
Print Assumptions C19_null_lt_nonnull.

(* --- tag and timestamp are invisible to Eq / Ord / PartialOrd / Hash / is_null --- *)
Theorem C19_tag_ts_irrelevant :
  forall (T : Type) (cmpT : T -> T -> comparison) (hashT : T -> Z) (h : heap T) (p q : ptr)
         (t1 s1 t2 s2 : Z),
  let p' := mkptr (obj p) t1 s1 in
  let q' := mkptr (obj q) t2 s2 in
  eq T cmpT h p' q' = eq T cmpT h p q /\
  cmp T cmpT h p' q' = cmp T cmpT h p q /\
  partial_cmp T cmpT h p' q' = partial_cmp T cmpT h p q /\
  hash T hashT h p' = hash T hashT h p /\
  is_null p' = is_null p.
Proof. exact TraitsP.tag_ts_irrelevant. Qed.
Print Assumptions C19_tag_ts_irrelevant.

Theorem C19_with_tag_irrelevant :
  forall (T : Type) (cmpT : T -> T -> comparison) (hashT : T -> Z) (h : heap T) (p q : ptr) (t : Z),
  eq T cmpT h (with_tag p t) q = eq T cmpT h p q /\
  cmp T cmpT h (with_tag p t) q = cmp T cmpT h p q /\
  hash T hashT h (with_tag p t) = hash T hashT h p /\
  is_null (with_tag p t) = is_null p.
Proof. exact TraitsP.with_tag_irrelevant. Qed.
Print Assumptions C19_with_tag_irrelevant.

Theorem C19_with_timestamp_irrelevant :
  forall (T : Type) (cmpT : T -> T -> comparison) (hashT : T -> Z) (h : heap T) (p q : ptr) (e : Z),
  eq T cmpT h (with_timestamp p e) q = eq T cmpT h p q /\
  cmp T cmpT h (with_timestamp p e) q = cmp T cmpT h p q /\
  hash T hashT h (with_timestamp p e) = hash T hashT h p /\
  is_null (with_timestamp p e) = is_null p /\
  ptr_eq (with_timestamp p e) p = true.
Proof. exact TraitsP.with_timestamp_irrelevant. Qed.
Print Assumptions C19_with_timestamp_irrelevant.

(* --- ptr_eq: identity plus tag, timestamp ignored --- *)
Theorem C19_ptr_eq_iff :
  forall p q : ptr, ptr_eq p q = true <-> (obj p = obj q /\ tag p = tag q).
Proof. exact TraitsP.ptr_eq_iff. Qed.
Print Assumptions C19_ptr_eq_iff.

Theorem C19_ptr_eq_eq :
  forall (T : Type) (cmpT : T -> T -> comparison),
  (forall x, cmpT x x = Eq) ->
  forall (h : heap T) (p q : ptr), ptr_eq p q = true -> eq T cmpT h p q = true.
Proof. exact TraitsP.ptr_eq_eq. Qed.
Print Assumptions C19_ptr_eq_eq.

Theorem C19_same_object_eq :
  forall (T : Type) (cmpT : T -> T -> comparison),
  (forall x, cmpT x x = Eq) ->
  forall (h : heap T) (p q : ptr), obj p = obj q -> eq T cmpT h p q = true.
Proof. exact TraitsP.same_object_eq. Qed.
Print Assumptions C19_same_object_eq.

(* --- the premises are satisfiable: the executed instance T := Z fulfils all four laws --- *)
Theorem C19_instance_laws :
  (forall x, cmpZ x x = Eq) /\
  (forall x y, cmpZ y x = CompOpp (cmpZ x y)) /\
  (forall c x y z, cmpZ x y = c -> cmpZ y z = c -> cmpZ x z = c) /\
  (forall x y, cmpZ x y = Eq -> hashZ x = hashZ y).
Proof.
  exact (conj TraitsP.Z_refl_law (conj TraitsP.Z_sym_law (conj TraitsP.Z_trans_law TraitsP.Z_hash_law))).
Qed.
Print Assumptions C19_instance_laws.

(* --- the converse of ptr_eq -> eq fails; a tagged null is null --- *)
Theorem C19_ptr_eq_converse_fails :
  let h := heap_of_list [(1, 5); (2, 5)] in
  let p := mkptr 1 0 0 in
  let q := mkptr 2 0 0 in
  eqZ h p q = true /\ ptr_eq p q = false /\ cmpPZ h p q = Eq /\ hashPZ h p = hashPZ h q.
Proof. exact TraitsP.ptr_eq_converse_fails. Qed.
Print Assumptions C19_ptr_eq_converse_fails.

Theorem C19_ptr_eq_sees_tag :
  let h := heap_of_list [(1, 5)] in
  eqZ h (mkptr 1 0 0) (mkptr 1 1 0) = true /\ ptr_eq (mkptr 1 0 0) (mkptr 1 1 0) = false.
Proof. exact TraitsP.ptr_eq_sees_tag. Qed.
Print Assumptions C19_ptr_eq_sees_tag.

Theorem C19_tagged_null_is_null :
  let h := heap_of_list [(1, 5)] in
  let n1 := with_tag null 1 in
  is_null n1 = true /\ as_ref Z h n1 = None /\ eqZ h n1 null = true /\
  ptr_eq n1 null = false /\ cmpPZ h n1 (mkptr 1 0 0) = Lt /\ hashPZ h n1 = [0].
Proof. exact TraitsP.tagged_null_is_null. Qed.
Print Assumptions C19_tagged_null_is_null.
