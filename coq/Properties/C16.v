(* C16 -- Nested guards and reactivation keep the thread pinned exactly as documented.
   Only the pinned statements; each is closed by `exact` of a lemma of GuardSeqP.v about the
   model GuardSeq.v (M6), followed by Print Assumptions. *)
From Coq Require Import ZArith List Bool.
Import ListNotations.
Require Import GuardSeq GuardSeqP.
Local Open Scope Z_scope.

(* at every operation boundary of every well-formed program: pinned <-> a guard is live, and
   guard_count = number of live guards *)
Theorem C16_pinned_iff : forall mo p, wf_prog p = true ->
  let s := run (init_state mo) p in
  err s = 0 -> pinned s = (0 <? gc s) /\ gc s = Z.of_nat (length (live s)).
Proof. exact GuardSeqP.C16_pinned_iff. Qed.
Print Assumptions C16_pinned_iff.

(* inside destructors running during a collection: pinned, guard_count = outer + own guards,
   the unpinned epoch is never stored, finalize never runs *)
Theorem C16_pinned_in_closure : forall l extra ops s lg s' lg',
  collecting s = true -> pinned s = true -> 1 <= gc s - Z.of_nat (length lg) ->
  cons_x extra s -> PO s -> Forall clo_ok extra ->
  body_ok (length lg) ops = true ->
  run_body (unpin_at (S l)) s lg ops = Ok (s', lg') ->
  pinned s' = true /\ collecting s' = true /\
  gc s' - Z.of_nat (length lg') = gc s - Z.of_nat (length lg) /\
  unpins s' = unpins s /\ finals s' = finals s /\ finalized s' = finalized s /\ hc s' = hc s.
Proof. exact GuardSeqP.C16_pinned_in_closure. Qed.
Print Assumptions C16_pinned_in_closure.

(* reactivate / reactivate_after on a live guard of a reachable state *)
Theorem C16_reactivate : forall s i s', reachable s -> (i < length (live s))%nat ->
  (step_res s (Reactivate i) = Ok s' -> react_ok s s') /\
  (forall panics, step_res s (ReactivateAfter i panics) = Ok s' -> react_ok s s').
Proof. exact GuardSeqP.C16_reactivate. Qed.
Print Assumptions C16_reactivate.

(* where react_ok s s' unfolds to: *)
Theorem C16_react_ok_def : forall s s', react_ok s s' <->
  (pinned s' = true /\ gc s' = gc s /\ live s' = live s /\ hc s' = hc s /\
   (gc s = 1 -> unpins s' = unpins s + 1) /\ (gc s <> 1 -> unpins s' = unpins s) /\
   finals s' = finals s /\ finalized s' = false /\ others s' = others s).
Proof. intros; reflexivity. Qed.
Print Assumptions C16_react_ok_def.

Theorem C16_reactivate_panic : forall s i,
  step_res s (ReactivateAfter i true) = step_res s (ReactivateAfter i false).
Proof. exact GuardSeqP.C16_reactivate_panic. Qed.
Print Assumptions C16_reactivate_panic.

Theorem C16_reactivate_runs : forall s i o, reachable s -> (i < length (live s))%nat ->
  (o = Reactivate i \/ exists p, o = ReactivateAfter i p) ->
  (exists s', step_res s o = Ok s') \/ step_res s o = Err E_OVERFLOW \/ step_res s o = Err E_LOOP.
Proof. exact GuardSeqP.C16_reactivate_runs. Qed.
Print Assumptions C16_reactivate_runs.

Theorem C16_no_finalize_midway : forall s o a' s', reachable s ->
  wf_op (abs_of s) o = Some a' -> step_res s o = Ok s' ->
  finals s' = finals s + b2z (finalizing s o) /\
  (finalized s' = true -> gc s' = 0 /\ live s' = [] /\ handle_alive s' = false /\ pinned s' = false) /\
  (finalized s' = false -> finals s' = finals s).
Proof. exact GuardSeqP.C16_no_finalize_midway. Qed.
Print Assumptions C16_no_finalize_midway.

Theorem C16_frame : forall s o a' s', reachable s -> wf_op (abs_of s) o = Some a' ->
  step_res s o = Ok s' -> others s' = others s.
Proof. exact GuardSeqP.C16_frame. Qed.
Print Assumptions C16_frame.

Theorem C16_ex1_obs : snd (run_obs (init_state 2) ex1) =
  [1; 1; 1; 0; 0; 0; 0; 0; -1;   2; 1; 1; 0; 0; 0; 0; 0; -1;   3; 1; 1; 0; 0; 0; 0; 0; -1;
   2; 1; 1; 0; 0; 0; 0; 0; -1;   1; 1; 1; 0; 0; 0; 0; 0; -1;   0; 1; 0; 0; 0; 0; 0; 0; -1;
   0; 0; 0; 0; 0; 0; 0; 0; -1;   0; 0; 0; 0; 0; 0; 0; 0; -1].
Proof. exact GuardSeqP.ex1_obs. Qed.
Print Assumptions C16_ex1_obs.

Theorem C16_ex2_unpins :
  map (fun n => let s := run (init_state 2) (firstn n ex2) in (gc s, b2z (pinned s), unpins s))
      [0; 1; 2; 3; 4; 5; 6; 7; 8]%nat =
  [(0, 0, 0); (1, 1, 0); (2, 1, 0); (2, 1, 0); (2, 1, 0); (1, 1, 0); (1, 1, 1); (1, 1, 2); (0, 0, 3)].
Proof. exact GuardSeqP.ex2_unpins. Qed.
Print Assumptions C16_ex2_unpins.

Theorem C16_ex3_final :
  let s := run (init_state 2) ex3 in
  (err s, rev (log s), rev (deferred s), finals s, finalized s, sealed s, bag s) =
  (0, [1; 0; 2; 0; 0; 0], [1; 0; 2; 0; 0; 0], 1, true, [], []).
Proof. exact GuardSeqP.ex3_final. Qed.
Print Assumptions C16_ex3_final.
