(* C02 -- pinned statements only (generated once by tools/pin.py from `Check`, then fixed).
   The statement over the model is C02_snap_valid below (RcSnapInvP.v): along every run from a fresh state, under
   the named run hypotheses [c02_run] (H2 pinned: the epochs read by decrement_strong / is_not_destructed / the
   cascade are within one of the global epoch -- the implementation is pinned there, the model does not pin inside
   deferred functions; H3 scoped: Snapshots belong to the critical section they were taken in; epoch < 2^62; the two
   weak-side hypotheses of RcSpec.v), every Snapshot of the current critical section refers to an object that is
   neither destructed, dropped nor freed.  The earlier lemmas (grace period for roots, age of every stamp for
   cascade children, soundness of the executable checker) are kept. *)
From Coq Require Import ZArith List Bool Lia Arith.
Import ListNotations.
Require Import RcPinnedP Params StateW ModularW DisposeW StateP ModularP Rc RcSpec RcP RcWeakP RcDepthP RcEpochP RcSnapCheck RcSnapP RcStampP RcSnapInvP RcWSnapInvP RcRunOkEx.
Local Open Scope Z_scope.

Theorem C02_ebr_layer_invariant :
  forall (s : state) (t : nat) (rec : list Z) (s' : state) (obs : list Z),
       EOK s -> micro s t rec = Some (s', obs) -> EOK s'.
Proof. exact RcEpochP.micro_eok. Qed.
Print Assumptions C02_ebr_layer_invariant.

Theorem C02_ebr_layer_initial :
  forall prog : list Z, EOK (init prog).
Proof. exact RcEpochP.init_eok. Qed.
Print Assumptions C02_ebr_layer_initial.

Theorem C02_cs_skew :
  forall (prog : list Z) (sched : list (nat * list Z)) (t : nat) (x : thr),
       let s := srun (init prog) sched in
       err s = 0 -> gett s t = Some x -> incs x = true -> ann x <= G s <= ann x + 1.
Proof. exact RcEpochP.cs_skew. Qed.
Print Assumptions C02_cs_skew.

Theorem C02_closure_grace :
  forall (s : state) (t : nat) (rec : list Z) (x : thr) (k : list frame) (s' : state) (obs : list Z),
       EOK s ->
       gett s t = Some x ->
       frames x = FAwait :: k ->
       micro s t rec = Some (s', obs) ->
       err s' = 0 ->
       exists (kd : pkind) (o : nat) (p : pend) (rest : list pend),
         take_pending (pending s) kd o = Some (p, rest) /\
         pending s' = rest /\
         pG p + EXPIRE_AFTER <= G s' /\
         (forall (q n : nat) (y : thr),
          In (q, n) (pwit p) -> gett s' q = Some y -> incs y = true -> serial y <> n).
Proof. exact RcEpochP.closure_grace. Qed.
Print Assumptions C02_closure_grace.

Theorem C02_merged_old_all :
  forall c a1 a2 a3 : Z,
       epoch_ok c ->
       0 <= a1 < 16 ->
       0 <= a2 < 16 ->
       0 <= a3 < 16 ->
       a1 <= c + 2 ->
       a2 <= c + 2 ->
       a3 <= c + 2 ->
       reclaim_now c (merged c a1 a2 a3 mod 16) = true ->
       reclaim_now c a1 = true /\ reclaim_now c a2 = true /\ reclaim_now c a3 = true.
Proof. exact RcSnapP.merged_old_all. Qed.
Print Assumptions C02_merged_old_all.

Theorem C02_child_disposed_only_if_old :
  forall (s : state) (t : nat) (rec : list Z) (x : thr) (o : nat) (d w : Z) 
         (k : list frame) (s' : state) (obs : list Z),
       gett s t = Some x ->
       frames x = FDisp116 o d w :: k ->
       0 < d ->
       micro s t rec = Some (s', obs) ->
       exists x' : thr,
         gett s' t = Some x' /\
         (frames x' = FDisp130 o d w (G s') :: k /\
          reclaim_now (G s') (epoch w) = true /\ pending s' = pending s \/
          frames x' = k /\
          reclaim_now (G s') (epoch w) = false /\
          (exists p : pend, pending s' = pending s ++ [p] /\ pk p = KDestruct /\ po p = o /\ pG p = G s')).
Proof. exact RcSnapP.child_disposed_only_if_old. Qed.
Print Assumptions C02_child_disposed_only_if_old.

Theorem C02_snap_b_sound :
  forall s : state, snap_b s = 0 -> snap_valid s.
Proof. exact RcSnapP.snap_b_sound. Qed.
Print Assumptions C02_snap_b_sound.


(* the global epoch of the model never decreases *)
Theorem C02_epoch_monotone :
  forall (s : state) (t : nat) (rec : list Z) (s' : state) (obs : list Z),
       micro s t rec = Some (s', obs) -> G s <= G s'.
Proof. exact RcStampP.micro_G_mono. Qed.
Print Assumptions C02_epoch_monotone.

(* ---- the stamp written into a cascade child after the repair of finding D13 *)
Theorem C02_child_stamp_old_all :
  forall c a1 a2 a3 : Z,
       epoch_ok c ->
       STAMP_CLAMPED = true ->
       0 <= a1 < 16 ->
       0 <= a2 < 16 ->
       0 <= a3 < 16 ->
       a1 <= c + 2 ->
       a2 <= c + 2 ->
       a3 <= c + 2 ->
       reclaim_now c (child_stamp c a1 a2 a3 mod 16) = true ->
       reclaim_now c a1 = true /\ reclaim_now c a2 = true /\ reclaim_now c a3 = true.
Proof. exact RcSnapP.child_stamp_old_all. Qed.
Print Assumptions C02_child_stamp_old_all.

Theorem C02_child_stamp_not_ahead :
  forall c a1 a2 a3 : Z,
       epoch_ok c ->
       STAMP_CLAMPED = true ->
       14 <= c ->
       0 <= a1 < 16 ->
       0 <= a2 < 16 ->
       0 <= a3 < 16 ->
       decode c (child_stamp c a1 a2 a3 mod 16) <= c + 1 /\
       decode c (child_stamp c a1 a2 a3 mod 16) =
       Z.min (c + 1) (Z.max (decode c a1) (Z.max (decode c a2) (decode c a3))).
Proof. exact ModularP.child_stamp_not_ahead. Qed.
Print Assumptions C02_child_stamp_not_ahead.

Theorem C02_stamp_clamped_now :
  STAMP_CLAMPED = true.
Proof. exact ModularP.stamp_clamped_now. Qed.
Print Assumptions C02_stamp_clamped_now.


(* ---- the main theorem and the pieces of its invariant (RcSnapInvP.v) *)
Theorem C02_snap_valid :
  forall (s0 : state) (sched : list (nat * list Z)),
       fresh_start s0 ->
       cellops_ok s0 -> bounded_run s0 sched -> c02_run s0 sched -> snap_valid (mrun s0 sched).
Proof. exact RcSnapInvP.C02_snap_valid. Qed.
Print Assumptions C02_snap_valid.

Theorem C02_pending_ret :
  forall (s0 : state) (sched : list (nat * list Z)) (t : nat) (x : thr) (c : cont) 
         (b : bool) (k : nat) (l : link) (n : nat),
       fresh_start s0 ->
       cellops_ok s0 ->
       bounded_run s0 sched ->
       c02_run s0 sched ->
       gett (mrun s0 sched) t = Some x ->
       incs x = true ->
       In (FRet c b) (frames x) ->
       (if b then cok c else cfail c) = HSnap l n ->
       n = serial x -> fst l <> 0%nat -> k = fst l -> obj_live (mrun s0 sched) k = true.
Proof. exact RcSnapInvP.C02_pending_ret. Qed.
Print Assumptions C02_pending_ret.

Theorem C02_counted_never_on_destructed :
  forall (s0 : state) (sched : list (nat * list Z)),
       fresh_start s0 ->
       cellops_ok s0 -> bounded_run s0 sched -> c02_run s0 sched -> scounted_ok (mrun s0 sched).
Proof. exact RcSnapInvP.scounted_along_runs. Qed.
Print Assumptions C02_counted_never_on_destructed.

Theorem C02_invariant_preserved :
  forall (s : state) (t : nat) (rec : list Z) (s' : state) (obs : list Z),
       CInv s ->
       bounded s -> bounded s' -> c02_hyp s -> c02_hyp s' -> micro s t rec = Some (s', obs) -> CInv s'.
Proof. exact RcSnapInvP.micro_cinv. Qed.
Print Assumptions C02_invariant_preserved.

Theorem C02_protected_not_destructed :
  forall (s : state) (t : nat) (x : thr) (u : nat) (y : thr) (f : frame) (k : list frame) 
         (o : nat) (ob : obj),
       Inv' s ->
       prot s t x o ->
       gett s u = Some y ->
       frames y = f :: k ->
       frame_attempt o f = 1 ->
       (forall ob' : obj, ~ casc_frame s x o ob' f) -> geto s o = Some ob -> strong (word ob) = 0 -> False.
Proof. exact RcSnapInvP.prot_not_fired. Qed.
Print Assumptions C02_protected_not_destructed.

Theorem C02_protection_stable :
  forall (s : state) (t : nat) (rec : list Z) (s' : state) (obs : list Z),
       Inv' s ->
       Inv' s' ->
       EOK s ->
       EOK s' ->
       pinned s ->
       RInv s ->
       bounded s ->
       bounded s' ->
       epoch_ok (G s') -> scounted_ok s -> cells_live s -> micro s t rec = Some (s', obs) -> stable s s'.
Proof. exact RcSnapInvP.micro_stable. Qed.
Print Assumptions C02_protection_stable.

Theorem C02_residues_not_ahead :
  forall (s : state) (t : nat) (rec : list Z) (s' : state) (obs : list Z),
       0 <= G s ->
       Inv' s ->
       bounded s -> bounded s' -> kid_recent s -> RInv s -> micro s t rec = Some (s', obs) -> RInv s'.
Proof. exact RcSnapInvP.micro_rinv. Qed.
Print Assumptions C02_residues_not_ahead.


(* ---- FINAL FORM (RcWSnapInvP.v): the same statements under run_ok only - fresh start, well-formed programs
   (cellops_ok, bounded_run) and the run hypotheses H2 pinned / H3 scoped, wscoped / epoch < 2^62; the former hypothesis
   live_counted (scounted_ok, wcounted_ok = finding F5, wlive_ok) is now a THEOREM (C02_count_hypotheses_discharged) *)
Theorem C02_final :
  forall (s0 : state) (sched : list (nat * list Z)),
       fresh_start s0 ->
       cellops_ok s0 -> bounded_run s0 sched -> c03_run s0 sched -> snap_valid (mrun s0 sched).
Proof. exact RcWSnapInvP.C02_final. Qed.
Print Assumptions C02_final.

Theorem C02_count_hypotheses_discharged :
  forall (s0 : state) (sched : list (nat * list Z)),
       fresh_start s0 -> cellops_ok s0 -> bounded_run s0 sched -> c03_run s0 sched -> live_counted s0 sched.
Proof. exact RcWSnapInvP.live_counted_along_runs. Qed.
Print Assumptions C02_count_hypotheses_discharged.

(* ---- run_ok is satisfiable on a run in which the conclusion is NOT vacuous: thread 1 is inside a critical section holding a
   Snapshot and a WeakSnapshot of object 1 whose strong count is 0, whose try_destruct is pending with thread 1's section as
   witness - only the grace period keeps the object alive - and snap_valid holds of that state (RcRunOkEx.v) *)
Theorem C02_final_hypotheses_satisfiable :
  run_ok ex2_s0 ex2_sched.
Proof. exact RcRunOkEx.ex2_run_ok. Qed.
Print Assumptions C02_final_hypotheses_satisfiable.

Theorem C02_final_example_state :
  let s := RcDepthP.mrun ex2_s0 ex2_sched in
       match gett s 1 with
       | Some x =>
           match geto s 1 with
           | Some ob =>
               incs x && holds_snap x 1 && holds_wsnap x 1 && obj_live s 1 && (strong (word ob) =? 0) &&
               (owners s 1 =? 0) && (attempts s 1 =? 1) && RcSnapInv.pend_wit s 1 (serial x) 1
           | None => false
           end
       | None => false
       end = true.
Proof. exact RcRunOkEx.ex2_state. Qed.
Print Assumptions C02_final_example_state.

Theorem C02_final_example_conclusion :
  snap_valid (RcDepthP.mrun ex2_s0 ex2_sched).
Proof. exact RcRunOkEx.ex2_snap_valid. Qed.
Print Assumptions C02_final_example_conclusion.

(* ---- H2 only where the model lacks the pin (RcPinnedP.v): the run hypothesis `pinned` (epochs carried by frames are within one
   of the global epoch) is DERIVED for every thread that is inside a critical section - the epoch was read after the pin and the
   section holds the clock - and remains an assumption (`pinned_out`, run_ok') only for threads outside one: deferred functions
   run by an unpinned collector and guard-less operations, where the real code pins internally and the model does not *)
Theorem C02_final_H2_outside_sections_only :
  forall (s0 : state) (sched : list (nat * list Z)),
       run_ok' s0 sched -> snap_valid (RcDepthP.mrun s0 sched).
Proof. exact RcPinnedP.C02_final'. Qed.
Print Assumptions C02_final_H2_outside_sections_only.

Theorem C02_H2_derived_inside_sections :
  forall s : state, EOK s -> err s = 0 -> PInv s -> pinned_out s -> pinned s.
Proof. exact RcPinnedP.pinned_of. Qed.
Print Assumptions C02_H2_derived_inside_sections.

Theorem C02_weaker_run_hypothesis_suffices :
  forall (s0 : state) (sched : list (nat * list Z)), run_ok' s0 sched -> run_ok s0 sched.
Proof. exact RcPinnedP.run_ok_of. Qed.
Print Assumptions C02_weaker_run_hypothesis_suffices.

Theorem C02_frame_epochs_inside_sections :
  forall (s0 : state) (sched : list (nat * list Z)),
       run_ok' s0 sched -> FrameEp (RcDepthP.mrun s0 sched).
Proof. exact RcPinnedP.FrameEp_along_runs. Qed.
Print Assumptions C02_frame_epochs_inside_sections.
