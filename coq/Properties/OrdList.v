(* memory orderings of src/ebr_impl/sync/list.rs: at least those of the reference table (see OrderP.v) *)
From Coq Require Import ZArith List Bool String.
Import ListNotations.
Require Import OrderW OrderRef OrderP.
Local Open Scope string_scope.

Theorem orderings_list_cover_reference :
  files_ok ["src/ebr_impl/sync/list.rs"] = true.
Proof. vm_compute. reflexivity. Qed.
Print Assumptions orderings_list_cover_reference.
