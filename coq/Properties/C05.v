(* C05 -- pinned statements only (generated once by tools/pin.py from `Check`, then fixed); proofs in RcP.v *)
From Coq Require Import ZArith List Bool Lia Arith.
Import ListNotations.
Require Import Params StateW DisposeW Rc RcSpec RcP.
Local Open Scope Z_scope.

Theorem C05_monotone_tde :
  forall (s0 : state) (sched : list (nat * list Z)) (t : nat) (rec : list Z) (s' : state) (obs : list Z),
       run_hyps s0 sched ->
       let s := mrun s0 sched in
       micro s t rec = Some (s', obs) ->
       bounded s' ->
       forall (o : nat) (ob ob' : obj),
       geto s o = Some ob ->
       geto s' o = Some ob' -> destructed (word ob) = true -> destructed (word ob') = true.
Proof. exact RcP.C05_monotone_tde. Qed.
Print Assumptions C05_monotone_tde.

Theorem C05_upgrade_tde :
  forall (s0 : state) (sched : list (nat * list Z)) (t : nat) (rec : list Z) 
         (s' : state) (obs : list Z) (x : thr) (o : nat) (c : cont) (k : list frame),
       run_hyps s0 sched ->
       let s := mrun s0 sched in
       gett s t = Some x ->
       frames x = FIncS100 o c :: k \/ frames x = FIncS101 o c :: k ->
       micro s t rec = Some (s', obs) ->
       forall (ob : obj) (x' : thr),
       geto s o = Some ob ->
       gett s' t = Some x' ->
       (frames x' = FRet c false :: k <-> destructed (word ob) = true) /\
       (0 < owners s o -> frames x = FIncS100 o c :: k -> frames x' = FRet c true :: k).
Proof. exact RcP.C05_upgrade_tde. Qed.
Print Assumptions C05_upgrade_tde.

Theorem C05_monotone_needs_bounds :
  ~ C05_monotone_unbounded.
Proof. exact RcP.C05_monotone_needs_bounds. Qed.
Print Assumptions C05_monotone_needs_bounds.

