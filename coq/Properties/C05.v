(* C05 -- pinned statements only; the statement text below is the definition of RcSpec.v written out (the proof is
   `exact`, so it is checked to be convertible with it); proofs in RcP.v (strong side) and RcWeakP.v (weak side) *)
From Coq Require Import ZArith List Bool Lia Arith.
Import ListNotations.
Require Import Params StateW DisposeW ModularW RcSnapCheck RcSnapP RcSnapInvP RcWSnapInvP Rc RcSpec RcP RcWeakP.
Local Open Scope Z_scope.

Theorem C05_destructed_is_final :
  forall s0 sched t rec s' obs, fresh_start s0 -> bounded_run s0 sched -> live_counted s0 sched ->
  let s := mrun s0 sched in
  micro s t rec = Some (s', obs) -> bounded s' ->
  forall o ob ob', geto s o = Some ob -> geto s' o = Some ob' -> destructed (word ob) = true -> destructed (word ob') = true.
Proof. exact RcWeakP.C05_monotone. Qed.
Print Assumptions C05_destructed_is_final.

Theorem C05_upgrade_iff_not_destructed :
  forall s0 sched t rec s' obs x o c k, fresh_start s0 -> bounded_run s0 sched -> live_counted s0 sched ->
  let s := mrun s0 sched in
  gett s t = Some x -> (frames x = FIncS100 o c :: k \/ frames x = FIncS101 o c :: k) ->
  micro s t rec = Some (s', obs) ->
  forall ob x', geto s o = Some ob -> gett s' t = Some x' ->
    
    (frames x' = FRet c false :: k <-> destructed (word ob) = true) /\
    
    (0 < owners s o -> frames x = FIncS100 o c :: k -> frames x' = FRet c true :: k).
Proof. exact RcWeakP.C05_upgrade. Qed.
Print Assumptions C05_upgrade_iff_not_destructed.

Theorem C05_monotone_needs_bounds :
  ~ C05_monotone_unbounded.
Proof. exact RcP.C05_monotone_needs_bounds. Qed.
Print Assumptions C05_monotone_needs_bounds.


(* ---- FINAL FORM (RcWSnapInvP.v): the same statements under run_ok only - fresh start, well-formed programs
   (cellops_ok, bounded_run) and the run hypotheses H2 pinned / H3 scoped, wscoped / epoch < 2^62; the former hypothesis
   live_counted (scounted_ok, wcounted_ok = finding F5, wlive_ok) is now a THEOREM (C02_count_hypotheses_discharged) *)
Theorem C05_monotone_final :
  forall (s0 : state) (sched : list (nat * list Z)) (t : nat) (rec : list Z) (s' : state) (obs : list Z),
       run_ok s0 sched ->
       let s := mrun s0 sched in
       micro s t rec = Some (s', obs) ->
       bounded s' ->
       forall (o : nat) (ob ob' : obj),
       geto s o = Some ob ->
       geto s' o = Some ob' -> destructed (word ob) = true -> destructed (word ob') = true.
Proof. exact RcWSnapInvP.C05_monotone_final. Qed.
Print Assumptions C05_monotone_final.

Theorem C05_upgrade_final :
  forall (s0 : state) (sched : list (nat * list Z)) (t : nat) (rec : list Z) 
         (s' : state) (obs : list Z) (x : thr) (o : nat) (c : cont) (k : list frame),
       run_ok s0 sched ->
       let s := mrun s0 sched in
       gett s t = Some x ->
       frames x = FIncS100 o c :: k \/ frames x = FIncS101 o c :: k ->
       micro s t rec = Some (s', obs) ->
       forall (ob : obj) (x' : thr),
       geto s o = Some ob ->
       gett s' t = Some x' ->
       (frames x' = FRet c false :: k <-> destructed (word ob) = true) /\
       (0 < owners s o -> frames x = FIncS100 o c :: k -> frames x' = FRet c true :: k).
Proof. exact RcWSnapInvP.C05_upgrade_final. Qed.
Print Assumptions C05_upgrade_final.

