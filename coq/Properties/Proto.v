(* Proto -- pinned statements only (generated once by tools/pin.py from `Check`, then fixed); proofs in RcProtoP.v *)
From Coq Require Import ZArith List Bool Lia Arith.
Import ListNotations.
Require Import Params StateW DisposeW ProtoW Rc RcProtoP.
Local Open Scope Z_scope.

Theorem Proto_shape_incs :
  forall v : Z,
       length (P_incs_adds v) = 2%nat /\
       length (P_incs_conds v) = 4%nat /\ P_incs_cas v = [] /\ P_incs_subs v = [].
Proof. exact RcProtoP.shape_incs. Qed.
Print Assumptions Proto_shape_incs.

Theorem Proto_shape_tde :
  forall w : Z,
       length (P_tde_conds w) = 1%nat /\ P_tde_adds w = [] /\ P_tde_subs w = [] /\ P_tde_cas w = [].
Proof. exact RcProtoP.shape_tde. Qed.
Print Assumptions Proto_shape_tde.

Theorem Proto_shape_incw :
  forall o c f : Z,
       length (P_incw_adds o c f) = 2%nat /\
       length (P_incw_cas o c f) = 1%nat /\ length (P_incw_conds o c f) = 2%nat /\ P_incw_subs o c f = [].
Proof. exact RcProtoP.shape_incw. Qed.
Print Assumptions Proto_shape_incw.

Theorem Proto_shape_decw :
  forall f : Z,
       length (P_decw_subs f) = 1%nat /\
       length (P_decw_conds f) = 1%nat /\ P_decw_adds f = [] /\ P_decw_cas f = [].
Proof. exact RcProtoP.shape_decw. Qed.
Print Assumptions Proto_shape_decw.

Theorem Proto_shape_isnd :
  forall o e : Z,
       length (P_isnd_cas o e) = 1%nat /\
       length (P_isnd_conds o e) = 2%nat /\ P_isnd_adds o e = [] /\ P_isnd_subs o e = [].
Proof. exact RcProtoP.shape_isnd. Qed.
Print Assumptions Proto_shape_isnd.

Theorem Proto_shape_decs :
  forall c n e : Z,
       length (P_decs_cas c n e) = 1%nat /\
       length (P_decs_breaks c n e) = 1%nat /\
       P_decs_conds c n e = [] /\
       P_decs_adds c n e = [] /\ P_decs_subs c n e = [] /\ P_decs_redecs c n e = [].
Proof. exact RcProtoP.shape_decs. Qed.
Print Assumptions Proto_shape_decs.

Theorem Proto_shape_td :
  forall o : Z,
       length (P_td_cas o) = 1%nat /\
       length (P_td_conds o) = 1%nat /\ P_td_redecs o = [1] /\ P_td_adds o = [] /\ P_td_subs o = [].
Proof. exact RcProtoP.shape_td. Qed.
Print Assumptions Proto_shape_td.

Theorem Proto_shape_disp :
  forall (st cc ne nc d l : Z) (cf ck : bool),
       length (P_disp_cas st cc ne nc d l cf ck) = 2%nat /\
       length (P_disp_conds st cc ne nc d l cf ck) = 6%nat /\
       length (P_disp_depths st cc ne nc d l cf ck) = 1%nat /\
       P_disp_adds st cc ne nc d l cf ck = [] /\
       P_disp_subs st cc ne nc d l cf ck = [] /\ P_disp_redecs st cc ne nc d l cf ck = [].
Proof. exact RcProtoP.shape_disp. Qed.
Print Assumptions Proto_shape_disp.

Theorem Proto_cas_expected_is_read :
  (forall o c f : Z, fst (ncas (P_incw_cas o c f) 0) = o) /\
       (forall o e : Z, fst (ncas (P_isnd_cas o e) 0) = o) /\
       (forall c n e : Z, fst (ncas (P_decs_cas c n e) 0) = c) /\
       (forall o : Z, fst (ncas (P_td_cas o) 0) = o) /\
       (forall (st cc ne nc d l : Z) (cf ck : bool),
        fst (ncas (P_disp_cas st cc ne nc d l cf ck) 0) = st /\
        fst (ncas (P_disp_cas st cc ne nc d l cf ck) 1) = cc).
Proof. exact RcProtoP.cas_expected_is_read. Qed.
Print Assumptions Proto_cas_expected_is_read.

Theorem Proto_test_incs :
  same_test (fun v : Z => nb (P_incs_conds v) 0) destructed /\
       same_test (fun v : Z => nb (P_incs_conds v) 1) (fun v : Z => strong v =? 0) /\
       same_test (fun v : Z => nb (P_incs_conds v) 2) destructed /\
       same_test (fun v : Z => nb (P_incs_conds v) 3) (fun v : Z => strong v =? 0).
Proof. exact RcProtoP.test_incs. Qed.
Print Assumptions Proto_test_incs.

Theorem Proto_test_tde :
  same_test (fun w : Z => nb (P_tde_conds w) 0) (fun w : Z => 0 <? weak w).
Proof. exact RcProtoP.test_tde. Qed.
Print Assumptions Proto_test_tde.

Theorem Proto_test_incw :
  same_test (fun a : Z * Z * Z => nb (P_incw_conds (fst (fst a)) (snd (fst a)) (snd a)) 0)
         (fun a : Z * Z * Z => weaked (fst (fst a))) /\
       same_test (fun a : Z * Z * Z => nb (P_incw_conds (fst (fst a)) (snd (fst a)) (snd a)) 1)
         (fun a : Z * Z * Z => weak (snd a) =? 0).
Proof. exact RcProtoP.test_incw. Qed.
Print Assumptions Proto_test_incw.

Theorem Proto_test_decw :
  same_test (fun f : Z => nb (P_decw_conds f) 0) (fun f : Z => weak f =? 1).
Proof. exact RcProtoP.test_decw. Qed.
Print Assumptions Proto_test_decw.

Theorem Proto_test_isnd :
  same_test (fun a : Z * Z => nb (P_isnd_conds (fst a) (snd a)) 0) (fun a : Z * Z => destructed (fst a)) /\
       same_test (fun a : Z * Z => nb (P_isnd_conds (fst a) (snd a)) 1)
         (fun a : Z * Z => strong (fst a) =? 0).
Proof. exact RcProtoP.test_isnd. Qed.
Print Assumptions Proto_test_isnd.

Theorem Proto_test_decs :
  same_test (fun a : Z * Z * Z => nb (P_decs_breaks (fst (fst a)) (snd (fst a)) (snd a)) 0)
         (fun a : Z * Z * Z => strong (fst (fst a)) =? snd (fst a)).
Proof. exact RcProtoP.test_decs. Qed.
Print Assumptions Proto_test_decs.

Theorem Proto_test_td :
  same_test (fun o : Z => nb (P_td_conds o) 0) (fun o : Z => 0 <? strong o).
Proof. exact RcProtoP.test_td. Qed.
Print Assumptions Proto_test_td.

Theorem Proto_test_disp :
  forall st cc ne nc l : Z,
       same_test (fun d : Z => nb (P_disp_conds st cc ne nc d l false false) 0)
         (fun d : Z => d >=? DEPTH_CAP) /\
       same_test (fun d : Z => nb (P_disp_conds st cc ne nc d l false false) 1) (fun d : Z => 0 <? d) /\
       same_test (fun a : Z * bool => nb (P_disp_conds (fst a) cc ne nc 0 l (snd a) false) 2)
         (fun a : Z * bool => negb (strong (fst a) =? 0) || snd a) /\
       same_test (fun w : Z => nb (P_disp_conds st cc ne nc 0 w false false) 3) weaked /\
       same_test (fun b : bool => nb (P_disp_conds st cc ne nc 0 l false b) 4) (fun b : bool => b) /\
       same_test (fun n : Z => nb (P_disp_conds st cc ne n 0 l false false) 5) (fun n : Z => strong n =? 0).
Proof. exact RcProtoP.test_disp. Qed.
Print Assumptions Proto_test_disp.

Theorem Proto_proto_incs100 :
  forall (s : state) (t : nat) (rec : list Z) (x : thr) (k : list frame),
       gett s t = Some x ->
       forall (o : nat) (c : cont) (ob : obj),
       frames x = FIncS100 o c :: k ->
       geto s o = Some ob ->
       micro s t rec =
       (let w := word ob in
        let w' := fadd w (nz (P_incs_adds w) 0) in
        if destructed w
        then
         Some
           (sett (seto s o (with_word ob w')) t (with_frames x (FRet c false :: k)),
            [100; zo o; 0; 1000; zo o; w])
        else
         if strong w =? 0
         then
          Some
            (sett (seto s o (with_tok (with_word ob w') true)) t (with_frames x (FIncS101 o c :: k)),
             [100; zo o; 0; 1000; zo o; w])
         else
          Some
            (sett (seto s o (with_word ob w')) t (with_frames x (FRet c true :: k)),
             [100; zo o; 0; 1000; zo o; w])).
Proof. exact RcProtoP.proto_incs100. Qed.
Print Assumptions Proto_proto_incs100.

Theorem Proto_proto_incs101 :
  forall (s : state) (t : nat) (rec : list Z) (x : thr) (k : list frame),
       gett s t = Some x ->
       forall (o : nat) (c : cont) (ob : obj),
       frames x = FIncS101 o c :: k ->
       geto s o = Some ob ->
       micro s t rec =
       (let w := word ob in
        let w' := fadd w (nz (P_incs_adds w) 1) in
        if destructed w
        then
         Some
           (sett (seto s o (with_word ob w')) t (with_frames x (FRet c false :: k)),
            [101; zo o; 0; 1001; zo o; w])
        else
         if negb (strong w =? 0)
         then
          Some
            (sett (seto s o (with_word ob w')) t (with_frames x (FRet c true :: k)),
             [101; zo o; 0; 1001; zo o; w])
         else
          Some
            (sett (seto s o (with_tok (with_word ob w') true)) t (with_frames x (FIncS101 o c :: k)),
             [101; zo o; 0; 1001; zo o; w])).
Proof. exact RcProtoP.proto_incs101. Qed.
Print Assumptions Proto_proto_incs101.

Theorem Proto_proto_decs112 :
  forall (s : state) (t : nat) (rec : list Z) (x : thr) (k : list frame),
       gett s t = Some x ->
       forall (o : nat) (cnt r cur : Z) (tmp own : bool) (ob : obj),
       frames x = FDecS112 o cnt r cur tmp own :: k ->
       geto s o = Some ob ->
       word ob = cur ->
       micro s t rec =
       (let ob' :=
          {|
            word := snd (ncas (P_decs_cas cur cnt r) 0);
            dropped := dropped ob;
            freed := freed ob;
            tok := if own then tok ob else false;
            wtok := wtok ob;
            links := links ob
          |} in
        let s1 := seto s o ob' in
        let s2 := if strong cur =? cnt then defer s1 KDestruct o else s1 in
        Some (sett s2 t (with_frames x (if tmp then FUnpinTmp :: k else k)), [112; zo o; 0; 1012; zo o; 1])).
Proof. exact RcProtoP.proto_decs112. Qed.
Print Assumptions Proto_proto_decs112.

Theorem Proto_proto_td113 :
  forall (s : state) (t : nat) (rec : list Z) (x : thr) (k : list frame),
       gett s t = Some x ->
       forall (o : nat) (ob : obj),
       frames x = FTD113 o :: k ->
       geto s o = Some ob ->
       micro s t rec =
       (let w := word ob in
        if 0 <? strong w
        then
         Some
           (sett s t (with_frames x (FDecS110 o (nz (P_td_redecs w) 0) true false :: k)),
            [113; zo o; 0; 1013; zo o; w])
        else Some (sett s t (with_frames x (FTD114 o w :: k)), [113; zo o; 0; 1013; zo o; w])).
Proof. exact RcProtoP.proto_td113. Qed.
Print Assumptions Proto_proto_td113.

Theorem Proto_proto_td114_ok :
  forall (s : state) (t : nat) (rec : list Z) (x : thr) (k : list frame),
       gett s t = Some x ->
       forall (o : nat) (old : Z) (ob : obj),
       frames x = FTD114 o old :: k ->
       geto s o = Some ob ->
       word ob = old ->
       micro s t rec =
       Some
         (sett (seto s o (with_word ob (snd (ncas (P_td_cas old) 0)))) t
            (with_frames x (FDispEnter o 0 :: k)), [114; zo o; old]).
Proof. exact RcProtoP.proto_td114_ok. Qed.
Print Assumptions Proto_proto_td114_ok.

Theorem Proto_proto_td114_retry :
  forall (s : state) (t : nat) (rec : list Z) (x : thr) (k : list frame),
       gett s t = Some x ->
       forall (o : nat) (old : Z) (ob : obj),
       frames x = FTD114 o old :: k ->
       geto s o = Some ob ->
       word ob <> old ->
       micro s t rec =
       (let w := word ob in
        if 0 <? strong w
        then
         Some
           (sett s t (with_frames x (FDecS110 o (nz (P_td_redecs w) 0) true false :: k)), [114; zo o; old])
        else Some (sett s t (with_frames x (FTD114 o w :: k)), [114; zo o; old])).
Proof. exact RcProtoP.proto_td114_retry. Qed.
Print Assumptions Proto_proto_td114_retry.

Theorem Proto_proto_disp_enter :
  forall (s : state) (t : nat) (rec : list Z) (x : thr) (k : list frame),
       gett s t = Some x ->
       forall (o : nat) (depth : Z),
       frames x = FDispEnter o depth :: k ->
       micro s t rec =
       (if depth >=? DEPTH_CAP
        then Some (sett (defer s KDestruct o) t (with_frames x k), [1020; zo o; depth])
        else Some (sett s t (with_frames x (FDisp115 o depth :: k)), [1020; zo o; depth])).
Proof. exact RcProtoP.proto_disp_enter. Qed.
Print Assumptions Proto_proto_disp_enter.

Theorem Proto_proto_disp130 :
  forall (s : state) (t : nat) (rec : list Z) (x : thr) (k : list frame),
       gett s t = Some x ->
       forall (o : nat) (depth w curr : Z) (ob : obj) (cc ne nc l : Z) (ck : bool),
       frames x = FDisp130 o depth w curr :: k ->
       geto s o = Some ob ->
       micro s t rec =
       (if negb (strong w =? 0) || negb (word ob =? w)
        then Some (sett (defer s KDestruct o) t (with_frames x k), [130; zo o; w; 1130; zo o; 0])
        else
         Some
           (sett
              (seto s o
                 (with_word ob (snd (ncas (P_disp_cas w cc ne nc depth l (negb (word ob =? w)) ck) 0)))) t
              (with_frames x (FDispDo o depth w curr :: k)), [130; zo o; w])).
Proof. exact RcProtoP.proto_disp130. Qed.
Print Assumptions Proto_proto_disp130.

Theorem Proto_proto_disp117 :
  forall (s : state) (t : nat) (rec : list Z) (x : thr) (k : list frame),
       gett s t = Some x ->
       forall (o : nat) (depth ne curr : Z) (outs : list link) (ob : obj),
       frames x = FDisp117 o depth ne curr outs :: k ->
       geto s o = Some ob ->
       micro s t rec =
       (if weaked (word ob)
        then
         Some
           (sett s t (with_frames x (FDecW107 o false true :: FKids depth ne curr outs :: k)), [117; zo o; 0])
        else
         Some
           (sett
              (seto s o
                 {|
                   word := word ob;
                   dropped := dropped ob;
                   freed := true;
                   tok := tok ob;
                   wtok := wtok ob;
                   links := links ob
                 |}) t (with_frames x (FKids depth ne curr outs :: k)), [117; zo o; 0; 1100; zo o; 0])).
Proof. exact RcProtoP.proto_disp117. Qed.
Print Assumptions Proto_proto_disp117.

Theorem Proto_proto_kid118 :
  forall (s : state) (t : nat) (rec : list Z) (x : thr) (k : list frame),
       gett s t = Some x ->
       forall (c : link) (depth ne curr : Z) (outs : list link) (ob : obj) (st nc l : Z) (cf ck : bool),
       frames x = FKid118 c depth ne curr outs :: k ->
       geto s (fst c) = Some ob ->
       micro s t rec =
       (let wc := word ob in
        let nxt := snd (ncas (P_disp_cas st wc (child_stamp curr ne (snd c) (epoch wc)) nc depth l cf ck) 1)
          in
        Some
          (sett s t (with_frames x (FKid119 c wc nxt depth ne curr outs :: k)),
           [118; zo (fst c); snd c; 1018; zo (fst c); wc])).
Proof. exact RcProtoP.proto_kid118. Qed.
Print Assumptions Proto_proto_kid118.

Theorem Proto_proto_kid119_ok :
  forall (s : state) (t : nat) (rec : list Z) (x : thr) (k : list frame),
       gett s t = Some x ->
       forall (c : link) (wc nxt depth ne curr : Z) (outs : list link) (ob : obj) 
         (st cc nep l : Z) (cf ck : bool),
       frames x = FKid119 c wc nxt depth ne curr outs :: k ->
       geto s (fst c) = Some ob ->
       word ob = wc ->
       0 <= depth < 2 ^ 63 ->
       micro s t rec =
       (let s1 := seto s (fst c) (with_word ob nxt) in
        if strong nxt =? 0
        then
         Some
           (sett s1 t
              (with_frames x
                 (FDispEnter (fst c) (nz (P_disp_depths st cc nep nxt depth l cf ck) 0)
                  :: FKids depth ne curr outs :: k)), [119; zo (fst c); nxt; 1019; zo (fst c); 1])
        else
         Some
           (sett s1 t (with_frames x (FKids depth ne curr outs :: k)),
            [119; zo (fst c); nxt; 1019; zo (fst c); 1])).
Proof. exact RcProtoP.proto_kid119_ok. Qed.
Print Assumptions Proto_proto_kid119_ok.

Theorem Proto_proto_decw107 :
  forall (s : state) (t : nat) (rec : list Z) (x : thr) (k : list frame),
       gett s t = Some x ->
       forall (o : nat) (tmp own : bool) (ob : obj),
       frames x = FDecW107 o tmp own :: k ->
       geto s o = Some ob ->
       micro s t rec =
       (let w := word ob in
        let ob' :=
          {|
            word := fsub w (nz (P_decw_subs w) 0);
            dropped := dropped ob;
            freed := freed ob;
            tok := tok ob;
            wtok := if own then wtok ob else false;
            links := links ob
          |} in
        let s1 := seto s o ob' in
        let s2 := if weak w =? 1 then defer s1 KDealloc o else s1 in
        Some (sett s2 t (with_frames x k), [107; zo o; 0])).
Proof. exact RcProtoP.proto_decw107. Qed.
Print Assumptions Proto_proto_decw107.

Theorem Proto_proto_tde102 :
  forall (s : state) (t : nat) (rec : list Z) (x : thr) (k : list frame),
       gett s t = Some x ->
       forall (o : nat) (ob : obj),
       frames x = FTDe102 o :: k ->
       geto s o = Some ob ->
       micro s t rec =
       (if 0 <? weak (word ob)
        then Some (sett s t (with_frames x (FDecW107 o true false :: k)), [102; zo o; 0])
        else
         Some
           (sett
              (seto s o
                 {|
                   word := word ob;
                   dropped := dropped ob;
                   freed := true;
                   tok := tok ob;
                   wtok := wtok ob;
                   links := links ob
                 |}) t (with_frames x k), [102; zo o; 0; 1100; zo o; 0])).
Proof. exact RcProtoP.proto_tde102. Qed.
Print Assumptions Proto_proto_tde102.

Theorem Proto_proto_incw103 :
  forall (s : state) (t : nat) (rec : list Z) (x : thr) (k : list frame),
       gett s t = Some x ->
       forall (o : nat) (cnt : Z) (ob : obj),
       frames x = FIncW103 o cnt :: k ->
       geto s o = Some ob ->
       micro s t rec =
       (let w := word ob in
        if negb (weaked w)
        then Some (sett s t (with_frames x (FIncW104 o cnt w :: k)), [103; zo o; 0; 1003; zo o; w])
        else Some (sett s t (with_frames x (FIncW105 o cnt :: k)), [103; zo o; 0; 1003; zo o; w])).
Proof. exact RcProtoP.proto_incw103. Qed.
Print Assumptions Proto_proto_incw103.

Theorem Proto_proto_incw104_ok :
  forall (s : state) (t : nat) (rec : list Z) (x : thr) (k : list frame),
       gett s t = Some x ->
       forall (o : nat) (cnt old : Z) (ob : obj) (f : Z),
       frames x = FIncW104 o cnt old :: k ->
       geto s o = Some ob ->
       word ob = old ->
       micro s t rec =
       Some
         (sett (seto s o (with_word ob (snd (ncas (P_incw_cas old cnt f) 0)))) t (with_frames x k),
          [104; zo o; 0]).
Proof. exact RcProtoP.proto_incw104_ok. Qed.
Print Assumptions Proto_proto_incw104_ok.

Theorem Proto_proto_incw104_retry :
  forall (s : state) (t : nat) (rec : list Z) (x : thr) (k : list frame),
       gett s t = Some x ->
       forall (o : nat) (cnt old : Z) (ob : obj),
       frames x = FIncW104 o cnt old :: k ->
       geto s o = Some ob ->
       word ob <> old ->
       micro s t rec =
       (let w := word ob in
        if negb (weaked w)
        then Some (sett s t (with_frames x (FIncW104 o cnt w :: k)), [104; zo o; 0])
        else Some (sett s t (with_frames x (FIncW105 o cnt :: k)), [104; zo o; 0])).
Proof. exact RcProtoP.proto_incw104_retry. Qed.
Print Assumptions Proto_proto_incw104_retry.

Theorem Proto_proto_incw105 :
  forall (s : state) (t : nat) (rec : list Z) (x : thr) (k : list frame),
       gett s t = Some x ->
       forall (o : nat) (cnt : Z) (ob : obj) (old : Z),
       frames x = FIncW105 o cnt :: k ->
       geto s o = Some ob ->
       micro s t rec =
       (let w := word ob in
        let w' := fadd w (nz (P_incw_adds old cnt w) 0) in
        if weak w =? 0
        then
         Some
           (sett
              (seto s o
                 {|
                   word := w';
                   dropped := dropped ob;
                   freed := freed ob;
                   tok := tok ob;
                   wtok := true;
                   links := links ob
                 |}) t (with_frames x (FIncW106 o :: k)), [105; zo o; cnt])
        else Some (sett (seto s o (with_word ob w')) t (with_frames x k), [105; zo o; cnt])).
Proof. exact RcProtoP.proto_incw105. Qed.
Print Assumptions Proto_proto_incw105.

Theorem Proto_proto_incw106 :
  forall (s : state) (t : nat) (rec : list Z) (x : thr) (k : list frame),
       gett s t = Some x ->
       forall (o : nat) (ob : obj) (old cnt f : Z),
       frames x = FIncW106 o :: k ->
       geto s o = Some ob ->
       micro s t rec =
       Some
         (sett (seto s o (with_word ob (fadd (word ob) (nz (P_incw_adds old cnt f) 1)))) t (with_frames x k),
          [106; zo o; 0]).
Proof. exact RcProtoP.proto_incw106. Qed.
Print Assumptions Proto_proto_incw106.

Theorem Proto_proto_isnd109_ok :
  forall (s : state) (t : nat) (rec : list Z) (x : thr) (k : list frame),
       gett s t = Some x ->
       forall (o : nat) (old r : Z) (c : cont) (ob : obj),
       frames x = FIsND109 o old r c :: k ->
       geto s o = Some ob ->
       word ob = old ->
       micro s t rec =
       (let ob' :=
          {|
            word := snd (ncas (P_isnd_cas old r) 0);
            dropped := dropped ob;
            freed := freed ob;
            tok := if strong old =? 0 then true else tok ob;
            wtok := wtok ob;
            links := links ob
          |} in
        Some (sett (seto s o ob') t (with_frames x (FRet c true :: k)), [109; zo o; old])).
Proof. exact RcProtoP.proto_isnd109_ok. Qed.
Print Assumptions Proto_proto_isnd109_ok.

Theorem Proto_proto_isnd109_retry :
  forall (s : state) (t : nat) (rec : list Z) (x : thr) (k : list frame),
       gett s t = Some x ->
       forall (o : nat) (old r : Z) (c : cont) (ob : obj),
       frames x = FIsND109 o old r c :: k ->
       geto s o = Some ob ->
       word ob <> old ->
       micro s t rec =
       (let w := word ob in
        if negb (destructed w)
        then Some (sett s t (with_frames x (FIsND109 o w r c :: k)), [109; zo o; old])
        else Some (sett s t (with_frames x (FRet c false :: k)), [109; zo o; old])).
Proof. exact RcProtoP.proto_isnd109_retry. Qed.
Print Assumptions Proto_proto_isnd109_retry.

Theorem Proto_proto_alloc_word :
  forall n : Z, alloc_word n = wrap 64 (wrap 64 (n * COUNT) + WEAK_COUNT).
Proof. exact RcProtoP.proto_alloc_word. Qed.
Print Assumptions Proto_proto_alloc_word.

