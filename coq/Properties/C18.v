(* C18 -- pinned statements only (generated once by tools/pin.py from `Check`, then fixed); proofs in RegListP.v *)
From Coq Require Import ZArith List Bool Lia Arith.
Import ListNotations.
Require Import RegList RegListP.
Local Open Scope Z_scope.

Theorem C18_chain_shape :
  forall (prog : list Z) (sched : list nat),
       let s := run (init prog) sched in
       exists l : list Z,
         path (heap s) (head s) l /\
         NoDup l /\
         (forall e : Z, inserted s e -> mark (get (heap s) e) = false -> In e l) /\
         (forall y : Z, In y l -> inserted s y).
Proof. exact RegListP.chain_shape_reachable. Qed.
Print Assumptions C18_chain_shape.

Theorem C18_trav_position_reach :
  forall (s : state) (g : ghost) (t : nat) (th : thread) (x : Z),
       Inv s g ->
       nth_error (threads s) t = Some th ->
       (exists (pred c : Z) (acc : list Z), tpc th = P54 pred c acc /\ (x = c \/ x = pred /\ pred <> 0)) \/
       (exists (pred c succ : Z) (acc : list Z),
          tpc th = P55 pred c succ acc /\ (x = c \/ x = pred /\ pred <> 0)) ->
       (stamp g x > 0)%nat /\
       (exists l : list Z,
          path (heap s) x l /\
          NoDup l /\
          (forall e : Z, (0 < stamp g e <= stamp g x)%nat -> mark (get (heap s) e) = false -> In e l)).
Proof. exact RegListP.trav_position_reach. Qed.
Print Assumptions C18_trav_position_reach.

Theorem C18_marks_monotone :
  forall (s : state) (t : nat) (s' : state) (o : list Z),
       step s t = Some (s', o) ->
       (forall x : Z, mark (get (heap s) x) = true -> mark (get (heap s') x) = true) /\
       (forall x : Z, 1 <= x <= Z.of_nat (length (heap s)) -> uid (get (heap s') x) = uid (get (heap s) x)) /\
       (length (heap s) <= length (heap s'))%nat.
Proof. exact RegListP.step_heap_facts. Qed.
Print Assumptions C18_marks_monotone.

Theorem C18_word_changes :
  forall (prog : list Z) (sched : list nat) (t : nat) (s' : state) (o : list Z) (P : Z),
       let s := run (init prog) sched in
       step s t = Some (s', o) ->
       P = 0 \/ inserted s P ->
       pv (heap s') (head s') P = pv (heap s) (head s) P \/
       P = 0 /\
       (exists e : Z,
          pc_of s t = Some (P51 e (head s)) /\
          ~ inserted s e /\
          inserted s' e /\ head s' = e /\ next (get (heap s') e) = head s /\ heap s' = heap s) \/
       (exists (c succ : Z) (acc : list Z),
          pc_of s t = Some (P55 P c succ acc) /\
          pv (heap s) (head s) P = c /\
          inserted s c /\
          mark (get (heap s) c) = true /\
          (P <> 0 -> mark (get (heap s) P) = false) /\ pv (heap s') (head s') P = next (get (heap s) c)).
Proof. exact RegListP.word_changes. Qed.
Print Assumptions C18_word_changes.

Theorem C18_insert_only_at_head :
  forall (prog : list Z) (sched : list nat) (t : nat) (s' : state) (o : list Z) (e : Z),
       let s := run (init prog) sched in
       step s t = Some (s', o) ->
       ~ inserted s e ->
       inserted s' e ->
       head s' = e /\ next (get (heap s') e) = head s /\ heap s' = heap s /\ o = [51; e; head s; 2000; 0; 0].
Proof. exact RegListP.insert_only_at_head. Qed.
Print Assumptions C18_insert_only_at_head.

Theorem C18_unlink_once :
  forall prog sched : list Z, NoDup (flat_map finalized (replay prog sched)).
Proof. exact RegListP.C18_unlink_once. Qed.
Print Assumptions C18_unlink_once.

Theorem C18_finalize_calls :
  forall (s : state) (t : nat) (s' : state) (o : list Z),
       step s t = Some (s', o) ->
       finalize_calls o = map (fun c : Z => uid (get (heap s) c)) (finalized o) /\
       (length (finalized o) <= 1)%nat.
Proof. exact RegListP.C18_finalize_calls. Qed.
Print Assumptions C18_finalize_calls.

Theorem C18_unlink_marked :
  forall (prog : list Z) (sched : list nat) (t : nat) (s' : state) (o : list Z) (c : Z),
       let s := run (init prog) sched in
       step s t = Some (s', o) -> In c (finalized o) -> mark (get (heap s) c) = true /\ inserted s c.
Proof. exact RegListP.C18_unlink_marked. Qed.
Print Assumptions C18_unlink_marked.

Theorem C18_complete_scan :
  forall (prog : list Z) (sched0 sched1 : list nat) (t : nat) (th0 th1 : thread) 
         (s2 : state) (o : list Z) (th2 : thread) (e : Z),
       let s0 := run (init prog) sched0 in
       let s1 := run s0 sched1 in
       nth_error (threads s0) t = Some th0 ->
       in_trav (tpc th0) = false ->
       inserted s0 e ->
       nth_error (threads s1) t = Some th1 ->
       trav_pc (tpc th1) = true ->
       step s1 t = Some (s2, o) ->
       nth_error (threads s2) t = Some th2 ->
       tpc th2 = POp ->
       mark (get (heap s1) e) = false ->
       exists pre acc : list Z,
         sites 2002 pre = [] /\ o = pre ++ result 1 acc /\ In (uid (get (heap s1) e)) acc.
Proof. exact RegListP.C18_complete_scan. Qed.
Print Assumptions C18_complete_scan.

Theorem C18_no_dup :
  forall (prog : list Z) (sched : list nat) (t : nat) (th1 : thread) (s2 : state) 
         (o : list Z) (th2 : thread),
       let s1 := run (init prog) sched in
       nth_error (threads s1) t = Some th1 ->
       trav_pc (tpc th1) = true \/ (exists acc : list Z, tpc th1 = P56 acc) ->
       step s1 t = Some (s2, o) ->
       nth_error (threads s2) t = Some th2 ->
       tpc th2 = POp ->
       exists (pre : list Z) (ok : Z) (ents : list Z),
         sites 2002 pre = [] /\
         o = pre ++ result ok (map (fun e : Z => uid (get (heap s1) e)) ents) /\
         NoDup ents /\ (forall e : Z, In e ents -> inserted s1 e).
Proof. exact RegListP.C18_no_dup. Qed.
Print Assumptions C18_no_dup.

