(* memory orderings of src/ebr_impl/internal.rs, src/ebr_impl/guard.rs, src/ebr_impl/collector.rs, src/ebr_impl/default.rs, src/ebr_impl/deferred.rs, src/ebr_impl/pointers.rs, src/ebr_impl/epoch.rs, src/ebr_impl/sync/once_lock.rs: at least those of the reference table (see OrderP.v) *)
From Coq Require Import ZArith List Bool String.
Import ListNotations.
Require Import OrderW OrderRef OrderP.
Local Open Scope string_scope.

Theorem orderings_ebr_cover_reference :
  files_ok ["src/ebr_impl/internal.rs"; "src/ebr_impl/guard.rs"; "src/ebr_impl/collector.rs"; "src/ebr_impl/default.rs"; "src/ebr_impl/deferred.rs"; "src/ebr_impl/pointers.rs"; "src/ebr_impl/epoch.rs"; "src/ebr_impl/sync/once_lock.rs"] = true.
Proof. vm_compute. reflexivity. Qed.
Print Assumptions orderings_ebr_cover_reference.
