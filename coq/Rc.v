(* M3 -- the reference-counting protocol of src/utils.rs (count word of one object: strong/weak
   counts, DESTRUCTED/WEAKED flags, stamp) and the API operations of strong.rs / weak.rs that reach
   it, over an ABSTRACT epoch-based reclamation layer (AbsEBR):

     - a global epoch G; a thread inside a user critical section has announced [ann] = the epoch at
       which it pinned; G may advance only when every thread inside a critical section has ann = G
       (so G <= ann + 1, which is theorem C14 of the concrete EBR model Ebr.v);
     - a deferred function may start only when G >= (epoch at deferral) + EXPIRE_AFTER
       (theorem C13 of Ebr.v is the consequence: no critical section active at deferral is still active);
     - WHEN a deferred function runs, and on which thread, is nondeterministic: the model is driven
       by an oracle (the observations recorded from the implementation), and every theorem
       quantifies over all oracles.

   Granularity: one [step] of thread t = the access at the yield site t is blocked at (hook sites
   100..119 of utils.rs, plus the harness' operation-start site 1) followed by the thread-local
   computation up to its next yield site.  EBR-internal sites are not yield points here.
   Count words go through the GENERATED Gen/StateW.v.  Memory model: SC (utils.rs is all SeqCst). *)
From Coq Require Import ZArith List Bool Lia.
Import ListNotations.
Require Import Params StateW DisposeW.
Local Open Scope Z_scope.

(* ---- objects *)
Record obj := {
  word : Z;          (* the AtomicU64 count word *)
  dropped : bool;    (* payload: pop_edges / destructor have run *)
  freed : bool;      (* block deallocated *)
  tok : bool;        (* ghost: one unit of the strong count is the token owed to the pending attempt *)
}.

Inductive handle :=
| HNone
| HRc (o : nat)                  (* owned strong reference; o = 0 is the null pointer *)
| HWeak (o : nat)
| HSnap (o : nat) (ser : nat)    (* Snapshot obtained in critical section number ser *)
| HWSnap (o : nat) (ser : nat)
| HIter (o : nat) (rem : Z).     (* NewRcIter with rem shares not yet yielded *)

Inductive pkind := KDestruct | KDealloc.
Record pend := { pk : pkind; po : nat; pG : Z; pwit : list (nat * nat) }.

(* what to do with the boolean a procedure returns: vars[cdst] := if b then cok else cfail *)
Record cont := { cdst : nat; cok : handle; cfail : handle; cign : bool (* the caller ignores the result *) }.

Inductive frame :=
| FStart                                     (* yield: thread start *)
| FOp                                        (* yield 1: operation boundary *)
| FOpEnd (opc : Z)                           (* local: emits the operation result *)
| FRet (k : cont) (b : bool)                 (* local: deliver a procedure result *)
| FMay                                       (* local + oracle: may deferred functions start here? *)
| FAwait                                     (* yield: a deferred function starts (site 113 / 102) *)
| FEndClosure                                (* local *)
| FIncS100 (o : nat) (k : cont)              (* yields: increment_strong *)
| FIncS101 (o : nat) (k : cont)
| FDecS110 (o : nat) (cnt : Z) (tmp : bool) (own : bool)          (* decrement_strong *)
| FDecS111 (o : nat) (cnt r : Z) (tmp own : bool)
| FDecS112 (o : nat) (cnt r cur : Z) (tmp own : bool)
| FTD113 (o : nat)                           (* try_destruct *)
| FTD114 (o : nat) (old : Z)
| FDisp115 (o : nat) (depth : Z)             (* dispose_general_node *)
| FDisp116 (o : nat) (depth w : Z)
| FDisp117 (o : nat) (depth : Z)
| FDecW107 (o : nat) (tmp : bool)            (* decrement_weak *)
| FTDe102 (o : nat)                          (* try_dealloc *)
| FIncW103 (o : nat) (cnt : Z)               (* increment_weak *)
| FIncW104 (o : nat) (cnt old : Z)
| FIncW105 (o : nat) (cnt : Z)
| FIncW106 (o : nat)
| FIsND108 (o : nat) (k : cont)              (* is_not_destructed *)
| FIsND109 (o : nat) (old : Z) (k : cont).

Definition is_yield (f : frame) : bool :=
  match f with
  | FOpEnd _ | FRet _ _ | FMay | FEndClosure => false
  | _ => true
  end.

Record thr := {
  vars : list handle;
  gdepth : nat;         (* user guards held *)
  ann : Z;              (* epoch announced by the current user critical section *)
  serial : nat;         (* number of the current / last user critical section *)
  inclosure : bool;     (* running a deferred function (collection phase) *)
  frames : list frame;
  prog : list (list Z); (* remaining operations: opcode :: arguments *)
  res : Z;              (* result of the operation in progress *)
}.

Definition incs (t : thr) : bool := negb (Nat.eqb (gdepth t) 0).

Record state := {
  G : Z;
  objs : list obj;          (* object id i+1 at index i *)
  threads : list thr;
  pending : list pend;
  err : Z;                  (* 0 = fine; otherwise the first protocol violation the model saw *)
}.

(* ---- plumbing *)
Fixpoint set_nth {A} (l : list A) (n : nat) (x : A) : list A :=
  match l, n with
  | [], _ => []
  | _ :: r, O => x :: r
  | a :: r, S m => a :: set_nth r m x
  end.

Definition geto (s : state) (o : nat) : option obj :=
  match o with O => None | S i => nth_error (objs s) i end.

Definition seto (s : state) (o : nat) (x : obj) : state :=
  match o with
  | O => s
  | S i => {| G := G s; objs := set_nth (objs s) i x; threads := threads s; pending := pending s; err := err s |}
  end.

Definition with_word (x : obj) (w : Z) : obj := {| word := w; dropped := dropped x; freed := freed x; tok := tok x |}.
Definition with_tok (x : obj) (b : bool) : obj := {| word := word x; dropped := dropped x; freed := freed x; tok := b |}.

Definition sett (s : state) (t : nat) (x : thr) : state :=
  {| G := G s; objs := objs s; threads := set_nth (threads s) t x; pending := pending s; err := err s |}.

Definition with_frames (x : thr) (fs : list frame) : thr :=
  {| vars := vars x; gdepth := gdepth x; ann := ann x; serial := serial x; inclosure := inclosure x;
     frames := fs; prog := prog x; res := res x |}.
Definition with_vars (x : thr) (v : list handle) : thr :=
  {| vars := v; gdepth := gdepth x; ann := ann x; serial := serial x; inclosure := inclosure x;
     frames := frames x; prog := prog x; res := res x |}.
Definition with_res (x : thr) (r : Z) : thr :=
  {| vars := vars x; gdepth := gdepth x; ann := ann x; serial := serial x; inclosure := inclosure x;
     frames := frames x; prog := prog x; res := r |}.

Definition set_err (s : state) (e : Z) : state :=
  {| G := G s; objs := objs s; threads := threads s; pending := pending s; err := if err s =? 0 then e else err s |}.
Definition set_G (s : state) (g : Z) : state :=
  {| G := g; objs := objs s; threads := threads s; pending := pending s; err := err s |}.
Definition set_pending (s : state) (p : list pend) : state :=
  {| G := G s; objs := objs s; threads := threads s; pending := p; err := err s |}.

Definition getv (x : thr) (i : nat) : handle := nth i (vars x) HNone.

(* ---- AbsEBR *)
Fixpoint witnesses_from (ls : list thr) (i : nat) : list (nat * nat) :=
  match ls with
  | [] => []
  | l :: r => (if incs l then [(i, serial l)] else []) ++ witnesses_from r (S i)
  end.
Definition witnesses (s : state) : list (nat * nat) := witnesses_from (threads s) 0.

(* the epoch may advance only when every thread inside a critical section announced the current epoch *)
Definition can_advance (s : state) : bool :=
  forallb (fun l => negb (incs l) || (ann l =? G s)) (threads s).

(* raise G to g (g - G advances), recording error 3 if one of them is not allowed *)
Fixpoint advance_to (fuel : nat) (s : state) (g : Z) : state :=
  match fuel with
  | O => s
  | S n => if G s <? g then
             advance_to n (set_G (if can_advance s then s else set_err s 3) (G s + 1)) g
           else s
  end.
Definition see_epoch (s : state) (g : Z) : state := advance_to (Z.to_nat (g - G s)) s g.

Definition defer (s : state) (k : pkind) (o : nat) : state :=
  set_pending s (pending s ++ [{| pk := k; po := o; pG := G s; pwit := witnesses s |}]).

Definition pkind_eqb (a b : pkind) : bool :=
  match a, b with KDestruct, KDestruct | KDealloc, KDealloc => true | _, _ => false end.

Fixpoint take_pending (l : list pend) (k : pkind) (o : nat) : option (pend * list pend) :=
  match l with
  | [] => None
  | p :: r => if pkind_eqb (pk p) k && Nat.eqb (po p) o then Some (p, r)
              else match take_pending r k o with
                   | Some (q, r') => Some (q, p :: r')
                   | None => None
                   end
  end.

(* ---- oracle access: the recorded observations of the current step, flat triples after the hint *)
Fixpoint find_site (rec : list Z) (site : Z) : option (Z * Z) :=
  match rec with
  | s0 :: a :: b :: r => if s0 =? site then Some (a, b) else find_site r site
  | _ => None
  end.
Definition has_site (rec : list Z) (site : Z) : bool :=
  match find_site rec site with Some _ => true | None => false end.
Definition oracle_epoch (s : state) (rec : list Z) (site : Z) : Z :=
  match find_site rec site with Some (_, g) => g | None => G s end.

(* ---- word helpers (raw fetch_add / fetch_sub on the AtomicU64) *)
Definition fadd (w d : Z) : Z := wrap 64 (w + d).
Definition fsub (w d : Z) : Z := wrap 64 (w - d).

Definition zo (o : nat) : Z := Z.of_nat o.

(* frames executing one API operation (after the op-start observation); returns the frames and the
   updated thread (handles consumed by the operation are taken out of the variables first) *)
Definition KSET (d : nat) (h : handle) : cont := {| cdst := d; cok := h; cfail := h; cign := true |}.

Definition setv (x : thr) (i : nat) (h : handle) : thr := with_vars x (set_nth (vars x) i h).

Definition nat_of (z : Z) : nat := Z.to_nat z.

(* new object with [n] strong shares; returns its id *)
Definition alloc (s : state) (n : Z) : state * nat :=
  ({| G := G s; objs := objs s ++ [{| word := alloc_word n; dropped := false; freed := false; tok := false |}];
      threads := threads s; pending := pending s; err := err s |}, S (length (objs s))).

Definition dec_frames (o : nat) (cnt : Z) (tmp : bool) : list frame :=
  match o with O => [] | _ => [FDecS110 o cnt tmp true] end.
Definition decw_frames (o : nat) (tmp : bool) : list frame :=
  match o with O => [] | _ => [FDecW107 o tmp] end.
Definition incs_frames (o : nat) (k : cont) : list frame :=
  match o with O => [FRet k true] | _ => [FIncS100 o k] end.
Definition incw_frames (o : nat) (cnt : Z) (k : cont) : list frame :=
  match o with O => [FRet k true] | _ => [FIncW103 o cnt; FRet k true] end.

Fixpoint set_range (v : list handle) (d : nat) (n : nat) (h : handle) : list handle :=
  match n with O => v | S m => set_range (set_nth v d h) (S d) m h end.

(* operation start: (state, thread, frames to run, extra observations) *)
Definition start_op (s : state) (x : thr) (rec : list Z) (op : list Z) : state * thr * list frame * list Z :=
  let tmp := Nat.eqb (gdepth x) 0 in
  match op with
  | [0; d] =>                                   (* Rc::new *)
      let (s1, o) := alloc s 1 in (s1, setv x (nat_of d) (HRc o), [], [1103; zo o; 1])
  | [1; n; d] =>                                (* Rc::new_many::<n> *)
      if n =? 0 then let (s1, o) := alloc s 1 in (s1, x, dec_frames o 1 tmp, [1103; zo o; 1])
      else let (s1, o) := alloc s n in
           (s1, with_vars x (set_range (vars x) (nat_of d) (nat_of n) (HRc o)), [], [1103; zo o; n])
  | [2; c; d] =>                                (* Rc::new_many_iter *)
      if c =? 0 then let (s1, o) := alloc s 1 in (s1, setv x (nat_of d) (HIter 0 0), dec_frames o 1 tmp, [1103; zo o; 1])
      else let (s1, o) := alloc s c in (s1, setv x (nat_of d) (HIter o c), [], [1103; zo o; c])
  | [3; i; d] =>                                (* NewRcIter::next *)
      match getv x (nat_of i) with
      | HIter o rem => if 0 <? rem then (s, with_res (setv (setv x (nat_of i) (HIter o (rem - 1))) (nat_of d) (HRc o)) 1, [], [])
                       else (s, with_res (setv x (nat_of d) HNone) 0, [], [])
      | _ => (s, x, [], [])
      end
  | [4; i] =>                                   (* NewRcIter::abort(guard) *)
      match getv x (nat_of i) with
      | HIter o rem => (s, setv x (nat_of i) HNone, if 0 <? rem then dec_frames o rem false else [], [])
      | _ => (s, x, [], [])
      end
  | [5; i] =>                                   (* drop(NewRcIter) *)
      match getv x (nat_of i) with
      | HIter o rem => (s, setv x (nat_of i) HNone, if 0 <? rem then dec_frames o rem tmp else [], [])
      | _ => (s, x, [], [])
      end
  | [6; a; d] =>                                (* Rc::clone *)
      match getv x (nat_of a) with
      | HRc o => (s, x, incs_frames o (KSET (nat_of d) (HRc o)), [])
      | _ => (s, x, [], [])
      end
  | [7; a] =>                                   (* drop(Rc) *)
      match getv x (nat_of a) with
      | HRc o => (s, setv x (nat_of a) HNone, dec_frames o 1 tmp, [])
      | _ => (s, x, [], [])
      end
  | [8; a] =>                                   (* Rc::finalize(guard) *)
      match getv x (nat_of a) with
      | HRc o => (s, setv x (nat_of a) HNone, dec_frames o 1 false, [])
      | _ => (s, x, [], [])
      end
  | [9; a; d] =>                                (* Rc::downgrade *)
      match getv x (nat_of a) with
      | HRc o => (s, x, incw_frames o 1 (KSET (nat_of d) (HWeak o)), [])
      | _ => (s, x, [], [])
      end
  | [10; a; n; d] =>                            (* Rc::weak_many::<n> *)
      match getv x (nat_of a) with
      | HRc o => (s, with_vars x (set_range (vars x) (nat_of d) (nat_of n) (HWeak o)),
                  match o with O => [] | _ => [FIncW103 o n] end, [])
      | _ => (s, x, [], [])
      end
  | [11; a; d] =>                               (* Weak::clone *)
      match getv x (nat_of a) with
      | HWeak o => (s, x, incw_frames o 1 (KSET (nat_of d) (HWeak o)), [])
      | _ => (s, x, [], [])
      end
  | [12; a] =>                                  (* drop(Weak) *)
      match getv x (nat_of a) with
      | HWeak o => (s, setv x (nat_of a) HNone, decw_frames o tmp, [])
      | _ => (s, x, [], [])
      end
  | [13; a; d] =>                               (* Weak::upgrade *)
      match getv x (nat_of a) with
      | HWeak o => (s, x, incs_frames o {| cdst := nat_of d; cok := HRc o; cfail := HNone; cign := false |}, [])
      | _ => (s, x, [], [])
      end
  | [14; a; d] =>                               (* Rc::snapshot(guard) *)
      match getv x (nat_of a) with
      | HRc o => (s, setv x (nat_of d) (HSnap o (serial x)), [], [])
      | _ => (s, x, [], [])
      end
  | [15; a; d] =>                               (* Snapshot::counted (the result of increment_strong is ignored) *)
      match getv x (nat_of a) with
      | HSnap o _ => (s, x, incs_frames o (KSET (nat_of d) (HRc o)), [])
      | _ => (s, x, [], [])
      end
  | [16; a; d] =>                               (* Snapshot::downgrade *)
      match getv x (nat_of a) with
      | HSnap o n => (s, setv x (nat_of d) (HWSnap o n), [], [])
      | _ => (s, x, [], [])
      end
  | [17; a; d] =>                               (* WeakSnapshot::counted *)
      match getv x (nat_of a) with
      | HWSnap o _ => (s, x, incw_frames o 1 (KSET (nat_of d) (HWeak o)), [])
      | _ => (s, x, [], [])
      end
  | [18; a; d] =>                               (* WeakSnapshot::upgrade *)
      match getv x (nat_of a) with
      | HWSnap o n => (s, x, match o with
                             | O => [FRet (KSET (nat_of d) (HSnap 0 n)) true]
                             | _ => [FIsND108 o {| cdst := nat_of d; cok := HSnap o n; cfail := HNone; cign := false |}]
                             end, [])
      | _ => (s, x, [], [])
      end
  | [19; a; d] =>                               (* Weak::snapshot(guard) *)
      match getv x (nat_of a) with
      | HWeak o => (s, setv x (nat_of d) (HWSnap o (serial x)), [], [])
      | _ => (s, x, [], [])
      end
  | [20] =>                                     (* cs() *)
      match gdepth x with
      | O =>
          let g := oracle_epoch s rec 2100 in
          let s1 := see_epoch s g in
          (s1, {| vars := vars x; gdepth := 1; ann := G s1; serial := S (serial x); inclosure := inclosure x;
                  frames := frames x; prog := prog x; res := res x |}, [], [2100; 0; G s1])
      | S _ =>
          (s, {| vars := vars x; gdepth := S (gdepth x); ann := ann x; serial := serial x; inclosure := inclosure x;
                 frames := frames x; prog := prog x; res := res x |}, [], [])
      end
  | [21] =>                                     (* drop(guard); snapshots die with the outermost guard *)
      let v := match gdepth x with
               | S O => map (fun h => match h with HSnap _ _ | HWSnap _ _ => HNone | _ => h end) (vars x)
               | _ => vars x
               end in
      (s, {| vars := v; gdepth := pred (gdepth x); ann := ann x; serial := serial x; inclosure := inclosure x;
             frames := frames x; prog := prog x; res := res x |}, [], [])
  | [24; d] => (s, setv x (nat_of d) (HRc 0), [], [])            (* Rc::null *)
  | [25; _] => (s, x, [], [])                                     (* collection rounds: cs(); flush(); drop *)
  | _ => (set_err s 9, x, [], [])
  end.

(* the object the operation's first handle argument refers to (0 when there is none) *)
Definition hobj (h : handle) : Z :=
  match h with
  | HRc o | HWeak o | HSnap o _ | HWSnap o _ => zo o
  | HIter _ _ | HNone => 0
  end.
Definition primary (x : thr) (op : list Z) : Z :=
  match op with
  | opc :: a :: _ => if (3 <=? opc) && (opc <=? 19) then hobj (getv x (nat_of a)) else 0
  | _ => 0
  end.

Definition gett (s : state) (t : nat) : option thr := nth_error (threads s) t.

(* One transition of the top frame of thread [t]; [rec] = recorded observations of the current step
   (the oracle).  Returns the new state and the observations of this transition. *)
Definition micro (s : state) (t : nat) (rec : list Z) : option (state * list Z) :=
  match gett s t with
  | None => None
  | Some x =>
    match frames x with
    | [] => None
    | f :: k =>
      let ret (s1 : state) (x1 : thr) (fs : list frame) (o : list Z) := Some (sett s1 t (with_frames x1 fs), o) in
      match f with
      | FStart => ret s x k []
      | FOp =>
          match prog x with
          | [] => ret s x [] [1; 9; 0]
          | op :: rest =>
              let x0 := {| vars := vars x; gdepth := gdepth x; ann := ann x; serial := serial x; inclosure := inclosure x;
                           frames := frames x; prog := rest; res := 0 |} in
              match start_op s x0 rec op with
              | (s1, x1, fs, o) =>
                  ret s1 x1 (fs ++ FMay :: FOpEnd (hd 0 op) :: FOp :: k)
                      ([1; hd 0 op; hd 0 (tl op); 2001; primary x op; 0] ++ o)
              end
          end
      | FOpEnd opc => ret s x k [2000; opc; res x]
      | FRet c b =>
          ret s (with_res (setv x (cdst c) (if b then cok c else cfail c)) (if cign c then 1 else Z.b2z b)) k []
      | FMay =>
          if inclosure x then ret s x k []
          else if has_site rec 2000 then ret s x k []
          else ret s x (FAwait :: FMay :: k) []
      | FAwait =>
          (* a deferred function starts: which one is the oracle's choice *)
          let start (kd : pkind) (oz : Z) (fs : list frame) (site : Z) :=
            let o := nat_of oz in
            match take_pending (pending s) kd o with
            | None => ret (set_err s 1) x (fs ++ FEndClosure :: k) []
            | Some (p, rest) =>
                let s1 := see_epoch (set_pending s rest) (pG p + EXPIRE_AFTER) in
                let x1 := {| vars := vars x; gdepth := gdepth x; ann := ann x; serial := serial x; inclosure := true;
                             frames := frames x; prog := prog x; res := res x |} in
                Some (sett s1 t (with_frames x1 (fs ++ FEndClosure :: k)), [])
            end in
          match rec with
          | 113 :: oz :: _ => start KDestruct oz [FTD113 (nat_of oz)] 113
          | 102 :: oz :: _ => start KDealloc oz [FTDe102 (nat_of oz)] 102
          | _ => ret (set_err s 4) x k []
          end
      | FEndClosure =>
          ret s {| vars := vars x; gdepth := gdepth x; ann := ann x; serial := serial x; inclosure := false;
                   frames := frames x; prog := prog x; res := res x |} k []
      (* ---- increment_strong *)
      | FIncS100 o c =>
          match geto s o with
          | None => ret (set_err s 5) x k []
          | Some ob =>
              let w := word ob in
              let s1 := seto s o (with_word ob (fadd w COUNT)) in
              if destructed w then ret s1 x (FRet c false :: k) [100; zo o; 0; 1000; zo o; w]
              else if strong w =? 0 then
                     ret (seto s o (with_tok (with_word ob (fadd w COUNT)) true)) x (FIncS101 o c :: k) [100; zo o; 0; 1000; zo o; w]
                   else ret s1 x (FRet c true :: k) [100; zo o; 0; 1000; zo o; w]
          end
      | FIncS101 o c =>
          match geto s o with
          | None => ret (set_err s 5) x k []
          | Some ob =>
              let w := word ob in
              ret (seto s o (with_word ob (fadd w COUNT))) x (FRet c true :: k) [101; zo o; 0]
          end
      (* ---- decrement_strong *)
      | FDecS110 o cnt tmp own =>
          let r := oracle_epoch s rec 1010 in
          let s1 := see_epoch s r in
          ret s1 x (FDecS111 o cnt (G s1) tmp own :: k) [110; zo o; cnt; 1010; zo o; G s1]
      | FDecS111 o cnt r tmp own =>
          match geto s o with
          | None => ret (set_err s 5) x k []
          | Some ob => ret s x (FDecS112 o cnt r (word ob) tmp own :: k) [111; zo o; 0; 1011; zo o; word ob]
          end
      | FDecS112 o cnt r cur tmp own =>
          match geto s o with
          | None => ret (set_err s 5) x k []
          | Some ob =>
              if word ob =? cur then
                let w' := sub_strong (with_epoch cur r) cnt in
                let ob' := {| word := w'; dropped := dropped ob; freed := freed ob; tok := if own then tok ob else false |} in
                let s1 := seto s o ob' in
                let s2 := if strong cur =? cnt then defer s1 KDestruct o else s1 in
                ret s2 x k [112; zo o; 0; 1012; zo o; 1]
              else ret s x (FDecS111 o cnt r tmp own :: k) [112; zo o; 0; 1012; zo o; 0]
          end
      (* ---- try_destruct *)
      | FTD113 o =>
          match geto s o with
          | None => ret (set_err s 5) x k []
          | Some ob =>
              let w := word ob in
              if 0 <? strong w then ret s x (FDecS110 o 1 true false :: k) [113; zo o; 0; 1013; zo o; w]
              else ret s x (FTD114 o w :: k) [113; zo o; 0; 1013; zo o; w]
          end
      | FTD114 o old =>
          match geto s o with
          | None => ret (set_err s 5) x k []
          | Some ob =>
              if word ob =? old then
                ret (seto s o (with_word ob (with_destructed old true))) x (FDisp115 o 0 :: k)
                    [114; zo o; old; 1020; zo o; 0]
              else
                let w := word ob in
                if 0 <? strong w then ret s x (FDecS110 o 1 true false :: k) [114; zo o; old]
                else ret s x (FTD114 o w :: k) [114; zo o; old]
          end
      (* ---- dispose_general_node (objects without links) *)
      | FDisp115 o depth =>
          match geto s o with
          | None => ret (set_err s 5) x k []
          | Some ob => ret s x (FDisp116 o depth (word ob) :: k) [115; zo o; 0; 1015; zo o; word ob]
          end
      | FDisp116 o depth w =>
          let r := oracle_epoch s rec 1016 in
          let s1 := see_epoch s r in
          match geto s1 o with
          | None => ret (set_err s 5) x k []
          | Some ob =>
              if dispose_here depth (G s1) (epoch w) then
                ret (seto s1 o {| word := word ob; dropped := true; freed := freed ob; tok := tok ob |}) x
                    (FDisp117 o depth :: k) [116; zo o; 0; 1016; zo o; G s1; 1101; zo o; depth; 1102; zo o; depth]
              else
                ret (defer s1 KDestruct o) x k [116; zo o; 0; 1016; zo o; G s1; 1021; zo o; depth]
          end
      | FDisp117 o depth =>
          match geto s o with
          | None => ret (set_err s 5) x k []
          | Some ob =>
              if weaked (word ob) then ret s x (FDecW107 o false :: k) [117; zo o; 0]
              else ret (seto s o {| word := word ob; dropped := dropped ob; freed := true; tok := tok ob |}) x k
                       [117; zo o; 0; 1100; zo o; 0]
          end
      (* ---- decrement_weak / try_dealloc *)
      | FDecW107 o tmp =>
          match geto s o with
          | None => ret (set_err s 5) x k []
          | Some ob =>
              let w := word ob in
              let s1 := seto s o (with_word ob (fsub w WEAK_COUNT)) in
              let s2 := if weak w =? 1 then defer s1 KDealloc o else s1 in
              ret s2 x k [107; zo o; 0]
          end
      | FTDe102 o =>
          match geto s o with
          | None => ret (set_err s 5) x k []
          | Some ob =>
              if 0 <? weak (word ob) then ret s x (FDecW107 o true :: k) [102; zo o; 0]
              else ret (seto s o {| word := word ob; dropped := dropped ob; freed := true; tok := tok ob |}) x k
                       [102; zo o; 0; 1100; zo o; 0]
          end
      (* ---- increment_weak *)
      | FIncW103 o cnt =>
          match geto s o with
          | None => ret (set_err s 5) x k []
          | Some ob =>
              let w := word ob in
              if weaked w then ret s x (FIncW105 o cnt :: k) [103; zo o; 0; 1003; zo o; w]
              else ret s x (FIncW104 o cnt w :: k) [103; zo o; 0; 1003; zo o; w]
          end
      | FIncW104 o cnt old =>
          match geto s o with
          | None => ret (set_err s 5) x k []
          | Some ob =>
              if word ob =? old then
                ret (seto s o (with_word ob (add_weak (with_weaked old true) cnt))) x k [104; zo o; 0]
              else
                let w := word ob in
                if weaked w then ret s x (FIncW105 o cnt :: k) [104; zo o; 0]
                else ret s x (FIncW104 o cnt w :: k) [104; zo o; 0]
          end
      | FIncW105 o cnt =>
          match geto s o with
          | None => ret (set_err s 5) x k []
          | Some ob =>
              let w := word ob in
              let s1 := seto s o (with_word ob (fadd w (wrap 64 (cnt * WEAK_COUNT)))) in
              if weak w =? 0 then ret s1 x (FIncW106 o :: k) [105; zo o; cnt]
              else ret s1 x k [105; zo o; cnt]
          end
      | FIncW106 o =>
          match geto s o with
          | None => ret (set_err s 5) x k []
          | Some ob => ret (seto s o (with_word ob (fadd (word ob) WEAK_COUNT))) x k [106; zo o; 0]
          end
      (* ---- is_not_destructed *)
      | FIsND108 o c =>
          match geto s o with
          | None => ret (set_err s 5) x k []
          | Some ob =>
              let w := word ob in
              if negb (destructed w) && (strong w =? 0) then ret s x (FIsND109 o w c :: k) [108; zo o; 0]
              else ret s x (FRet c (negb (destructed w)) :: k) [108; zo o; 0]
          end
      | FIsND109 o old c =>
          match geto s o with
          | None => ret (set_err s 5) x k []
          | Some ob =>
              if word ob =? old then
                ret (seto s o (with_tok (with_word ob (add_strong old 1)) true)) x (FRet c true :: k) [109; zo o; old]
              else
                let w := word ob in
                if negb (destructed w) && (strong w =? 0) then ret s x (FIsND109 o w c :: k) [109; zo o; old]
                else ret s x (FRet c (negb (destructed w)) :: k) [109; zo o; old]
          end
      end
    end
  end.

Definition top_is_yield (s : state) (t : nat) : bool :=
  match gett s t with
  | Some x => match frames x with f :: _ => is_yield f | [] => false end
  | None => false
  end.

Fixpoint run_local (fuel : nat) (s : state) (t : nat) (rec acc : list Z) : state * list Z * bool :=
  match fuel with
  | O => (s, acc, false)
  | S n =>
      match gett s t with
      | Some x =>
          match frames x with
          | [] => (s, acc, true)
          | f :: _ =>
              if is_yield f then (s, acc, true)
              else match micro s t rec with
                   | Some (s', o) => run_local n s' t rec (acc ++ o)
                   | None => (s, acc, false)
                   end
          end
      | None => (s, acc, false)
      end
  end.

Definition top_is_await (s : state) (t : nat) : bool :=
  match gett s t with
  | Some x => match frames x with FAwait :: _ => true | _ => false end
  | None => false
  end.

(* one scheduled step; rec = recorded observations of this step.  A deferred function's first access
   (site 113 / 102) happens in the very step that starts it. *)
Definition step (s : state) (t : nat) (rec : list Z) : option (state * list Z) :=
  if top_is_yield s t then
    match micro s t rec with
    | Some (s1, o1) =>
        let first :=
          if top_is_await s t && top_is_yield s1 t then
            match micro s1 t rec with
            | Some (s1', o1') => Some (s1', o1 ++ o1')
            | None => None
            end
          else Some (s1, o1) in
        match first with
        | Some (s1', o1') =>
            match run_local 1000 s1' t rec o1' with
            | (s2, o2, true) => Some (s2, o2)
            | (_, _, false) => None
            end
        | None => None
        end
    | None => None
    end
  else None.

(* ---- program decoding.
   input: g0 :: nobj :: <nobj initial words> :: threads, each `-1 nvars <nvars handles: kind obj> nops <ops: len opcode args..>` *)
Definition dec_handle (kd o : Z) : handle :=
  match kd with
  | 1 => HRc (nat_of o)
  | 2 => HWeak (nat_of o)
  | _ => HNone
  end.

Fixpoint dec_vars (n : nat) (l : list Z) : list handle * list Z :=
  match n with
  | O => ([], l)
  | S m => match l with
           | kd :: o :: r => let (v, r') := dec_vars m r in (dec_handle kd o :: v, r')
           | _ => ([], [])
           end
  end.

Fixpoint dec_ops (n : nat) (l : list Z) : list (list Z) * list Z :=
  match n with
  | O => ([], l)
  | S m => match l with
           | len :: r =>
               let op := firstn (nat_of len) r in
               let (ops, r') := dec_ops m (skipn (nat_of len) r) in (op :: ops, r')
           | [] => ([], [])
           end
  end.

Fixpoint dec_threads (fuel : nat) (l : list Z) : list thr :=
  match fuel with
  | O => []
  | S f =>
      match l with
      | (-1) :: nv :: r =>
          let (v, r1) := dec_vars (nat_of nv) r in
          match r1 with
          | nops :: r2 =>
              let (ops, r3) := dec_ops (nat_of nops) r2 in
              {| vars := v ++ repeat HNone 8; gdepth := 0; ann := 0; serial := 0; inclosure := false;
                 frames := [FStart; FOp]; prog := ops; res := 0 |} :: dec_threads f r3
          | [] => []
          end
      | _ => []
      end
  end.

Definition init (prog : list Z) : state :=
  match prog with
  | g0 :: nobj :: r =>
      let ws := firstn (nat_of nobj) r in
      {| G := g0;
         objs := map (fun w => {| word := wrap 64 w; dropped := false; freed := false; tok := false |}) ws;
         threads := dec_threads (length r) (skipn (nat_of nobj) r);
         pending := []; err := 0 |}
  | _ => {| G := 0; objs := []; threads := []; pending := []; err := 0 |}
  end.

(* guided replay: the recorded step list supplies the oracle *)
Fixpoint replay_from (s : state) (sched : list Z) (recs : list (list Z)) : list (list Z) :=
  match sched, recs with
  | t :: r, rc :: rr =>
      match step s (nat_of t) rc with
      | Some (s', o) =>
          (if err s' =? 0 then o else o ++ [-777; err s'; 0]) :: replay_from s' r rr
      | None => [-999] :: replay_from s r rr
      end
  | _, _ => []
  end.

Definition rc_replay (prog sched : list Z) (recs : list (list Z)) : list (list Z) :=
  replay_from (init prog) sched recs.
