(* M3 -- the reference-counting protocol of src/utils.rs (count word of one object: strong/weak
   counts, DESTRUCTED/WEAKED flags, stamp), the recursive destruction of dispose_general_node, and
   the API operations of strong.rs / weak.rs that reach them (Rc, Weak, Snapshot, WeakSnapshot,
   NewRcIter, AtomicRc cells and link fields), over an ABSTRACT epoch-based reclamation layer:

     - a global epoch G; a thread inside a critical section has announced [ann] = the epoch at
       which it pinned; G may advance only when every thread inside a critical section has ann = G
       (so G <= ann + 1: theorem C14 of the concrete EBR model Ebr.v);
     - a deferred function may start only when G >= (epoch at deferral) + EXPIRE_AFTER
       (theorem C13 of Ebr.v is the consequence: no critical section active at deferral is still active);
     - WHEN a deferred function runs, and on which thread, is nondeterministic: the model is driven
       by an oracle (the observations recorded from the implementation), and every theorem
       quantifies over all oracles.

   Granularity: one [step] of thread t = the access at the yield site t is blocked at (hook sites
   100..130 of utils.rs / strong.rs, plus the harness' operation-start site 1) followed by the
   thread-local computation up to its next yield site.  EBR-internal sites are not yield points.
   Count words go through the GENERATED Gen/StateW.v, the reclaim decision and the merged (clamped) stamp
   through the GENERATED Gen/DisposeW.v.  Memory model: SC (utils.rs is all SeqCst).
   Tags are not modelled here (Cell.v does); timestamps of links and pointers are. *)
From Coq Require Import ZArith List Bool Lia.
Import ListNotations.
Require Import Params StateW DisposeW.
Local Open Scope Z_scope.

Definition link := (nat * Z)%type.        (* (target object, 0 = null ; timestamp residue) *)
Definition lw (l : link) : Z := Z.of_nat (fst l) * 16 + snd l.     (* canonical pointer word *)
Definition null_link : link := (O, 0).

(* ---- objects *)
Record obj := {
  word : Z;          (* the AtomicU64 count word *)
  dropped : bool;    (* payload: pop_edges / destructor have run *)
  freed : bool;      (* block deallocated *)
  tok : bool;        (* ghost: one unit of the strong count is the token owed to the pending attempt *)
  wtok : bool;       (* ghost: one unit of the weak count is the token owed to the pending try_dealloc *)
  links : list link; (* the two AtomicRc fields of the node *)
}.

Inductive handle :=
| HNone
| HRc (l : link)                  (* owned strong reference (pointer word with its timestamp bits) *)
| HWeak (l : link)
| HSnap (l : link) (ser : nat)    (* Snapshot obtained in critical section number ser *)
| HWSnap (l : link) (ser : nat)
| HIter (o : nat) (rem : Z).      (* NewRcIter with rem shares not yet yielded *)

Inductive pkind := KDestruct | KDealloc.
Record pend := { pk : pkind; po : nat; pG : Z; pwit : list (nat * nat) }.

(* what to do with the boolean a procedure returns: vars[cdst] := if b then cok else cfail *)
Record cont := { cdst : nat; cok : handle; cfail : handle; cign : bool (* the caller ignores the result *) }.

Inductive frame :=
| FStart                                     (* yield: thread start *)
| FOp                                        (* yield 1: operation boundary *)
| FOpEnd (opc : Z)                           (* local: emits the operation result *)
| FRet (k : cont) (b : bool)                 (* local: deliver a procedure result *)
| FMay                                       (* local + oracle: may deferred functions start here? *)
| FAwait                                     (* yield: a deferred function starts (site 113 / 102) *)
| FEndClosure                                (* local *)
| FUnpinTmp                                  (* local: the temporary guard of decrement_strong is dropped *)
| FIncS100 (o : nat) (k : cont)              (* yields: increment_strong *)
| FIncS101 (o : nat) (k : cont)
| FDecS110 (o : nat) (cnt : Z) (tmp : bool) (own : bool)          (* decrement_strong *)
| FDecS111 (o : nat) (cnt r : Z) (tmp own : bool)
| FDecS112 (o : nat) (cnt r cur : Z) (tmp own : bool)
| FTD113 (o : nat)                           (* try_destruct *)
| FTD114 (o : nat) (old : Z)
| FDispEnter (o : nat) (depth : Z)           (* local: dispose_general_node entry (depth cap) *)
| FDisp115 (o : nat) (depth : Z)
| FDisp116 (o : nat) (depth w : Z)
| FDisp130 (o : nat) (depth w curr : Z)      (* yield 130: a cascade child publishes DESTRUCTED *)
| FDispDo (o : nat) (depth w curr : Z)       (* local: pop_edges + destructor *)
| FDisp117 (o : nat) (depth ne curr : Z) (outs : list link)
| FKids (depth ne curr : Z) (outs : list link)                    (* local: next outgoing edge *)
| FKid118 (c : link) (depth ne curr : Z) (outs : list link)
| FKid119 (c : link) (wc nxt : Z) (depth ne curr : Z) (outs : list link)
| FDecW107 (o : nat) (tmp : bool) (own : bool)   (* decrement_weak; own = false: try_dealloc using up the token *)
| FTDe102 (o : nat)                          (* try_dealloc *)
| FIncW103 (o : nat) (cnt : Z)               (* increment_weak *)
| FIncW104 (o : nat) (cnt old : Z)
| FIncW105 (o : nat) (cnt : Z)
| FIncW106 (o : nat)
| FIsND108 (o : nat) (k : cont)              (* is_not_destructed *)
| FIsND109 (o : nat) (old r : Z) (k : cont)
| FLoad121 (c : Z) (d : nat)                 (* AtomicRc::load *)
| FSwap122 (c : Z) (new : link) (d : option nat)     (* store (d = None) / swap: hook before with_timestamp *)
| FSwap120 (c : Z) (new : link) (d : option nat)     (* with_timestamp, then the swap *)
| FCas120 (c : Z) (e : link) (des : link) (src d : nat)          (* compare_exchange: with_timestamp(desired) *)
| FCas123 (c : Z) (e : link) (desraw : link) (src d : nat).

Definition is_yield (f : frame) : bool :=
  match f with
  | FOpEnd _ | FRet _ _ | FMay | FEndClosure | FUnpinTmp | FDispEnter _ _ | FDispDo _ _ _ _ | FKids _ _ _ _ => false
  | _ => true
  end.

Record thr := {
  vars : list handle;
  gdepth : nat;         (* guards held: user guards and the temporary guard of decrement_strong *)
  ann : Z;              (* epoch announced by the current critical section *)
  serial : nat;         (* number of the current / last critical section *)
  inclosure : bool;     (* running a deferred function (collection phase) *)
  frames : list frame;
  prog : list (list Z); (* remaining operations: opcode :: arguments *)
  res : Z;              (* result of the operation in progress *)
  resw : Z;             (* pointer word returned by the operation in progress *)
}.

Definition incs (t : thr) : bool := negb (Nat.eqb (gdepth t) 0).

Record state := {
  G : Z;
  objs : list obj;          (* object id i+1 at index i *)
  cells : list link;        (* root AtomicRc cells *)
  threads : list thr;
  pending : list pend;
  err : Z;                  (* 0 = fine; otherwise the first protocol violation the model saw *)
}.

(* ---- plumbing *)
Fixpoint set_nth {A} (l : list A) (n : nat) (x : A) : list A :=
  match l, n with
  | [], _ => []
  | _ :: r, O => x :: r
  | a :: r, S m => a :: set_nth r m x
  end.

Definition geto (s : state) (o : nat) : option obj :=
  match o with O => None | S i => nth_error (objs s) i end.

Definition seto (s : state) (o : nat) (x : obj) : state :=
  match o with
  | O => s
  | S i => {| G := G s; objs := set_nth (objs s) i x; cells := cells s; threads := threads s; pending := pending s; err := err s |}
  end.

Definition with_word (x : obj) (w : Z) : obj :=
  {| word := w; dropped := dropped x; freed := freed x; tok := tok x; wtok := wtok x; links := links x |}.
Definition with_tok (x : obj) (b : bool) : obj :=
  {| word := word x; dropped := dropped x; freed := freed x; tok := b; wtok := wtok x; links := links x |}.
Definition with_links (x : obj) (l : list link) : obj :=
  {| word := word x; dropped := dropped x; freed := freed x; tok := tok x; wtok := wtok x; links := l |}.

Definition sett (s : state) (t : nat) (x : thr) : state :=
  {| G := G s; objs := objs s; cells := cells s; threads := set_nth (threads s) t x; pending := pending s; err := err s |}.

Definition with_frames (x : thr) (fs : list frame) : thr :=
  {| vars := vars x; gdepth := gdepth x; ann := ann x; serial := serial x; inclosure := inclosure x;
     frames := fs; prog := prog x; res := res x; resw := resw x |}.
Definition with_vars (x : thr) (v : list handle) : thr :=
  {| vars := v; gdepth := gdepth x; ann := ann x; serial := serial x; inclosure := inclosure x;
     frames := frames x; prog := prog x; res := res x; resw := resw x |}.
Definition with_res (x : thr) (r : Z) : thr :=
  {| vars := vars x; gdepth := gdepth x; ann := ann x; serial := serial x; inclosure := inclosure x;
     frames := frames x; prog := prog x; res := r; resw := resw x |}.
Definition with_resw (x : thr) (r : Z) : thr :=
  {| vars := vars x; gdepth := gdepth x; ann := ann x; serial := serial x; inclosure := inclosure x;
     frames := frames x; prog := prog x; res := res x; resw := r |}.
Definition with_guard (x : thr) (d : nat) (a : Z) (n : nat) : thr :=
  {| vars := vars x; gdepth := d; ann := a; serial := n; inclosure := inclosure x;
     frames := frames x; prog := prog x; res := res x; resw := resw x |}.
Definition with_inclosure (x : thr) (b : bool) : thr :=
  {| vars := vars x; gdepth := gdepth x; ann := ann x; serial := serial x; inclosure := b;
     frames := frames x; prog := prog x; res := res x; resw := resw x |}.

Definition set_err (s : state) (e : Z) : state :=
  {| G := G s; objs := objs s; cells := cells s; threads := threads s; pending := pending s;
     err := if err s =? 0 then e else err s |}.
Definition set_G (s : state) (g : Z) : state :=
  {| G := g; objs := objs s; cells := cells s; threads := threads s; pending := pending s; err := err s |}.
Definition set_pending (s : state) (p : list pend) : state :=
  {| G := G s; objs := objs s; cells := cells s; threads := threads s; pending := p; err := err s |}.

Definition getv (x : thr) (i : nat) : handle := nth i (vars x) HNone.
Definition nat_of (z : Z) : nat := Z.to_nat z.
Definition zo (o : nat) : Z := Z.of_nat o.

(* ---- cells: code < 1000 is a root cell; 1000 + 2*o + f is field f of object o *)
Definition get_cell (s : state) (c : Z) : option link :=
  if c <? 1000 then nth_error (cells s) (nat_of c)
  else match geto s (nat_of ((c - 1000) / 2)) with
       | Some ob => nth_error (links ob) (nat_of ((c - 1000) mod 2))
       | None => None
       end.
Definition set_cell (s : state) (c : Z) (l : link) : state :=
  if c <? 1000 then
    {| G := G s; objs := objs s; cells := set_nth (cells s) (nat_of c) l; threads := threads s; pending := pending s; err := err s |}
  else match geto s (nat_of ((c - 1000) / 2)) with
       | Some ob => seto s (nat_of ((c - 1000) / 2)) (with_links ob (set_nth (links ob) (nat_of ((c - 1000) mod 2)) l))
       | None => s
       end.

(* ---- AbsEBR *)
Fixpoint witnesses_from (ls : list thr) (i : nat) : list (nat * nat) :=
  match ls with
  | [] => []
  | l :: r => (if incs l then [(i, serial l)] else []) ++ witnesses_from r (S i)
  end.
Definition witnesses (s : state) : list (nat * nat) := witnesses_from (threads s) 0.

(* the epoch may advance only when every thread inside a critical section announced the current epoch *)
Definition can_advance (s : state) : bool :=
  forallb (fun l => negb (incs l) || (ann l =? G s)) (threads s).

(* raise G to g (g - G advances), recording error 3 if one of them is not allowed *)
Fixpoint advance_to (fuel : nat) (s : state) (g : Z) : state :=
  match fuel with
  | O => s
  | S n => if G s <? g then
             advance_to n (set_G (if can_advance s then s else set_err s 3) (G s + 1)) g
           else s
  end.
Definition see_epoch (s : state) (g : Z) : state := advance_to (Z.to_nat (g - G s)) s g.

Definition defer (s : state) (k : pkind) (o : nat) : state :=
  set_pending s (pending s ++ [{| pk := k; po := o; pG := G s; pwit := witnesses s |}]).

Definition pkind_eqb (a b : pkind) : bool :=
  match a, b with KDestruct, KDestruct | KDealloc, KDealloc => true | _, _ => false end.

Fixpoint take_pending (l : list pend) (k : pkind) (o : nat) : option (pend * list pend) :=
  match l with
  | [] => None
  | p :: r => if pkind_eqb (pk p) k && Nat.eqb (po p) o then Some (p, r)
              else match take_pending r k o with
                   | Some (q, r') => Some (q, p :: r')
                   | None => None
                   end
  end.

(* ---- oracle access: the recorded observations of the current step (flat triples) *)
Fixpoint find_site (rec : list Z) (site : Z) : option (Z * Z) :=
  match rec with
  | s0 :: a :: b :: r => if s0 =? site then Some (a, b) else find_site r site
  | _ => None
  end.
Definition has_site (rec : list Z) (site : Z) : bool :=
  match find_site rec site with Some _ => true | None => false end.
Definition oracle_epoch (s : state) (rec : list Z) (site : Z) : Z :=
  match find_site rec site with Some (_, g) => g | None => G s end.

(* ---- word helpers (raw fetch_add / fetch_sub on the AtomicU64) *)
Definition fadd (w d : Z) : Z := wrap 64 (w + d).
Definition fsub (w d : Z) : Z := wrap 64 (w - d).

Definition KSET (d : nat) (h : handle) : cont := {| cdst := d; cok := h; cfail := h; cign := true |}.
Definition setv (x : thr) (i : nat) (h : handle) : thr := with_vars x (set_nth (vars x) i h).

(* new node with [n] strong shares and null links; returns its id *)
Definition alloc (s : state) (n : Z) : state * nat :=
  ({| G := G s;
      objs := objs s ++ [{| word := alloc_word n; dropped := false; freed := false; tok := false; wtok := false; links := [null_link; null_link] |}];
      cells := cells s; threads := threads s; pending := pending s; err := err s |}, S (length (objs s))).

Definition dec_frames (o : nat) (cnt : Z) (tmp : bool) : list frame :=
  match o with O => [] | _ => [FDecS110 o cnt tmp true] end.
Definition decw_frames (o : nat) (tmp : bool) : list frame :=
  match o with O => [] | _ => [FDecW107 o tmp true] end.
Definition incs_frames (o : nat) (k : cont) : list frame :=
  match o with O => [FRet k true] | _ => [FIncS100 o k] end.
Definition incw_frames (o : nat) (cnt : Z) (k : cont) : list frame :=
  match o with O => [FRet k true] | _ => [FIncW103 o cnt; FRet k true] end.

Fixpoint set_range (v : list handle) (d : nat) (n : nat) (h : handle) : list handle :=
  match n with O => v | S m => set_range (set_nth v d h) (S d) m h end.

(* the object a handle points to, and a cell designated by (kind, a, b): kind 0 = root cell a,
   kind 1 = field b of the node referred to by the handle in slot a *)
Definition hlink (h : handle) : link :=
  match h with
  | HRc l | HWeak l | HSnap l _ | HWSnap l _ => l
  | HIter _ _ | HNone => null_link
  end.
Definition cell_code (x : thr) (ck a b : Z) : Z :=
  if ck =? 0 then a else 1000 + 2 * zo (fst (hlink (getv x (nat_of a)))) + b.
(* a cell operation is a no-op unless the cell is a root cell or a field reached through a
   non-null Rc or Snapshot *)
(* generated programs stay acyclic: a field of node X may only receive a pointer to a node
   allocated after X (root cells may point anywhere) *)
Definition store_ok (c : Z) (new : link) : bool :=
  (c <? 1000) || Nat.eqb (fst new) 0 || ((c - 1000) / 2 <? zo (fst new)).
Definition cell_ok (x : thr) (ck a : Z) : bool :=
  if ck =? 0 then true
  else match getv x (nat_of a) with
       | HRc l | HSnap l _ => negb (Nat.eqb (fst l) 0)
       | _ => false
       end.

Definition is_none (h : handle) : bool := match h with HNone => true | _ => false end.
Fixpoint range_free (x : thr) (d n : nat) : bool :=
  match n with O => true | S m => is_none (getv x d) && range_free x (S d) m end.
(* an operation is a no-op unless its destination slot(s) are empty *)
Definition dst_free (x : thr) (op : list Z) : bool :=
  match op with
  | [0; d] | [24; d] => is_none (getv x (nat_of d))
  | [1; n; d] => range_free x (nat_of d) (nat_of n)
  | [2; _; d] | [3; _; d] | [6; _; d] | [9; _; d] | [11; _; d] | [13; _; d] | [14; _; d] | [15; _; d]
  | [16; _; d] | [17; _; d] | [18; _; d] | [19; _; d] => is_none (getv x (nat_of d))
  | [10; _; n; d] => range_free x (nat_of d) (nat_of n)
  | [30; _; _; _; d] => is_none (getv x (nat_of d))
  | [32; _; _; _; src; d] => (src =? d) || is_none (getv x (nat_of d))
  | [33; _; _; _; _; _; d] => is_none (getv x (nat_of d))
  | _ => true
  end.

(* operation start: (state, thread, frames to run, extra observations) *)
Definition start_op (s : state) (x : thr) (rec : list Z) (op : list Z) : state * thr * list frame * list Z :=
  let tmp := Nat.eqb (gdepth x) 0 in
  if negb (dst_free x op) then (s, x, [], []) else
  match op with
  | [0; d] =>                                   (* Rc::new *)
      let (s1, o) := alloc s 1 in (s1, setv x (nat_of d) (HRc (o, 0)), [], [1103; zo o; 1])
  | [1; n; d] =>                                (* Rc::new_many::<n> *)
      if n =? 0 then let (s1, o) := alloc s 1 in (s1, x, dec_frames o 1 tmp, [1103; zo o; 1])
      else let (s1, o) := alloc s n in
           (s1, with_vars x (set_range (vars x) (nat_of d) (nat_of n) (HRc (o, 0))), [], [1103; zo o; n])
  | [2; c; d] =>                                (* Rc::new_many_iter *)
      if c =? 0 then let (s1, o) := alloc s 1 in (s1, setv x (nat_of d) (HIter 0 0), dec_frames o 1 tmp, [1103; zo o; 1])
      else let (s1, o) := alloc s c in (s1, setv x (nat_of d) (HIter o c), [], [1103; zo o; c])
  | [3; i; d] =>                                (* NewRcIter::next *)
      match getv x (nat_of i) with
      | HIter o rem => if 0 <? rem then (s, with_res (setv (setv x (nat_of i) (HIter o (rem - 1))) (nat_of d) (HRc (o, 0))) 1, [], [])
                       else (s, with_res (setv x (nat_of d) HNone) 0, [], [])
      | _ => (s, x, [], [])
      end
  | [4; i] =>                                   (* NewRcIter::abort(guard) *)
      match getv x (nat_of i) with
      | HIter o rem => (s, setv x (nat_of i) HNone, if 0 <? rem then dec_frames o rem false else [], [])
      | _ => (s, x, [], [])
      end
  | [5; i] =>                                   (* drop(NewRcIter) *)
      match getv x (nat_of i) with
      | HIter o rem => (s, setv x (nat_of i) HNone, if 0 <? rem then dec_frames o rem tmp else [], [])
      | _ => (s, x, [], [])
      end
  | [6; a; d] =>                                (* Rc::clone *)
      match getv x (nat_of a) with
      | HRc l => (s, x, incs_frames (fst l) (KSET (nat_of d) (HRc l)), [])
      | _ => (s, x, [], [])
      end
  | [7; a] =>                                   (* drop(Rc) *)
      match getv x (nat_of a) with
      | HRc l => (s, setv x (nat_of a) HNone, dec_frames (fst l) 1 tmp, [])
      | _ => (s, x, [], [])
      end
  | [8; a] =>                                   (* Rc::finalize(guard) *)
      match getv x (nat_of a) with
      | HRc l => (s, setv x (nat_of a) HNone, dec_frames (fst l) 1 false, [])
      | _ => (s, x, [], [])
      end
  | [9; a; d] =>                                (* Rc::downgrade *)
      match getv x (nat_of a) with
      | HRc l => (s, x, incw_frames (fst l) 1 (KSET (nat_of d) (HWeak l)), [])
      | _ => (s, x, [], [])
      end
  | [10; a; n; d] =>                            (* Rc::weak_many::<n> *)
      match getv x (nat_of a) with
      | HRc l => (s, with_vars x (set_range (vars x) (nat_of d) (nat_of n) (HWeak l)),
                  match fst l with O => [] | _ => [FIncW103 (fst l) n] end, [])
      | _ => (s, x, [], [])
      end
  | [11; a; d] =>                               (* Weak::clone *)
      match getv x (nat_of a) with
      | HWeak l => (s, x, incw_frames (fst l) 1 (KSET (nat_of d) (HWeak l)), [])
      | _ => (s, x, [], [])
      end
  | [12; a] =>                                  (* drop(Weak) *)
      match getv x (nat_of a) with
      | HWeak l => (s, setv x (nat_of a) HNone, decw_frames (fst l) tmp, [])
      | _ => (s, x, [], [])
      end
  | [13; a; d] =>                               (* Weak::upgrade *)
      match getv x (nat_of a) with
      | HWeak l => (s, x, incs_frames (fst l) {| cdst := nat_of d; cok := HRc l; cfail := HNone; cign := false |}, [])
      | _ => (s, x, [], [])
      end
  | [14; a; d] =>                               (* Rc::snapshot(guard) *)
      match getv x (nat_of a) with
      | HRc l => (s, setv x (nat_of d) (HSnap l (serial x)), [], [])
      | _ => (s, x, [], [])
      end
  | [15; a; d] =>                               (* Snapshot::counted (the result of increment_strong is ignored) *)
      match getv x (nat_of a) with
      | HSnap l _ => (s, x, incs_frames (fst l) (KSET (nat_of d) (HRc l)), [])
      | _ => (s, x, [], [])
      end
  | [16; a; d] =>                               (* Snapshot::downgrade *)
      match getv x (nat_of a) with
      | HSnap l n => (s, setv x (nat_of d) (HWSnap l n), [], [])
      | _ => (s, x, [], [])
      end
  | [17; a; d] =>                               (* WeakSnapshot::counted *)
      match getv x (nat_of a) with
      | HWSnap l _ => (s, x, incw_frames (fst l) 1 (KSET (nat_of d) (HWeak l)), [])
      | _ => (s, x, [], [])
      end
  | [18; a; d] =>                               (* WeakSnapshot::upgrade *)
      match getv x (nat_of a) with
      | HWSnap l n => (s, x, match fst l with
                             | O => [FRet (KSET (nat_of d) (HSnap l n)) true]
                             | _ => [FIsND108 (fst l) {| cdst := nat_of d; cok := HSnap l n; cfail := HNone; cign := false |}]
                             end, [])
      | _ => (s, x, [], [])
      end
  | [19; a; d] =>                               (* Weak::snapshot(guard) *)
      match getv x (nat_of a) with
      | HWeak l => (s, setv x (nat_of d) (HWSnap l (serial x)), [], [])
      | _ => (s, x, [], [])
      end
  | [20] =>                                     (* cs() *)
      match gdepth x with
      | O =>
          let g := oracle_epoch s rec 2100 in
          let s1 := see_epoch s g in
          (s1, with_guard x 1 (G s1) (S (serial x)), [], [2100; 0; G s1])
      | S _ => (s, with_guard x (S (gdepth x)) (ann x) (serial x), [], [])
      end
  | [21] =>                                     (* drop(guard); snapshots die with the outermost guard *)
      let v := match gdepth x with
               | S O => map (fun h => match h with HSnap _ _ | HWSnap _ _ => HNone | _ => h end) (vars x)
               | _ => vars x
               end in
      (s, with_guard (with_vars x v) (pred (gdepth x)) (ann x) (serial x), [], [])
  | [24; d] => (s, setv x (nat_of d) (HRc null_link), [], [])    (* Rc::null *)
  | [25; _] => (s, x, [], [])                                     (* collection rounds: cs(); flush(); drop *)
  | [30; ck; a; b; d] =>                        (* AtomicRc::load(guard) *)
      if cell_ok x ck a then (s, x, [FLoad121 (cell_code x ck a b) (nat_of d)], []) else (s, x, [], [])
  | [31; ck; a; b; src] =>                      (* AtomicRc::store(rc, guard) *)
      match getv x (nat_of src), cell_ok x ck a with
      | HRc l, true => if store_ok (cell_code x ck a b) l
                       then (s, setv x (nat_of src) HNone, [FSwap122 (cell_code x ck a b) l None], [])
                       else (s, x, [], [])
      | _, _ => (s, x, [], [])
      end
  | [32; ck; a; b; src; d] =>                   (* AtomicRc::swap(rc) *)
      match getv x (nat_of src), cell_ok x ck a with
      | HRc l, true => if store_ok (cell_code x ck a b) l
                       then (s, setv x (nat_of src) HNone, [FSwap122 (cell_code x ck a b) l (Some (nat_of d))], [])
                       else (s, x, [], [])
      | _, _ => (s, x, [], [])
      end
  | [33; ck; a; b; e; src; d] =>                (* AtomicRc::compare_exchange(expected, desired, guard) *)
      match getv x (nat_of e), getv x (nat_of src), cell_ok x ck a with
      | HSnap le _, HRc ld, true =>
          if negb (store_ok (cell_code x ck a b) ld) then (s, x, [], []) else
          (s, x, match fst ld with
                 | O => [FCas123 (cell_code x ck a b) le ld (nat_of src) (nat_of d)]
                 | _ => [FCas120 (cell_code x ck a b) le ld (nat_of src) (nat_of d)]
                 end, [])
      | _, _, _ => (s, x, [], [])
      end
  | _ => (set_err s 9, x, [], [])
  end.

(* the object the operation's first handle argument refers to (0 when there is none) *)
Definition primary (x : thr) (op : list Z) : Z :=
  match op with
  | opc :: a :: _ => if (3 <=? opc) && (opc <=? 19) then zo (fst (hlink (getv x (nat_of a)))) else 0
  | _ => 0
  end.

Definition ptr_op (opc : Z) : bool := (opc =? 30) || (opc =? 32) || (opc =? 33).

Definition gett (s : state) (t : nat) : option thr := nth_error (threads s) t.

(* One transition of the top frame of thread [t]; [rec] = recorded observations of the current step
   (the oracle).  Returns the new state and the observations of this transition. *)
Definition micro (s : state) (t : nat) (rec : list Z) : option (state * list Z) :=
  match gett s t with
  | None => None
  | Some x =>
    match frames x with
    | [] => None
    | f :: k =>
      let ret (s1 : state) (x1 : thr) (fs : list frame) (o : list Z) := Some (sett s1 t (with_frames x1 fs), o) in
      match f with
      | FStart => ret s x k []
      | FOp =>
          match prog x with
          | [] => ret s x [] [1; 9; 0]
          | op :: rest =>
              let x0 := {| vars := vars x; gdepth := gdepth x; ann := ann x; serial := serial x; inclosure := inclosure x;
                           frames := frames x; prog := rest; res := 0; resw := -1 |} in
              match start_op s x0 rec op with
              | (s1, x1, fs, o) =>
                  ret s1 x1 (fs ++ FMay :: FOpEnd (hd 0 op) :: FOp :: k)
                      ([1; hd 0 op; hd 0 (tl op); 2001; primary x op; 0] ++ o)
              end
          end
      | FOpEnd opc =>
          ret s x k ((if ptr_op opc && (0 <=? resw x) then [2002; resw x; 0] else []) ++ [2000; opc; res x])
      | FRet c b =>
          ret s (with_res (setv x (cdst c) (if b then cok c else cfail c)) (if cign c then 1 else Z.b2z b)) k []
      | FMay =>
          if inclosure x then ret s x k []
          else if has_site rec 2000 then ret s x k []
          else ret s x (FAwait :: FMay :: k) []
      | FAwait =>
          (* a deferred function starts: which one is the oracle's choice *)
          let start (kd : pkind) (oz : Z) (fs : list frame) :=
            let o := nat_of oz in
            match take_pending (pending s) kd o with
            | None => ret (set_err s 1) (with_inclosure x true) (fs ++ FEndClosure :: k) []
            | Some (p, rest) =>
                let s1 := see_epoch (set_pending s rest) (pG p + EXPIRE_AFTER) in
                ret s1 (with_inclosure x true) (fs ++ FEndClosure :: k) []
            end in
          match rec with
          | 113 :: oz :: _ => start KDestruct oz [FTD113 (nat_of oz)]
          | 102 :: oz :: _ => start KDealloc oz [FTDe102 (nat_of oz)]
          | _ => ret (set_err s 4) x k []
          end
      | FEndClosure => ret s (with_inclosure x false) k []
      | FUnpinTmp => ret s (with_guard x (pred (gdepth x)) (ann x) (serial x)) k []
      (* ---- increment_strong (with the loop of the D6 repair) *)
      | FIncS100 o c =>
          match geto s o with
          | None => ret (set_err s 5) x k []
          | Some ob =>
              let w := word ob in
              let s1 := seto s o (with_word ob (fadd w COUNT)) in
              if destructed w then ret s1 x (FRet c false :: k) [100; zo o; 0; 1000; zo o; w]
              else if strong w =? 0 then
                     ret (seto s o (with_tok (with_word ob (fadd w COUNT)) true)) x (FIncS101 o c :: k) [100; zo o; 0; 1000; zo o; w]
                   else ret s1 x (FRet c true :: k) [100; zo o; 0; 1000; zo o; w]
          end
      | FIncS101 o c =>
          match geto s o with
          | None => ret (set_err s 5) x k []
          | Some ob =>
              let w := word ob in
              let s1 := seto s o (with_word ob (fadd w COUNT)) in
              if destructed w then ret s1 x (FRet c false :: k) [101; zo o; 0; 1001; zo o; w]
              else if strong w =? 0 then
                     ret (seto s o (with_tok (with_word ob (fadd w COUNT)) true)) x (FIncS101 o c :: k) [101; zo o; 0; 1001; zo o; w]
                   else ret s1 x (FRet c true :: k) [101; zo o; 0; 1001; zo o; w]
          end
      (* ---- decrement_strong: pins first when no guard is passed (D7 repair) *)
      | FDecS110 o cnt tmp own =>
          let r := oracle_epoch s rec 1010 in
          let s1 := see_epoch s r in
          let pin := tmp && negb (inclosure x) in
          let x1 := if pin then
                      match gdepth x with
                      | O => with_guard x 1 (G s1) (S (serial x))
                      | S _ => with_guard x (S (gdepth x)) (ann x) (serial x)
                      end
                    else x in
          ret s1 x1 (FDecS111 o cnt (G s1) pin own :: k) [110; zo o; cnt; 1010; zo o; G s1]
      | FDecS111 o cnt r tmp own =>
          match geto s o with
          | None => ret (set_err s 5) x k []
          | Some ob => ret s x (FDecS112 o cnt r (word ob) tmp own :: k) [111; zo o; 0; 1011; zo o; word ob]
          end
      | FDecS112 o cnt r cur tmp own =>
          match geto s o with
          | None => ret (set_err s 5) x k []
          | Some ob =>
              if word ob =? cur then
                let w' := sub_strong (with_epoch cur r) cnt in
                let ob' := {| word := w'; dropped := dropped ob; freed := freed ob;
                              tok := if own then tok ob else false; wtok := wtok ob; links := links ob |} in
                let s1 := seto s o ob' in
                let s2 := if strong cur =? cnt then defer s1 KDestruct o else s1 in
                ret s2 x (if tmp then FUnpinTmp :: k else k) [112; zo o; 0; 1012; zo o; 1]
              else ret s x (FDecS111 o cnt r tmp own :: k) [112; zo o; 0; 1012; zo o; 0]
          end
      (* ---- try_destruct *)
      | FTD113 o =>
          match geto s o with
          | None => ret (set_err s 5) x k []
          | Some ob =>
              let w := word ob in
              if 0 <? strong w then ret s x (FDecS110 o 1 true false :: k) [113; zo o; 0; 1013; zo o; w]
              else ret s x (FTD114 o w :: k) [113; zo o; 0; 1013; zo o; w]
          end
      | FTD114 o old =>
          match geto s o with
          | None => ret (set_err s 5) x k []
          | Some ob =>
              if word ob =? old then
                ret (seto s o (with_word ob (with_destructed old true))) x (FDispEnter o 0 :: k) [114; zo o; old]
              else
                let w := word ob in
                if 0 <? strong w then ret s x (FDecS110 o 1 true false :: k) [114; zo o; old]
                else ret s x (FTD114 o w :: k) [114; zo o; old]
          end
      (* ---- dispose_general_node *)
      | FDispEnter o depth =>
          if depth >=? DEPTH_CAP then ret (defer s KDestruct o) x k [1020; zo o; depth]
          else ret s x (FDisp115 o depth :: k) [1020; zo o; depth]
      | FDisp115 o depth =>
          match geto s o with
          | None => ret (set_err s 5) x k []
          | Some ob => ret s x (FDisp116 o depth (word ob) :: k) [115; zo o; 0; 1015; zo o; word ob]
          end
      | FDisp116 o depth w =>
          let r := oracle_epoch s rec 1016 in
          let s1 := see_epoch s r in
          if dispose_here depth (G s1) (epoch w) then
            ret s1 x ((if 0 <? depth then FDisp130 o depth w (G s1) else FDispDo o depth w (G s1)) :: k)
                [116; zo o; 0; 1016; zo o; G s1]
          else ret (defer s1 KDestruct o) x k [116; zo o; 0; 1016; zo o; G s1; 1021; zo o; depth]
      | FDisp130 o depth w curr =>
          match geto s o with
          | None => ret (set_err s 5) x k []
          | Some ob =>
              if (strong w =? 0) && (word ob =? w) then
                ret (seto s o (with_word ob (with_destructed w true))) x (FDispDo o depth w curr :: k) [130; zo o; w]
              else ret (defer s KDestruct o) x k [130; zo o; w; 1130; zo o; 0]
          end
      | FDispDo o depth w curr =>
          match geto s o with
          | None => ret (set_err s 5) x k []
          | Some ob =>
              ret (seto s o {| word := word ob; dropped := true; freed := freed ob; tok := tok ob; wtok := wtok ob;
                               links := map (fun _ => null_link) (links ob) |}) x
                  (FDisp117 o depth (epoch w) curr (links ob) :: k) [1101; zo o; depth; 1102; zo o; depth]
          end
      | FDisp117 o depth ne curr outs =>
          match geto s o with
          | None => ret (set_err s 5) x k []
          | Some ob =>
              if weaked (word ob) then ret s x (FDecW107 o false true :: FKids depth ne curr outs :: k) [117; zo o; 0]
              else ret (seto s o {| word := word ob; dropped := dropped ob; freed := true; tok := tok ob; wtok := wtok ob; links := links ob |}) x
                       (FKids depth ne curr outs :: k) [117; zo o; 0; 1100; zo o; 0]
          end
      | FKids depth ne curr outs =>
          match outs with
          | [] => ret s x k []
          | c :: r => match fst c with
                      | O => ret s x (FKids depth ne curr r :: k) []
                      | S _ =>
                          (* a fresh epoch (modular window) for every child: D9 repair *)
                          let s1 := see_epoch s (oracle_epoch s rec 1132) in
                          ret s1 x (FKid118 c depth ne (G s1) r :: k) [1132; zo (fst c); G s1]
                      end
          end
      | FKid118 c depth ne curr outs =>
          match geto s (fst c) with
          | None => ret (set_err s 5) x k []
          | Some ob =>
              let wc := word ob in
              let nxt := with_epoch (sub_strong wc 1) (wrap 64 (child_stamp curr ne (snd c) (epoch wc))) in
              ret s x (FKid119 c wc nxt depth ne curr outs :: k) [118; zo (fst c); snd c; 1018; zo (fst c); wc]
          end
      | FKid119 c wc nxt depth ne curr outs =>
          match geto s (fst c) with
          | None => ret (set_err s 5) x k []
          | Some ob =>
              if word ob =? wc then
                let s1 := seto s (fst c) (with_word ob nxt) in
                if strong nxt =? 0 then
                  ret s1 x (FDispEnter (fst c) (depth + 1) :: FKids depth ne curr outs :: k) [119; zo (fst c); nxt; 1019; zo (fst c); 1]
                else ret s1 x (FKids depth ne curr outs :: k) [119; zo (fst c); nxt; 1019; zo (fst c); 1]
              else ret s x (FKid118 c depth ne curr outs :: k) [119; zo (fst c); nxt; 1019; zo (fst c); 0]
          end
      (* ---- decrement_weak / try_dealloc *)
      | FDecW107 o tmp own =>
          match geto s o with
          | None => ret (set_err s 5) x k []
          | Some ob =>
              let w := word ob in
              let ob' := {| word := fsub w WEAK_COUNT; dropped := dropped ob; freed := freed ob; tok := tok ob;
                            wtok := if own then wtok ob else false; links := links ob |} in
              let s1 := seto s o ob' in
              let s2 := if weak w =? 1 then defer s1 KDealloc o else s1 in
              ret s2 x k [107; zo o; 0]
          end
      | FTDe102 o =>
          match geto s o with
          | None => ret (set_err s 5) x k []
          | Some ob =>
              if 0 <? weak (word ob) then ret s x (FDecW107 o true false :: k) [102; zo o; 0]
              else ret (seto s o {| word := word ob; dropped := dropped ob; freed := true; tok := tok ob; wtok := wtok ob; links := links ob |}) x k
                       [102; zo o; 0; 1100; zo o; 0]
          end
      (* ---- increment_weak *)
      | FIncW103 o cnt =>
          match geto s o with
          | None => ret (set_err s 5) x k []
          | Some ob =>
              let w := word ob in
              if weaked w then ret s x (FIncW105 o cnt :: k) [103; zo o; 0; 1003; zo o; w]
              else ret s x (FIncW104 o cnt w :: k) [103; zo o; 0; 1003; zo o; w]
          end
      | FIncW104 o cnt old =>
          match geto s o with
          | None => ret (set_err s 5) x k []
          | Some ob =>
              if word ob =? old then
                ret (seto s o (with_word ob (add_weak (with_weaked old true) cnt))) x k [104; zo o; 0]
              else
                let w := word ob in
                if weaked w then ret s x (FIncW105 o cnt :: k) [104; zo o; 0]
                else ret s x (FIncW104 o cnt w :: k) [104; zo o; 0]
          end
      | FIncW105 o cnt =>
          match geto s o with
          | None => ret (set_err s 5) x k []
          | Some ob =>
              let w := word ob in
              let w' := fadd w (wrap 64 (cnt * WEAK_COUNT)) in
              if weak w =? 0 then
                ret (seto s o {| word := w'; dropped := dropped ob; freed := freed ob; tok := tok ob; wtok := true; links := links ob |})
                    x (FIncW106 o :: k) [105; zo o; cnt]
              else ret (seto s o (with_word ob w')) x k [105; zo o; cnt]
          end
      | FIncW106 o =>
          match geto s o with
          | None => ret (set_err s 5) x k []
          | Some ob => ret (seto s o (with_word ob (fadd (word ob) WEAK_COUNT))) x k [106; zo o; 0]
          end
      (* ---- is_not_destructed (with the stamp of the D5 repair) *)
      | FIsND108 o c =>
          let r := oracle_epoch s rec 1108 in
          let s1 := see_epoch s r in
          match geto s1 o with
          | None => ret (set_err s1 5) x k []
          | Some ob =>
              let w := word ob in
              if destructed w then ret s1 x (FRet c false :: k) [108; zo o; 0; 1108; zo o; G s1]
              else ret s1 x (FIsND109 o w (G s1) c :: k) [108; zo o; 0; 1108; zo o; G s1]
          end
      | FIsND109 o old r c =>
          match geto s o with
          | None => ret (set_err s 5) x k []
          | Some ob =>
              if word ob =? old then
                let new := if strong old =? 0 then add_strong old 1 else old in
                let ob' := {| word := with_epoch new r; dropped := dropped ob; freed := freed ob;
                              tok := if strong old =? 0 then true else tok ob; wtok := wtok ob; links := links ob |} in
                ret (seto s o ob') x (FRet c true :: k) [109; zo o; old]
              else
                let w := word ob in
                if destructed w then ret s x (FRet c false :: k) [109; zo o; old]
                else ret s x (FIsND109 o w r c :: k) [109; zo o; old]
          end
      (* ---- AtomicRc cells and link fields *)
      | FLoad121 c d =>
          match get_cell s c with
          | None => ret (set_err s 6) x k []
          | Some l => ret s (with_resw (setv x d (HSnap l (serial x))) (lw l)) k [121; c; 0]
          end
      | FSwap122 c new d =>
          match fst new with
          | S _ => ret s x (FSwap120 c new d :: k) [122; c; lw new]
          | O =>
              match get_cell s c with
              | None => ret (set_err s 6) x k []
              | Some old =>
                  let s1 := set_cell s c new in
                  match d with
                  | Some dd => ret s1 (with_resw (setv x dd (HRc old)) (lw old)) k [122; c; lw new; 1022; c; lw old]
                  | None => ret s1 x (dec_frames (fst old) 1 false ++ k) [122; c; lw new; 1022; c; lw old]
                  end
              end
          end
      | FSwap120 c new d =>
          match get_cell s c with
          | None => ret (set_err s 6) x k []
          | Some old =>
              let s0 := see_epoch s (oracle_epoch s rec 1120) in
              let s1 := set_cell s0 c (fst new, G s0 mod 16) in
              match d with
              | Some dd => ret s1 (with_resw (setv x dd (HRc old)) (lw old)) k [120; 0; 0; 1120; 0; G s0; 1022; c; lw old]
              | None => ret s1 x (dec_frames (fst old) 1 false ++ k) [120; 0; 0; 1120; 0; G s0; 1022; c; lw old]
              end
          end
      | FCas120 c e des src d =>
          let s0 := see_epoch s (oracle_epoch s rec 1120) in
          ret s0 x (FCas123 c e (fst des, G s0 mod 16) src d :: k) [120; 0; 0; 1120; 0; G s0]
      | FCas123 c e desraw src d =>
          match get_cell s c with
          | None => ret (set_err s 6) x k []
          | Some cur =>
              if (Nat.eqb (fst cur) (fst e)) && (snd cur =? snd e) then
                (* success: desired goes into the cell, the previous content comes back as an Rc *)
                ret (set_cell s c desraw) (with_res (with_resw (setv (setv x src HNone) d (HRc e)) (lw e)) 1) k [123; c; lw e]
              else if Nat.eqb (fst cur) (fst e) then
                (* only the timestamp differs: refresh and retry *)
                ret s x (FCas123 c cur desraw src d :: k) [123; c; lw e]
              else
                ret s (with_res (with_resw (setv x d (HSnap cur (serial x))) (lw cur)) 0) k [123; c; lw e]
          end
      end
    end
  end.

Definition top_is_yield (s : state) (t : nat) : bool :=
  match gett s t with
  | Some x => match frames x with f :: _ => is_yield f | [] => false end
  | None => false
  end.

Fixpoint run_local (fuel : nat) (s : state) (t : nat) (rec acc : list Z) : state * list Z * bool :=
  match fuel with
  | O => (s, acc, false)
  | S n =>
      match gett s t with
      | Some x =>
          match frames x with
          | [] => (s, acc, true)
          | f :: _ =>
              if is_yield f then (s, acc, true)
              else match micro s t rec with
                   | Some (s', o) => run_local n s' t rec (acc ++ o)
                   | None => (s, acc, false)
                   end
          end
      | None => (s, acc, false)
      end
  end.

Definition top_is_await (s : state) (t : nat) : bool :=
  match gett s t with
  | Some x => match frames x with FAwait :: _ => true | _ => false end
  | None => false
  end.

(* one scheduled step; rec = recorded observations of this step.  A deferred function's first access
   (site 113 / 102) happens in the very step that starts it. *)
Definition step (s : state) (t : nat) (rec : list Z) : option (state * list Z) :=
  if top_is_yield s t then
    match micro s t rec with
    | Some (s1, o1) =>
        let first :=
          if top_is_await s t && top_is_yield s1 t then
            match micro s1 t rec with
            | Some (s1', o1') => Some (s1', o1 ++ o1')
            | None => None
            end
          else Some (s1, o1) in
        match first with
        | Some (s1', o1') =>
            match run_local 1000 s1' t rec o1' with
            | (s2, o2, true) => Some (s2, o2)
            | (_, _, false) => None
            end
        | None => None
        end
    | None => None
    end
  else None.

(* ---- program decoding.
   input: g0 :: ncells :: nobj :: <nobj initial words> :: threads, each
          `-1 nvars <nvars handles: kind obj> nops <ops: len opcode args..>` *)
Definition dec_handle (kd o : Z) : handle :=
  match kd with
  | 1 => HRc (nat_of o, 0)
  | 2 => HWeak (nat_of o, 0)
  | _ => HNone
  end.

Fixpoint dec_vars (n : nat) (l : list Z) : list handle * list Z :=
  match n with
  | O => ([], l)
  | S m => match l with
           | kd :: o :: r => let (v, r') := dec_vars m r in (dec_handle kd o :: v, r')
           | _ => ([], [])
           end
  end.

Fixpoint dec_ops (n : nat) (l : list Z) : list (list Z) * list Z :=
  match n with
  | O => ([], l)
  | S m => match l with
           | len :: r =>
               let op := firstn (nat_of len) r in
               let (ops, r') := dec_ops m (skipn (nat_of len) r) in (op :: ops, r')
           | [] => ([], [])
           end
  end.

Fixpoint dec_threads (fuel : nat) (l : list Z) : list thr :=
  match fuel with
  | O => []
  | S f =>
      match l with
      | (-1) :: nv :: r =>
          let (v, r1) := dec_vars (nat_of nv) r in
          match r1 with
          | nops :: r2 =>
              let (ops, r3) := dec_ops (nat_of nops) r2 in
              {| vars := v ++ repeat HNone 8; gdepth := 0; ann := 0; serial := 0; inclosure := false;
                 frames := [FStart; FOp]; prog := ops; res := 0; resw := 0 |} :: dec_threads f r3
          | [] => []
          end
      | _ => []
      end
  end.

Definition init (prog : list Z) : state :=
  match prog with
  | g0 :: ncells :: nobj :: r =>
      let ws := firstn (nat_of nobj) r in
      {| G := g0;
         objs := map (fun w => {| word := wrap 64 w; dropped := false; freed := false; tok := false; wtok := false;
                                  links := [null_link; null_link] |}) ws;
         cells := repeat null_link (nat_of ncells);
         threads := dec_threads (length r) (skipn (nat_of nobj) r);
         pending := []; err := 0 |}
  | _ => {| G := 0; objs := []; cells := []; threads := []; pending := []; err := 0 |}
  end.

(* guided replay: the recorded step list supplies the oracle *)
Fixpoint replay_from (s : state) (sched : list Z) (recs : list (list Z)) : list (list Z) :=
  match sched, recs with
  | t :: r, rc :: rr =>
      match step s (nat_of t) rc with
      | Some (s', o) =>
          (if err s' =? 0 then o else o ++ [-777; err s'; 0]) :: replay_from s' r rr
      | None => [-999] :: replay_from s r rr
      end
  | _, _ => []
  end.

Definition rc_replay (prog sched : list Z) (recs : list (list Z)) : list (list Z) :=
  replay_from (init prog) sched recs.
