(* C11: tagging never corrupts the address; the timestamp bits are invisible.
   Statements are about the GENERATED Gen/TaggedW.v (ebr_impl/pointers.rs:62-165). *)
From Coq Require Import ZArith Lia Bool.
Require Import Params TaggedW Bits.
Local Open Scope Z_scope.

Ltac Zify.zify_post_hook ::= Z.div_mod_to_equations.

Definition word (w : Z) : Prop := 0 <= w < 2 ^ 64.
Definition align_ok (k : Z) : Prop := 0 <= k <= 12.

Lemma HIGH_TAG_WIDTH_is : HIGH_TAG_WIDTH = 4.
Proof. reflexivity. Qed.

Lemma pow2k_range k : align_ok k -> 1 <= 2 ^ k <= 2 ^ 12.
Proof.
  intros [H0 H1]. split.
  - pose proof (Z.pow_pos_nonneg 2 k ltac:(lia) H0). lia.
  - apply Z.pow_le_mono_r; lia.
Qed.

Lemma low_bits_spec k : align_ok k -> f_low_bits k = Z.shiftl (Z.ones k) 0 /\ f_low_bits k = 2 ^ k - 1.
Proof.
  intros Hk. pose proof (pow2k_range k Hk) as Hp. change (2 ^ 12) with 4096 in Hp.
  unfold f_low_bits. rewrite Z.shiftl_mul_pow2 by (destruct Hk; lia). rewrite Z.mul_1_l.
  rewrite Z.shiftl_0_r, Z.ones_equiv.
  rewrite (wrap_small 64 (2 ^ k)) by (change (2 ^ 64) with 18446744073709551616; lia).
  rewrite wrap_small by (change (2 ^ 64) with 18446744073709551616; lia). lia.
Qed.

Lemma high_bits_spec k : t_high_bits k = Z.shiftl (Z.ones 4) 60 /\ t_high_bits_pos k = 60.
Proof. split; reflexivity. Qed.

Lemma land_low k p : align_ok k -> Z.land p (f_low_bits k) = p mod 2 ^ k.
Proof.
  intros Hk. destruct (low_bits_spec k Hk) as [-> _].
  rewrite land_shifted_ones by (destruct Hk; lia). change (2 ^ 0) with 1. rewrite Z.div_1_r. lia.
Qed.

Lemma land_high k p : Z.land p (t_high_bits k) = ((p / 2 ^ 60) mod 16) * 2 ^ 60.
Proof. destruct (high_bits_spec k) as [-> _]. rewrite land_shifted_ones by lia. reflexivity. Qed.

Lemma low_range k : align_ok k -> 0 <= f_low_bits k < 2 ^ 64.
Proof.
  intros Hk. destruct (low_bits_spec k Hk) as [_ ->]. pose proof (pow2k_range k Hk).
  change (2 ^ 12) with 4096 in *. change (2 ^ 64) with 18446744073709551616. lia.
Qed.
Lemma high_range k : 0 <= t_high_bits k < 2 ^ 64.
Proof. vm_compute. split; congruence. Qed.

(* ---- the functions in arithmetic form (symbolic k) *)
Lemma tag_spec k p : align_ok k -> t_tag k p = p mod 2 ^ k.
Proof. intros Hk. unfold t_tag. cbv zeta. apply land_low; assumption. Qed.

Lemma high_tag_spec k p : word p -> t_high_tag k p = p / 2 ^ 60.
Proof.
  intros Hp. unfold t_high_tag. cbv zeta. rewrite land_high.
  destruct (high_bits_spec k) as [_ ->]. rewrite Z.shiftr_div_pow2 by lia. unfold word in *. lia.
Qed.

Lemma clear_low_spec k p : align_ok k -> word p ->
  Z.land p (bnot 64 (f_low_bits k)) = p - p mod 2 ^ k.
Proof.
  intros Hk Hp. rewrite land_bnot by (auto using low_range; exact Hp). rewrite land_low by assumption. reflexivity.
Qed.

Lemma mod_le_self p m : 0 <= p -> 0 < m -> 0 <= p mod m <= p.
Proof. intros. split; [apply Z.mod_pos_bound; lia | apply Z.mod_le; lia]. Qed.

Lemma as_raw_spec k p : align_ok k -> word p ->
  t_as_raw k p = (p - p mod 2 ^ k) mod 2 ^ 60.
Proof.
  intros Hk Hp. unfold t_as_raw. cbv zeta. rewrite clear_low_spec by assumption.
  pose proof (pow2k_range k Hk). pose proof (mod_le_self p (2 ^ k) ltac:(unfold word in *; lia) ltac:(lia)).
  set (p1 := p - p mod 2 ^ k) in *.
  assert (word p1) by (unfold word in *; lia).
  rewrite land_bnot by (auto using high_range). rewrite land_high. unfold word in *. lia.
Qed.

Lemma with_tag_spec k p tag : align_ok k -> word p ->
  t_with_tag k p tag = p - p mod 2 ^ k + tag mod 2 ^ k.
Proof.
  intros Hk Hp. unfold t_with_tag, f_with_tag.
  rewrite land_bnot by (auto using low_range; exact Hp).
  rewrite lor_cleared by (auto using low_range; exact Hp).
  rewrite !land_low by assumption. reflexivity.
Qed.

Lemma with_high_tag_spec k p ts : word p -> 0 <= ts ->
  t_with_high_tag k p ts = p mod 2 ^ 60 + 2 ^ 60 * (ts mod 16).
Proof.
  intros Hp Hts. unfold t_with_high_tag.
  rewrite land_bnot by (auto using high_range).
  destruct (high_bits_spec k) as [_ ->].
  replace (wrap 64 (Z.shiftl (Z.land ts (wrap 64 (wrap 64 (Z.shiftl 1 HIGH_TAG_WIDTH) - 1))) 60))
    with (Z.land (2 ^ 60 * (ts mod 16)) (t_high_bits k)).
  - rewrite lor_cleared by (auto using high_range). rewrite !land_high.
    pose proof (Z.mod_pos_bound ts 16 ltac:(lia)) as Hr. set (r := ts mod 16) in *.
    rewrite (Z.mul_comm (2 ^ 60) r), Z.div_mul by lia. rewrite (Z.mod_small r 16) by lia.
    unfold word in *. lia.
  - rewrite land_high.
    replace (wrap 64 (wrap 64 (Z.shiftl 1 HIGH_TAG_WIDTH) - 1)) with (Z.ones 4) by reflexivity.
    rewrite Z.land_ones by lia. rewrite Z.shiftl_mul_pow2 by lia. change (2 ^ 4) with 16.
    unfold wrap. pose proof (Z.mod_pos_bound ts 16 ltac:(lia)) as Hr. set (r := ts mod 16) in *.
    rewrite (Z.mul_comm (2 ^ 60) r), Z.div_mul by lia.
    rewrite (Z.mod_small r 16) by lia. symmetry. apply Z.mod_small. lia.
Qed.


(* adding less than one alignment unit to an aligned value stays below any aligned bound *)
Lemma aligned_add_lt p t m N : 0 < m -> N mod m = 0 -> 0 <= p < N -> 0 <= t < m ->
  0 <= p - p mod m + t < N /\ (p mod m = 0 -> (p + t) mod m = t).
Proof.
  intros Hm HN Hp Ht.
  pose proof (Z.div_mod p m ltac:(lia)) as Hdm. pose proof (Z.mod_pos_bound p m Hm) as Hb.
  pose proof (Z_div_exact_full_2 N m ltac:(lia) HN) as HNe.
  assert (Hq : p / m < N / m) by (apply Z.div_lt_upper_bound; lia).
  assert (H0 : 0 <= p / m) by (apply Z.div_pos; lia).
  split.
  - generalize dependent (p mod m). generalize dependent (p / m). generalize dependent (N / m).
    intros R HNe q Hq H0 r Hdm Hb. subst p N. split; [nia|]. nia.
  - intros Hz. rewrite Z.add_mod by lia. rewrite Hz, Z.add_0_l, Z.mod_mod by lia. apply Z.mod_small. lia.
Qed.

Lemma pow2_div k n : 0 <= k <= n -> (2 ^ n) mod 2 ^ k = 0.
Proof.
  intros H. replace n with (k + (n - k)) by lia. rewrite Z.pow_add_r by lia.
  rewrite Z.mul_comm. apply Z.mod_mul. pose proof (Z.pow_pos_nonneg 2 k ltac:(lia) ltac:(lia)). lia.
Qed.

Lemma aligned60 k a t : align_ok k -> 0 <= a < 2 ^ 60 -> a mod 2 ^ k = 0 -> 0 <= t < 2 ^ k ->
  a + t < 2 ^ 60 /\ (a + t) mod 2 ^ k = t.
Proof.
  intros Hk Ha Hal Ht. pose proof (pow2k_range k Hk).
  assert (Hdiv : (2 ^ 60) mod 2 ^ k = 0) by (apply pow2_div; destruct Hk; lia).
  destruct (aligned_add_lt a t (2 ^ k) (2 ^ 60) ltac:(lia) Hdiv Ha Ht) as [Hb Hc].
  rewrite Hal in Hb. split; [lia | auto].
Qed.

Lemma word_with_tag k p tag : align_ok k -> word p -> word (t_with_tag k p tag).
Proof.
  intros Hk Hp. rewrite with_tag_spec by assumption. pose proof (pow2k_range k Hk).
  pose proof (Z.mod_pos_bound tag (2 ^ k) ltac:(lia)).
  unfold word in *.
  assert (Hdiv : (2 ^ 64) mod 2 ^ k = 0) by (apply pow2_div; destruct Hk; lia).
  destruct (aligned_add_lt p (tag mod 2 ^ k) (2 ^ k) (2 ^ 64) ltac:(lia) Hdiv Hp H0) as [Hb _]. exact Hb.
Qed.

Lemma word_with_high_tag k p ts : word p -> 0 <= ts -> word (t_with_high_tag k p ts).
Proof. intros Hp Hts. rewrite with_high_tag_spec by assumption. unfold word in *. lia. Qed.

Lemma ptr_eq_spec k p q : word p -> word q -> t_ptr_eq k p q = (p mod 2 ^ 60 =? q mod 2 ^ 60).
Proof.
  intros Hp Hq. unfold t_ptr_eq. rewrite !with_high_tag_spec by (auto; lia).
  change (0 mod 16) with 0. rewrite !Z.mul_0_r, !Z.add_0_r. reflexivity.
Qed.

(* ---- user-level statements.  A pointer word is built from an aligned address below the reserved
        high bits, a user tag and an internal timestamp. *)
Definition addr_ok (k a : Z) : Prop := 0 <= a < 2 ^ 60 /\ a mod 2 ^ k = 0.

Definition mk (k a tag ts : Z) : Z := t_with_high_tag k (t_with_tag k a tag) ts.

Lemma mk_spec k a tag ts : align_ok k -> addr_ok k a -> 0 <= ts ->
  mk k a tag ts = a + tag mod 2 ^ k + 2 ^ 60 * (ts mod 16) /\ word (mk k a tag ts).
Proof.
  intros Hk [Ha Hal] Hts. unfold mk.
  assert (Hw : word a) by (unfold word; lia).
  pose proof (word_with_tag k a tag Hk Hw) as Hw1.
  split; [|apply word_with_high_tag; assumption].
  rewrite with_high_tag_spec by assumption. rewrite with_tag_spec by assumption. rewrite Hal.
  pose proof (pow2k_range k Hk). pose proof (Z.mod_pos_bound tag (2 ^ k) ltac:(lia)).
  assert (a + tag mod 2 ^ k < 2 ^ 60) by (apply (aligned60 k a (tag mod 2 ^ k)); auto).
  rewrite Z.mod_small by lia. lia.
Qed.

Section User.
  Variables (k a tag ts : Z).
  Hypotheses (Hk : align_ok k) (Ha : addr_ok k a) (Hts : 0 <= ts).
  Local Notation p := (mk k a tag ts).

  Lemma Hp : p = a + tag mod 2 ^ k + 2 ^ 60 * (ts mod 16) /\ word p.
  Proof. exact (mk_spec k a tag ts Hk Ha Hts). Qed.

  Lemma facts : 1 <= 2 ^ k /\ 0 <= tag mod 2 ^ k < 2 ^ k /\ a mod 2 ^ k = 0 /\ a + tag mod 2 ^ k < 2 ^ 60 /\ 0 <= a.
  Proof.
    pose proof (pow2k_range k Hk). pose proof (Z.mod_pos_bound tag (2 ^ k) ltac:(lia)).
    destruct Ha as [Ha1 Ha2]. repeat split; try lia.
    apply (aligned60 k a (tag mod 2 ^ k)); auto.
  Qed.


  (* residues of p *)
  Lemma p_mod_k : p mod 2 ^ k = tag mod 2 ^ k.
  Proof.
    destruct Hp as [-> _]. destruct facts as (F1 & F2 & F3 & F4 & F5).
    pose proof (pow2_div k 60 ltac:(destruct Hk; lia)) as Hdiv.
    rewrite Z.add_mod by lia. rewrite (Z.mul_mod (2 ^ 60)) by lia. rewrite Hdiv, Z.mul_0_l.
    rewrite Z.mod_0_l by lia. rewrite Z.add_0_r, Z.mod_mod by lia.
    apply (aligned60 k a (tag mod 2 ^ k)); auto. destruct Ha; auto.
  Qed.

  Lemma p_mod_60 : p mod 2 ^ 60 = a + tag mod 2 ^ k.
  Proof. destruct Hp as [-> _]. destruct facts as (F1 & F2 & F3 & F4 & F5). lia. Qed.
  Lemma p_div_60 : p / 2 ^ 60 = ts mod 16.
  Proof. destruct Hp as [-> _]. destruct facts as (F1 & F2 & F3 & F4 & F5). lia. Qed.

  Theorem tag_roundtrip : t_tag k p = tag mod 2 ^ k.
  Proof. rewrite tag_spec by assumption. apply p_mod_k. Qed.

  Theorem as_raw_is_addr : t_as_raw k p = a.
  Proof.
    destruct Hp as [_ Hw]. rewrite as_raw_spec by assumption. rewrite p_mod_k.
    destruct facts as (F1 & F2 & F3 & F4 & F5).
    pose proof p_mod_60 as H60. pose proof p_div_60 as Hd.
    assert (p = p mod 2 ^ 60 + 2 ^ 60 * (p / 2 ^ 60)) by lia.
    rewrite H60, Hd in H. rewrite H. lia.
  Qed.

  Theorem high_tag_is_ts : t_high_tag k p = ts mod 16.
  Proof. destruct Hp as [_ Hw]. rewrite high_tag_spec by assumption. apply p_div_60. Qed.

  Theorem is_null_iff : t_is_null k p = (a =? 0).
  Proof. unfold t_is_null. rewrite as_raw_is_addr. reflexivity. Qed.

  Theorem fmt_pointer_is_addr : t_as_raw k p = a.   (* Pointer::fmt prints as_raw() *)
  Proof. exact as_raw_is_addr. Qed.

  (* re-tagging *)
  Theorem with_tag_is_mk tag' : t_with_tag k p tag' = mk k a tag' ts.
  Proof.
    destruct Hp as [_ Hw]. rewrite with_tag_spec by assumption. rewrite p_mod_k.
    destruct (mk_spec k a tag' ts Hk Ha Hts) as [-> _]. destruct Hp as [-> _]. lia.
  Qed.

  (* re-stamping *)
  Theorem with_high_tag_is_mk ts' : 0 <= ts' -> t_with_high_tag k p ts' = mk k a tag ts'.
  Proof.
    intros Hts'. destruct Hp as [_ Hw]. rewrite with_high_tag_spec by assumption. rewrite p_mod_60.
    destruct (mk_spec k a tag ts' Hk Ha Hts') as [-> _]. reflexivity.
  Qed.
End User.

(* consequences in the vocabulary of the property *)
Theorem C11_with_tag k a tag ts tag' : align_ok k -> addr_ok k a -> 0 <= ts ->
  let p := mk k a tag ts in
  t_tag k (t_with_tag k p tag') = tag' mod 2 ^ k /\
  t_as_raw k (t_with_tag k p tag') = a /\
  t_high_tag k (t_with_tag k p tag') = ts mod 16.
Proof.
  intros Hk Ha Hts p. subst p. rewrite with_tag_is_mk by assumption.
  repeat split; [apply tag_roundtrip | apply as_raw_is_addr | apply high_tag_is_ts]; assumption.
Qed.

Theorem C11_with_high_tag k a tag ts ts' : align_ok k -> addr_ok k a -> 0 <= ts -> 0 <= ts' ->
  let p := mk k a tag ts in
  t_tag k (t_with_high_tag k p ts') = tag mod 2 ^ k /\
  t_as_raw k (t_with_high_tag k p ts') = a /\
  t_high_tag k (t_with_high_tag k p ts') = ts' mod 16 /\
  t_ptr_eq k p (t_with_high_tag k p ts') = true /\
  t_is_null k (t_with_high_tag k p ts') = t_is_null k p.
Proof.
  intros Hk Ha Hts Hts' p. subst p. rewrite with_high_tag_is_mk by assumption.
  repeat split; [apply tag_roundtrip | apply as_raw_is_addr | apply high_tag_is_ts | | ]; try assumption.
  - destruct (mk_spec k a tag ts Hk Ha Hts) as [_ W1]. destruct (mk_spec k a tag ts' Hk Ha Hts') as [_ W2].
    rewrite ptr_eq_spec by assumption. rewrite !p_mod_60 by assumption. apply Z.eqb_refl.
  - rewrite !is_null_iff by assumption. reflexivity.
Qed.

Theorem C11_ptr_eq_iff k a tag ts a' tag' ts' :
  align_ok k -> addr_ok k a -> addr_ok k a' -> 0 <= ts -> 0 <= ts' ->
  t_ptr_eq k (mk k a tag ts) (mk k a' tag' ts') = true <-> (a = a' /\ tag mod 2 ^ k = tag' mod 2 ^ k).
Proof.
  intros Hk Ha Ha' Hts Hts'.
  destruct (mk_spec k a tag ts Hk Ha Hts) as [_ W1]. destruct (mk_spec k a' tag' ts' Hk Ha' Hts') as [_ W2].
  rewrite ptr_eq_spec by assumption. rewrite !p_mod_60 by assumption. rewrite Z.eqb_eq.
  destruct (facts k a tag Hk Ha) as (F1 & F2 & F3 & F4 & F5).
  destruct (facts k a' tag' Hk Ha') as (G1 & G2 & G3 & G4 & G5).
  split; [|intros [-> ->]; reflexivity].
  intros H.
  assert ((a + tag mod 2 ^ k) mod 2 ^ k = (a' + tag' mod 2 ^ k) mod 2 ^ k) as Hm by (rewrite H; reflexivity).
  pose proof (pow2_div k 60 ltac:(destruct Hk; lia)) as Hdiv.
  destruct (aligned60 k a (tag mod 2 ^ k) Hk (proj1 Ha) F3 F2) as [_ Hb1].
  destruct (aligned60 k a' (tag' mod 2 ^ k) Hk (proj1 Ha') G3 G2) as [_ Hb2].
  rewrite Hb1, Hb2 in Hm. split; [|exact Hm].
  generalize dependent (tag mod 2 ^ k). generalize dependent (tag' mod 2 ^ k). intros; lia.
Qed.

Theorem C11_null k tag ts : align_ok k -> 0 <= ts -> t_is_null k (mk k 0 tag ts) = true.
Proof.
  intros Hk Hts. rewrite is_null_iff; auto. split; [lia|]. apply Z.mod_0_l. pose proof (pow2k_range k Hk). lia.
Qed.

Theorem C11_accessors k a tag ts : align_ok k -> addr_ok k a -> 0 <= ts ->
  t_tag k (mk k a tag ts) = tag mod 2 ^ k /\ t_as_raw k (mk k a tag ts) = a /\
  t_high_tag k (mk k a tag ts) = ts mod 16 /\ t_is_null k (mk k a tag ts) = (a =? 0).
Proof.
  intros. repeat split; [apply tag_roundtrip | apply as_raw_is_addr | apply high_tag_is_ts | apply is_null_iff]; assumption.
Qed.

(* non-vacuity: an 8-aligned address, tag 13 (truncated to 5), timestamp 9 *)
Example c11_example :
  align_ok 3 /\ addr_ok 3 93824992236880 /\
  t_tag 3 (mk 3 93824992236880 13 9) = 5 /\ t_as_raw 3 (mk 3 93824992236880 13 9) = 93824992236880 /\
  t_high_tag 3 (mk 3 93824992236880 13 9) = 9.
Proof. unfold align_ok, addr_ok. vm_compute. repeat split; congruence. Qed.
