(* Candidate invariant for property C02 (validity of Snapshots) over the model Rc.v, in EXECUTABLE form:
   [prot s x o] = "object o cannot be destructed while thread x stays in its current critical section".
   Evaluated on every micro state of every replayed implementation trace by the OCaml driver (mode snapinv)
   before anything is proved about it (RcSnapInvP.v).  Model-level definitions only. *)
From Coq Require Import ZArith List Bool Lia.
Import ListNotations.
Require Import Params StateW DisposeW Rc.
Local Open Scope Z_scope.

(* the epoch denoted by a 4-bit residue read at epoch c: the one congruent to it in [c-13, c+2] (ModularP.decode) *)
Definition dec (c a : Z) : Z := c + 2 - ((c + 2 - a) mod 16).

(* a stamp the reader x can rely on: written no earlier than one epoch before x pinned, and not "in the future" *)
Definition freshb (s : state) (x : thr) (e : Z) : bool :=
  (ann x - 1 <=? dec (G s) e) && (dec (G s) e <=? G s + 1).

Definition is_ob (o : nat) (l : link) : bool := Nat.eqb (fst l) o.
Definition count_b {A} (f : A -> bool) (l : list A) : Z := fold_right (fun a acc => (if f a then 1 else 0) + acc) 0 l.
Definition sumz {A} (f : A -> Z) (l : list A) : Z := fold_right (fun a acc => f a + acc) 0 l.

(* ---- (a) ordinary shares: everything except link fields of nodes and the outgoing edges held by a cascade *)
Definition h_strong (o : nat) (h : handle) : Z :=
  match h with
  | HRc l => if is_ob o l then 1 else 0
  | HIter o' rem => if Nat.eqb o' o then rem else 0
  | _ => 0
  end.
Definition ord_frame (o : nat) (f : frame) : Z :=
  match f with
  | FDecS110 o' cnt _ true | FDecS111 o' cnt _ _ true | FDecS112 o' cnt _ _ _ true => if Nat.eqb o' o then cnt else 0
  | FRet c b => h_strong o (if b then cok c else cfail c)
  | FSwap122 _ new _ | FSwap120 _ new _ => if is_ob o new then 1 else 0
  | _ => 0
  end.
Definition ord_thr (o : nat) (x : thr) : Z := sumz (h_strong o) (vars x) + sumz (ord_frame o) (frames x).
Definition ord (s : state) (o : nat) : Z := sumz (ord_thr o) (threads s) + count_b (is_ob o) (cells s).

(* ---- (c) a pending try_destruct of o that waits for the critical section (t, n) *)
Definition wit_b (t n : nat) (p : pend) : bool :=
  existsb (fun w => Nat.eqb (fst w) t && Nat.eqb (snd w) n) (pwit p).
Definition pend_wit (s : state) (t n o : nat) : bool :=
  existsb (fun p => pkind_eqb (pk p) KDestruct && Nat.eqb (po p) o && wit_b t n p) (pending s).

(* ---- (f) the cascade is deciding about o and will defer: the stamp it looks at is fresh, or its CAS must fail *)
Definition casc_frame (s : state) (x : thr) (o : nat) (ob : obj) (f : frame) : bool :=
  match f with
  | FDispEnter o' d | FDisp115 o' d => Nat.eqb o' o && (0 <? d) && freshb s x (epoch (word ob))
  | FDisp116 o' d w => Nat.eqb o' o && (0 <? d) && freshb s x (epoch w)
  | _ => false
  end.
Definition casc_b (s : state) (x : thr) (o : nat) (ob : obj) : bool :=
  existsb (fun y => existsb (casc_frame s x o ob) (frames y)) (threads s).

(* ---- (e) a share of o that sits in a link field with a fresh timestamp, or travels in a cascade with one *)
Definition flink (s : state) (x : thr) (o : nat) (l : link) : bool := is_ob o l && freshb s x (snd l).
Definition elink_b (s : state) (x : thr) (o : nat) : bool :=
  existsb (fun P => negb (dropped P) && existsb (flink s x o) (links P)) (objs s).
Definition outs_frame (s : state) (x : thr) (o : nat) (ob : obj) (f : frame) : bool :=
  match f with
  | FDisp117 _ _ _ _ outs | FKids _ _ _ outs => existsb (flink s x o) outs
  | FKid118 c _ _ _ outs => flink s x o c || existsb (flink s x o) outs
  | FKid119 c wc nxt _ _ _ outs =>
      (flink s x o c && freshb s x (epoch nxt)) || existsb (flink s x o) outs
  | _ => false
  end.
Definition eouts_b (s : state) (x : thr) (o : nat) (ob : obj) : bool :=
  existsb (fun y => existsb (outs_frame s x o ob) (frames y)) (threads s).

(* ---- the base cases, then the closure under (d): a link field of a protected, not yet dropped node *)
Definition prot_base (s : state) (t : nat) (x : thr) (o : nat) (ob : obj) : bool :=
  negb (destructed (word ob)) &&
  ((0 <? ord s o)
   || ((0 <? strong (word ob)) && freshb s x (epoch (word ob)))
   || pend_wit s t (serial x) o
   || casc_b s x o ob
   || elink_b s x o
   || eouts_b s x o ob).

Fixpoint mapi_from {A B} (f : nat -> A -> B) (i : nat) (l : list A) : list B :=
  match l with [] => [] | a :: r => f i a :: mapi_from f (S i) r end.

(* flags.(i) = object i+1 is protected *)
Definition flag_of (fl : list bool) (o : nat) : bool := match o with O => false | S i => nth i fl false end.
Definition has_prot_parent (s : state) (fl : list bool) (o : nat) : bool :=
  existsb (fun pr => fst pr && negb (dropped (snd pr)) && existsb (is_ob o) (links (snd pr))) (combine fl (objs s)).
Definition prot_step (s : state) (fl : list bool) : list bool :=
  mapi_from (fun i ob => nth i fl false || (negb (destructed (word ob)) && has_prot_parent s fl (S i))) 0 (objs s).
Fixpoint prot_iter (fuel : nat) (s : state) (fl : list bool) : list bool :=
  match fuel with O => fl | S n => prot_iter n s (prot_step s fl) end.
Definition prot_flags (s : state) (t : nat) (x : thr) : list bool :=
  prot_iter (length (objs s)) s (mapi_from (fun i ob => prot_base s t x (S i) ob) 0 (objs s)).

(* ---- the invariant: every Snapshot of the current critical section refers to a protected object *)
Definition snap_target (x : thr) (h : handle) : nat :=
  match h with HSnap l n => if Nat.eqb n (serial x) then fst l else O | _ => O end.
Definition frame_snap (x : thr) (f : frame) : nat :=
  match f with FRet c b => snap_target x (if b then cok c else cfail c) | _ => O end.
Definition thr_snaps (x : thr) : list nat :=
  filter (fun o => negb (Nat.eqb o 0)) (map (snap_target x) (vars x) ++ map (frame_snap x) (frames x)).

Definition thr_code (s : state) (t : nat) (x : thr) : Z :=
  if negb (incs x) then 0 else
  let fl := prot_flags s t x in
  match filter (fun o => negb (flag_of fl o)) (thr_snaps x) with
  | [] => 0
  | o :: _ => 31000 + Z.of_nat o
  end.

Fixpoint first_nz {A} (f : nat -> A -> Z) (i : nat) (l : list A) : Z :=
  match l with [] => 0 | a :: r => let c := f i a in if c =? 0 then first_nz f (S i) r else c end.

(* ---- the run hypotheses the proof will need (reported separately) *)
(* H1: the stamp a cascade is about to write does not look two epochs ahead of the epoch it was merged at (that
   happens only when one of the merged stamps lay untouched for exactly 14 (30, ...) epochs) *)
Definition frame_sane (s : state) (f : frame) : bool :=
  match f with
  | FKid119 _ wc nxt _ _ curr _ => (dec curr (epoch nxt) <=? curr + 1) || (epoch nxt =? epoch wc)
  | _ => true
  end.
Definition frame_dbg (f : frame) : Z :=
  match f with
  | FKid119 c wc nxt _ ne curr _ =>
      if (dec curr (epoch nxt) <=? curr + 1) || (epoch nxt =? epoch wc) then 0
      else (if epoch nxt =? ne mod 16 then 1 else 0) + (if epoch nxt =? snd c mod 16 then 2 else 0) + 10 * (curr mod 16) + 200
  | _ => 0
  end.
Definition sane_dbg (s : state) : Z := sumz (fun x => sumz frame_dbg (frames x)) (threads s).
Definition sane_b (s : state) : bool := forallb (fun x => forallb (frame_sane s) (frames x)) (threads s).
(* H2: an epoch read that will be written as a stamp is at most one behind (the thread that read it is pinned in the
   implementation; the model does not pin inside deferred functions) *)
Definition frame_pinned (s : state) (f : frame) : bool :=
  match f with
  | FDecS111 _ _ r _ _ | FDecS112 _ _ r _ _ _ => (G s <=? r + 1) && (r <=? G s)
  | FKid118 _ _ _ curr _ | FKid119 _ _ _ _ _ curr _ => (0 <=? curr) && (curr <? 2 ^ 62) && (G s - 1 <=? curr) && (curr <=? G s)
  | FIsND109 _ _ r _ => (G s <=? r + 1) && (r <=? G s)
  | FCas123 _ _ desraw _ _ => Nat.eqb (fst desraw) 0 || (dec (G s) (snd desraw) <=? G s) && (G s - 1 <=? dec (G s) (snd desraw))
  | _ => true
  end.
Definition frame_pdbg (s : state) (x : thr) (f : frame) : Z :=
  if frame_pinned s f then 0 else
  (match f with
   | FDecS111 _ _ r _ _ | FDecS112 _ _ r _ _ _ => 100 + (G s - r)
   | FKid118 _ _ _ curr _ | FKid119 _ _ _ _ _ curr _ => 200 + (G s - curr)
   | FIsND109 _ _ r _ => 300 + (G s - r)
   | FCas123 _ _ _ _ _ => 400
   | _ => 0
   end) + (if incs x then 50 else 0) + (if inclosure x then 20 else 0).
Definition pinned_dbg (s : state) : Z := sumz (fun x => sumz (frame_pdbg s x) (frames x)) (threads s).
Definition pinned_b (s : state) : bool := forallb (fun x => forallb (frame_pinned s) (frames x)) (threads s).

(* H3: Snapshot / WeakSnapshot variables belong to the current critical section (Rust lifetimes) *)
Definition scoped_h (x : thr) (h : handle) : bool :=
  match h with HSnap _ n | HWSnap _ n => incs x && Nat.eqb n (serial x) | _ => true end.
Definition scoped_f (x : thr) (f : frame) : bool :=
  match f with
  | FRet c _ | FIsND108 _ c | FIsND109 _ _ _ c | FIncS100 _ c | FIncS101 _ c => scoped_h x (cok c) && scoped_h x (cfail c)
  | _ => true
  end.
Definition scoped_b (s : state) : bool :=
  forallb (fun x => forallb (scoped_h x) (vars x) && forallb (scoped_f x) (frames x)) (threads s).
(* residue invariant RInv of RcSnapInvP.v (a theorem there, no longer a hypothesis): while G < 14 no stored residue exceeds G + 1 *)
Definition res_ok (s : state) (a : Z) : bool := (0 <=? a) && (a <? 16) && ((14 <=? G s) || (a <=? G s + 1)).
Definition lres_ok (s : state) (l : link) : bool := Nat.eqb (fst l) 0 || res_ok s (snd l).
Definition frame_res (s : state) (f : frame) : bool :=
  match f with
  | FDisp117 _ _ ne _ outs | FKids _ ne _ outs => res_ok s ne && forallb (lres_ok s) outs
  | FKid118 c _ ne _ outs => res_ok s ne && lres_ok s c && forallb (lres_ok s) outs
  | FKid119 c wc _ _ ne _ outs => res_ok s ne && lres_ok s c && res_ok s (epoch wc) && forallb (lres_ok s) outs
  | FDisp116 _ _ w | FDisp130 _ _ w _ | FDispDo _ _ w _ => res_ok s (epoch w)
  | FDecS111 _ _ r _ _ | FDecS112 _ _ r _ _ _ | FIsND109 _ _ r _ => (0 <=? r) && (r <=? G s)
  | FCas123 _ _ desraw _ _ => lres_ok s desraw
  | _ => true
  end.
Definition resid_b (s : state) : bool :=
  forallb (fun ob => res_ok s (epoch (word ob)) && forallb (lres_ok s) (links ob)) (objs s)
  && forallb (fun x => forallb (frame_res s) (frames x)) (threads s).
(* H6: cell operations designate a root cell or one of the two fields of a node *)
Definition cellop_okb (op : list Z) : bool :=
  match op with
  | opc :: ck :: a :: b :: _ => negb ((30 <=? opc) && (opc <=? 33)) || (if ck =? 0 then a <? 1000 else (0 <=? b) && (b <? 2))
  | _ => true
  end.
Definition cellops_b (s : state) : bool := forallb (fun x => forallb cellop_okb (prog x)) (threads s).
Definition snapinv_b (s : state) : Z :=
  let c := first_nz (thr_code s) 0 (threads s) in
  if negb (c =? 0) then c else
  if negb (pinned_b s) then 33000 + pinned_dbg s else
  if negb (scoped_b s) then 35000 else
  if negb (resid_b s) then 36000 else
  if negb (cellops_b s) then 37000 else 0.

(* ---- the weak half (C03_wsnap): the block of o cannot be freed while reader x stays in its critical section:
   o is protected on the strong side (not destructed ==> not dropped ==> not freed), or its weak count is positive and
   WEAKED is set (try_dealloc frees only at zero, the cascade frees directly only when WEAKED is clear; a decrement that
   reaches zero defers a try_dealloc with the reader as witness), or such a try_dealloc is pending *)
Definition pend_witk (k : pkind) (s : state) (t n o : nat) : bool :=
  existsb (fun p => pkind_eqb (pk p) k && Nat.eqb (po p) o && wit_b t n p) (pending s).
Definition wprot_flags (s : state) (t : nat) (x : thr) : list bool :=
  let fl := prot_flags s t x in
  mapi_from (fun i ob => negb (freed ob) &&
                         (nth i fl false || ((0 <? weak (word ob)) && weaked (word ob)) || pend_witk KDealloc s t (serial x) (S i)))
            0 (objs s).
Definition wsnap_target (x : thr) (h : handle) : nat :=
  match h with HWSnap l n => if Nat.eqb n (serial x) then fst l else O | _ => O end.
Definition frame_wsnap (x : thr) (f : frame) : nat :=
  match f with FRet c b => wsnap_target x (if b then cok c else cfail c) | _ => O end.
Definition thr_wsnaps (x : thr) : list nat :=
  filter (fun o => negb (Nat.eqb o 0)) (map (wsnap_target x) (vars x) ++ map (frame_wsnap x) (frames x)).
Definition h_weak (o : nat) (h : handle) : Z := match h with HWeak l => if is_ob o l then 1 else 0 | _ => 0 end.
(* increment_weak runs on an object the thread keeps allocated by itself *)
Definition incw_top (x : thr) : nat :=
  match frames x with
  | (FIncW103 o _ | FIncW104 o _ _ | FIncW105 o _ | FIncW106 o) :: _ => o
  | _ => O
  end.
Definition thr_wcode (s : state) (t : nat) (x : thr) : Z :=
  let wfl := wprot_flags s t x in
  let c1 := if negb (incs x) then 0 else
            match filter (fun o => negb (flag_of wfl o)) (thr_wsnaps x) with
            | [] => 0
            | o :: _ => 41000 + Z.of_nat o
            end in
  if negb (c1 =? 0) then c1 else
  let c2 := match incw_top x with
            | O => 0
            | o => if (0 <? sumz (h_strong o) (vars x)) || (0 <? sumz (h_weak o) (vars x)) || (incs x && flag_of wfl o) then 0
                   else 45000 + Z.of_nat o
            end in
  if negb (c2 =? 0) then c2 else
  (* FINDING F5: between the two fetch_adds of an increment from zero the thread is in a section that a pending
     try_dealloc of the object waits for *)
  match frames x with
  | FIncW106 o :: _ => if incs x && pend_witk KDealloc s t (serial x) o then 0 else 46000 + Z.of_nat o
  | _ => 0
  end.
Definition wsnapinv_b (s : state) : Z := first_nz (thr_wcode s) 0 (threads s).
Fixpoint first_wlost (fl fl' : list bool) (i : nat) : Z :=
  match fl, fl' with
  | b :: r, b' :: r' => if b && negb b' then 44000 + Z.of_nat (S i) else first_wlost r r' (S i)
  | _, _ => 0
  end.
Definition wstable_code (s s' : state) (t : nat) (x : thr) : Z :=
  match nth_error (threads s') t with
  | Some x' => if incs x && incs x' && Nat.eqb (serial x) (serial x')
               then first_wlost (wprot_flags s t x) (wprot_flags s' t x') 0 else 0
  | None => 0
  end.
Definition wstable_b (s s' : state) : Z := first_nz (wstable_code s s') 0 (threads s).

(* ---- stability: what is protected for a reader stays protected while the reader stays in the same section *)
Fixpoint first_lost (fl fl' : list bool) (i : nat) : Z :=
  match fl, fl' with
  | b :: r, b' :: r' => if b && negb b' then 34000 + Z.of_nat (S i) else first_lost r r' (S i)
  | _, _ => 0
  end.
Definition stable_code (s s' : state) (t : nat) (x : thr) : Z :=
  match nth_error (threads s') t with
  | Some x' => if incs x && incs x' && Nat.eqb (serial x) (serial x')
               then first_lost (prot_flags s t x) (prot_flags s' t x') 0 else 0
  | None => 0
  end.
Definition stable_b (s s' : state) : Z := first_nz (stable_code s s') 0 (threads s).

(* ---- all the states a scheduled step goes through (one per micro transition) *)
Fixpoint local_states (fuel : nat) (s : state) (t : nat) (rec : list Z) : list state :=
  match fuel with
  | O => []
  | S n =>
      match gett s t with
      | Some x =>
          match frames x with
          | [] => []
          | f :: _ => if is_yield f then []
                      else match micro s t rec with
                           | Some (s', _) => s' :: local_states n s' t rec
                           | None => []
                           end
          end
      | None => []
      end
  end.
Definition step_states (s : state) (t : nat) (rec : list Z) : list state :=
  if top_is_yield s t then
    match micro s t rec with
    | Some (s1, _) =>
        let first := if top_is_await s t && top_is_yield s1 t
                     then match micro s1 t rec with Some (s1', _) => [s1; s1'] | None => [s1] end
                     else [s1] in
        first ++ local_states 1000 (last first s1) t rec
    | None => []
    end
  else [].

Fixpoint check_chain (s : state) (l : list state) : Z :=
  match l with
  | [] => 0
  | s' :: r => let c := snapinv_b s' in
               if negb (c =? 0) then c else
               let c2 := stable_b s s' in
               if negb (c2 =? 0) then c2 else
               let c3 := wsnapinv_b s' in
               if negb (c3 =? 0) then c3 else
               let c4 := wstable_b s s' in
               if negb (c4 =? 0) then c4 else check_chain s' r
  end.

Fixpoint snapinv_from (s : state) (sched : list Z) (recs : list (list Z)) : list (list Z) :=
  match sched, recs with
  | t :: r, rc :: rr =>
      match step s (nat_of t) rc with
      | Some (s', o) => [check_chain s (step_states s (nat_of t) rc); Z.of_nat (length (step_states s (nat_of t) rc))]
                        :: snapinv_from s' r rr
      | None => [-999; 0] :: snapinv_from s r rr
      end
  | _, _ => []
  end.
Definition rc_snapinv (prog sched : list Z) (recs : list (list Z)) : list (list Z) :=
  snapinv_from (init prog) sched recs.
