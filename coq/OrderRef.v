(* REFERENCE table of memory orderings: the orderings of the source the (sequentially consistent) models were written against.  Hand-pinned copy of Gen/OrderW.v; OrderP.v requires the current source to be at least as strong, access kind by access kind. *)
From Coq Require Import ZArith List Bool.
Import ListNotations.
Local Open Scope Z_scope.
Local Open Scope bool_scope.
From Coq Require Import String.
Local Open Scope string_scope.

(* (file, method#argument position, [Relaxed; Acquire; Release; AcqRel; SeqCst] occurrence counts) *)
Definition order_ref : list (string * string * list Z) :=
  [ ("src/utils.rs", "compare_exchange#2", [0; 0; 0; 0; 6]);
    ("src/utils.rs", "compare_exchange#3", [0; 0; 0; 0; 6]);
    ("src/utils.rs", "fetch_add#1", [0; 0; 0; 0; 4]);
    ("src/utils.rs", "fetch_sub#1", [0; 0; 0; 0; 1]);
    ("src/utils.rs", "load#0", [0; 0; 0; 0; 9]);
    ("src/strong.rs", "load#0", [2; 0; 0; 0; 0]);
    ("src/weak.rs", "load#0", [2; 0; 0; 0; 0]);
    ("src/ebr_impl/internal.rs", "compare_exchange#2", [0; 0; 0; 0; 1]);
    ("src/ebr_impl/internal.rs", "compare_exchange#3", [0; 0; 0; 0; 1]);
    ("src/ebr_impl/internal.rs", "compiler_fence#0", [0; 0; 0; 0; 2]);
    ("src/ebr_impl/internal.rs", "fence#0", [0; 1; 0; 0; 3]);
    ("src/ebr_impl/internal.rs", "load#0", [8; 1; 0; 0; 0]);
    ("src/ebr_impl/internal.rs", "store#1", [1; 0; 4; 0; 0]);
    ("src/ebr_impl/collector.rs", "load#0", [1; 0; 0; 0; 0]);
    ("src/ebr_impl/sync/queue.rs", "compare_exchange#2", [0; 0; 7; 0; 0]);
    ("src/ebr_impl/sync/queue.rs", "compare_exchange#3", [7; 0; 0; 0; 0]);
    ("src/ebr_impl/sync/queue.rs", "load#0", [3; 6; 0; 0; 0]);
    ("src/ebr_impl/sync/queue.rs", "store#1", [2; 0; 0; 0; 0]);
    ("src/ebr_impl/sync/list.rs", "compare_exchange#2", [0; 1; 0; 0; 0]);
    ("src/ebr_impl/sync/list.rs", "compare_exchange#3", [0; 1; 0; 0; 0]);
    ("src/ebr_impl/sync/list.rs", "compare_exchange_weak#2", [0; 0; 1; 0; 0]);
    ("src/ebr_impl/sync/list.rs", "compare_exchange_weak#3", [1; 0; 0; 0; 0]);
    ("src/ebr_impl/sync/list.rs", "fetch_or#1", [0; 0; 1; 0; 0]);
    ("src/ebr_impl/sync/list.rs", "load#0", [3; 3; 0; 0; 0]);
    ("src/ebr_impl/sync/list.rs", "store#1", [1; 0; 0; 0; 0]);
    ("src/ebr_impl/sync/once_lock.rs", "load#0", [0; 1; 0; 0; 0]);
    ("src/ebr_impl/sync/once_lock.rs", "store#1", [0; 0; 1; 0; 0]) ].
