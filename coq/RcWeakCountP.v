(* C10, weak half (weak_many): in every reachable state the weak field of an object whose block is not freed equals the
   number of weak owners handed out and not yet released (Weak values - the N elements of the array weak_many returns among
   them -, weak shares in flight) plus the weak token plus the share the strong side holds until the payload is dropped
   (and, briefly, the shares of frames that are about to release it).  A corollary of RcWeakP.Winv along run_ok runs. *)
From Coq Require Import ZArith List Bool Lia Arith.
Import ListNotations.
Require Import Params StateW DisposeW Rc RcSpec RcP RcWeakP RcSnapInvP RcWSnapInvP.
Local Open Scope Z_scope.

Theorem C10_weak_count_equals_owners s0 sched : run_ok s0 sched ->
  let s := mrun s0 sched in
  forall o ob, geto s o = Some ob -> freed ob = false ->
    weak (word ob) = wowners s o + b2z (wtok ob) + (b2z (negb (dropped ob)) + gfr s o) /\
    0 <= gfr s o /\
    (weaked (word ob) = false -> weak (word ob) = 1).
Proof.
  intros H. destruct (run_ok_hyps _ _ H) as (H1 & H2 & H3).
  destruct (mrun_full sched s0 (Inv_fresh _ H1) (Winv_fresh _ H1) H2 H3) as (_ & _ & (HW & _)).
  intros s o ob Hg Hfr. destruct (HW o ob Hg Hfr) as [Wc _ Ww].
  split; [exact Wc|]. split; [apply gfr_nonneg|]. intros Hwk. exact (proj1 (Ww Hwk)).
Qed.
Print Assumptions C10_weak_count_equals_owners.
