(* Proofs about M9 (OnceLock.v): for every number of threads, every initialising value and every schedule,
   the closure of at most one get_or_init runs, every call returns the value that execution produced, no call
   reads an uninitialised slot, and nobody stays blocked (the thread inside the closure can always move). *)
From Coq Require Import ZArith List Bool Lia.
Import ListNotations.
Require Import OnceLock.
Local Open Scope Z_scope.

Lemma nth_set_same {A} (l : list A) n x y : nth_error l n = Some y -> nth_error (set_nth l n x) n = Some x.
Proof. revert n; induction l as [|a l IH]; intros [|n] H; cbn in *; try discriminate; auto. Qed.
Lemma nth_set_other {A} (l : list A) n m x : n <> m -> nth_error (set_nth l n x) m = nth_error l m.
Proof. revert n m; induction l as [|a l IH]; intros [|n] [|m] H; cbn; auto; congruence. Qed.
Lemma set_nth_len {A} (l : list A) n x : length (set_nth l n x) = length l.
Proof. revert n; induction l as [|a l IH]; intros [|n]; cbn; auto. Qed.

Definition inclosure (p : pc) : bool :=
  match p with PInF _ | PWrite _ | PFlag | PLeave => true | _ => false end.
Definition returned (p : pc) : bool := match p with PGet | PDone _ => true | _ => false end.
Definition carries (p : pc) (v : Z) : Prop :=
  match p with PStart w | PFast w | PCall w | PInF w | PWrite w => w = v | _ => False end.

Definition phase (s : state) (t : nat) (p : pc) : Prop :=
  match p with
  | PInF v => runs s = [] /\ slot s = None /\ flag s = false
  | PWrite v => runs s = [(t, v)] /\ slot s = None /\ flag s = false
  | PFlag => exists v, runs s = [(t, v)] /\ slot s = Some v /\ flag s = false
  | PLeave => exists v, runs s = [(t, v)] /\ slot s = Some v /\ flag s = true
  | _ => True
  end.

Record Inv (vals : list Z) (s : state) : Prop := {
  i_closure : forall t p, nth_error (threads s) t = Some p -> inclosure p = true ->
                st_once s = Running /\ phase s t p /\
                (forall t' p', nth_error (threads s) t' = Some p' -> inclosure p' = true -> t' = t);
  i_idle : st_once s = Incomplete -> runs s = [] /\ slot s = None /\ flag s = false;
  i_complete : st_once s = Complete -> flag s = true;
  i_running : st_once s = Running -> exists t p, nth_error (threads s) t = Some p /\ inclosure p = true;
  i_flag : flag s = true -> exists w v, runs s = [(w, v)] /\ slot s = Some v;
  i_slot : forall v, slot s = Some v -> exists w, runs s = [(w, v)];
  i_get : forall t p, nth_error (threads s) t = Some p -> returned p = true -> flag s = true;
  i_done : forall t r, nth_error (threads s) t = Some (PDone r) -> slot s = Some r;
  i_rets : forall t r, In (t, r) (rets s) -> slot s = Some r;
  i_bad : bad s = false;
  i_vals : forall t p v, nth_error (threads s) t = Some p -> carries p v -> nth_error vals t = Some v;
  i_runs : forall w v, In (w, v) (runs s) -> nth_error vals w = Some v;
  i_len : length (threads s) = length vals;
}.

Lemma nth_start vals t p : nth_error (map PStart vals) t = Some p -> exists v, p = PStart v /\ nth_error vals t = Some v.
Proof. rewrite nth_error_map. destruct (nth_error vals t) as [v|]; cbn; intros H; inversion H; eauto. Qed.

Lemma init_inv vals : Inv vals (init vals).
Proof.
  constructor; cbn; try tauto; try discriminate; auto.
  - intros t p H Hc. apply nth_start in H. destruct H as (v & -> & _). discriminate.
  - intros t p H Hc. apply nth_start in H. destruct H as (v & -> & _). discriminate.
  - intros t r H. apply nth_start in H. destruct H as (v & E & _). discriminate.
  - intros t p v H Hc. apply nth_start in H. destruct H as (w & -> & E). cbn in Hc. congruence.
  - apply map_length.
Qed.

(* the pc of thread q after thread t moved *)
Ltac other_thread Hq t q :=
  destruct (Nat.eq_dec t q) as [<-|?];
  [ erewrite nth_set_same in Hq by eassumption; inversion Hq; subst; clear Hq
  | rewrite nth_set_other in Hq by assumption ].

(* fields of Inv for a step of thread t (old pc not inside the closure, not returned) whose new pc is neither *)
Ltac f_closure_out Icl t :=
  let q := fresh "q" in let p' := fresh "p'" in let Hq := fresh "Hq" in let Hc := fresh "Hc" in
  intros q p' Hq Hc; other_thread Hq t q; [try (destruct (flag _)); discriminate|];
  let A := fresh in let B := fresh in let C := fresh in
  destruct (Icl q p' Hq Hc) as (A & B & C); split; [exact A | split; [exact B |]];
  let q' := fresh "q'" in let p'' := fresh "p''" in let Hq' := fresh "Hq'" in let Hc' := fresh "Hc'" in
  intros q' p'' Hq' Hc'; other_thread Hq' t q'; [try (destruct (flag _)); discriminate|]; eauto.
Ltac f_running_out Iru Hp t :=
  let Hr := fresh in intros Hr; let q := fresh "q" in let p' := fresh "p'" in let Hq := fresh "Hq" in let Hc := fresh "Hc" in
  destruct (Iru Hr) as (q & p' & Hq & Hc); exists q, p'; split; auto;
  destruct (Nat.eq_dec t q) as [E|?]; [subst q; rewrite Hp in Hq; inversion Hq; subst; discriminate | rewrite nth_set_other; auto].
Ltac f_thr I t :=      (* a per-thread field when the new pc of t satisfies it trivially or by the tactic given *)
  let q := fresh "q" in intros q; intros; 
  match goal with Hq : nth_error (set_nth _ _ _) q = _ |- _ => other_thread Hq t q; try solve [eauto] end.

Ltac keep :=
  first [ assumption | solve [intros; congruence] | solve [intros; eauto]
        | solve [intros; match goal with H : _ -> ?G |- ?G => apply H; solve [reflexivity | assumption | congruence] end] ].

Theorem step_inv vals s t s' : Inv vals s -> step s t = Some s' -> Inv vals s'.
Proof.
  intros I H. unfold step in H. destruct (nth_error (threads s) t) as [p|] eqn:Hp; [|discriminate].
  destruct I as [Icl Iid Ico Iru Ifl Isl Ige Ido Ire Iba Iva Irn Ile].
  destruct p as [v|v|v|v|v| | | |r].
  - (* PStart -> PFast *)
    inversion H; subst; clear H. constructor; cbn [st_once flag slot threads runs rets bad upd].
    + f_closure_out Icl t.
    + keep.
    + keep.
    + f_running_out Iru Hp t.
    + keep.
    + keep.
    + f_thr Ige t; try solve [discriminate].
    + f_thr Ido t.
    + keep.
    + keep.
    + f_thr Iva t; try solve [match goal with Hc : carries _ _ |- _ => cbn in Hc; subst end; apply (Iva _ _ _ Hp); reflexivity].
    + keep.
    + rewrite set_nth_len. assumption.
  - (* PFast *)
    inversion H; subst; clear H. constructor; cbn [st_once flag slot threads runs rets bad upd].
    + f_closure_out Icl t.
    + keep.
    + keep.
    + f_running_out Iru Hp t.
    + keep.
    + keep.
    + f_thr Ige t; try solve [destruct (flag s) eqn:F; [reflexivity|discriminate]].
    + f_thr Ido t; try solve [destruct (flag s); discriminate].
    + keep.
    + keep.
    + f_thr Iva t; try solve [match goal with Hc : carries _ _ |- _ => destruct (flag s); cbn in Hc; [tauto|subst] end; apply (Iva _ _ _ Hp); reflexivity].
    + keep.
    + rewrite set_nth_len. assumption.
  - (* PCall *)
    destruct (st_once s) eqn:Ho; [| discriminate |].
    + (* Incomplete: this thread becomes the runner *)
      inversion H; subst; clear H. destruct (Iid eq_refl) as (R0 & S0 & F0).
      assert (Nocl : forall q p', nth_error (threads s) q = Some p' -> inclosure p' = true -> False).
      { intros q p' Hq Hc. destruct (Icl q p' Hq Hc) as (A & _). congruence. }
      constructor; cbn [st_once flag slot threads runs rets bad upd].
      * intros q p' Hq Hc. other_thread Hq t q.
        -- repeat split; auto. intros q' p'' Hq' Hc'. other_thread Hq' t q'; [reflexivity|]. exfalso; eauto.
        -- exfalso; eauto.
      * discriminate.
      * discriminate.
      * intros _. exists t, (PInF v). split; [eapply nth_set_same; eauto | reflexivity].
      * keep.
      * keep.
      * f_thr Ige t; try solve [discriminate].
      * f_thr Ido t.
      * keep.
      * keep.
      * f_thr Iva t; try solve [match goal with Hc : carries _ _ |- _ => cbn in Hc; subst end; apply (Iva _ _ _ Hp); reflexivity].
      * keep.
      * rewrite set_nth_len. assumption.
    + (* Complete *)
      inversion H; subst; clear H. constructor; cbn [st_once flag slot threads runs rets bad upd].
      * intros q p' Hq Hc. other_thread Hq t q; [discriminate|]. destruct (Icl q p' Hq Hc) as (A & _). congruence.
      * keep.
      * keep.
      * intros Hr. congruence.
      * keep.
      * keep.
      * f_thr Ige t; try solve [auto].
      * f_thr Ido t.
      * keep.
      * keep.
      * f_thr Iva t; try solve [match goal with Hc : carries _ _ |- _ => cbn in Hc; tauto end].
      * keep.
      * rewrite set_nth_len. assumption.
  - (* PInF -> PWrite : the closure runs *)
    inversion H; subst; clear H. destruct (Icl t _ Hp eq_refl) as (A & (R0 & S0 & F0) & U).
    constructor; cbn [st_once flag slot threads runs rets bad upd].
    + intros q p' Hq Hc. other_thread Hq t q.
      * repeat split; auto; try (rewrite R0; reflexivity).
        intros q' p'' Hq' Hc'. other_thread Hq' t q'; [reflexivity|]. eauto.
      * exfalso. specialize (U q p' Hq Hc). congruence.
    + intros Hi. congruence.
    + keep.
    + intros _. exists t, (PWrite v). split; [eapply nth_set_same; eauto | reflexivity].
    + intros Hf. congruence.
    + intros v' Hs. congruence.
    + f_thr Ige t; try solve [discriminate].
    + f_thr Ido t.
    + keep.
    + keep.
    + f_thr Iva t; try solve [match goal with Hc : carries _ _ |- _ => cbn in Hc; subst end; apply (Iva _ _ _ Hp); reflexivity].
    + intros w v' Hin. rewrite R0 in Hin. cbn in Hin. destruct Hin as [E|[]]. inversion E; subst. apply (Iva _ _ _ Hp). reflexivity.
    + rewrite set_nth_len. assumption.
  - (* PWrite -> PFlag : the slot is written *)
    inversion H; subst; clear H. destruct (Icl t _ Hp eq_refl) as (A & (R0 & S0 & F0) & U).
    assert (Noret : forall q p', nth_error (threads s) q = Some p' -> returned p' = true -> False).
    { intros q p' Hq Hr. specialize (Ige q p' Hq Hr). congruence. }
    constructor; cbn [st_once flag slot threads runs rets bad upd].
    + intros q p' Hq Hc. other_thread Hq t q.
      * repeat split; auto; [exists v; auto|].
        intros q' p'' Hq' Hc'. other_thread Hq' t q'; [reflexivity|]. eauto.
      * exfalso. specialize (U q p' Hq Hc). congruence.
    + intros Hi. congruence.
    + keep.
    + intros _. exists t, PFlag. split; [eapply nth_set_same; eauto | reflexivity].
    + intros Hf. congruence.
    + intros v' Hs. inversion Hs; subst. eauto.
    + f_thr Ige t; try solve [discriminate].
    + intros q r Hq. other_thread Hq t q. exfalso. eapply Noret; eauto.
    + intros q r Hin. specialize (Ire q r Hin). congruence.
    + keep.
    + f_thr Iva t; try solve [match goal with Hc : carries _ _ |- _ => cbn in Hc; tauto end].
    + keep.
    + rewrite set_nth_len. assumption.
  - (* PFlag -> PLeave : is_initialized is published *)
    inversion H; subst; clear H. destruct (Icl t _ Hp eq_refl) as (A & (v & R0 & S0 & F0) & U).
    constructor; cbn [st_once flag slot threads runs rets bad upd].
    + intros q p' Hq Hc. other_thread Hq t q.
      * repeat split; auto; [exists v; auto|].
        intros q' p'' Hq' Hc'. other_thread Hq' t q'; [reflexivity|]. eauto.
      * exfalso. specialize (U q p' Hq Hc). congruence.
    + intros Hi. congruence.
    + reflexivity.
    + intros _. exists t, PLeave. split; [eapply nth_set_same; eauto | reflexivity].
    + intros _. eauto.
    + keep.
    + reflexivity.
    + f_thr Ido t.
    + keep.
    + keep.
    + f_thr Iva t; try solve [match goal with Hc : carries _ _ |- _ => cbn in Hc; tauto end].
    + keep.
    + rewrite set_nth_len. assumption.
  - (* PLeave -> PGet : the Once completes *)
    inversion H; subst; clear H. destruct (Icl t _ Hp eq_refl) as (A & (v & R0 & S0 & F0) & U).
    constructor; cbn [st_once flag slot threads runs rets bad upd].
    + intros q p' Hq Hc. other_thread Hq t q; [discriminate|].
      exfalso. specialize (U q p' Hq Hc). congruence.
    + discriminate.
    + intros _. assumption.
    + discriminate.
    + keep.
    + keep.
    + intros; assumption.
    + f_thr Ido t.
    + keep.
    + keep.
    + f_thr Iva t; try solve [match goal with Hc : carries _ _ |- _ => cbn in Hc; tauto end].
    + keep.
    + rewrite set_nth_len. assumption.
  - (* PGet *)
    assert (F : flag s = true) by (eapply Ige; eauto).
    destruct (Ifl F) as (w & v & R0 & S0).
    assert (Hs : s' = {| st_once := st_once s; flag := flag s; slot := slot s; threads := set_nth (threads s) t (PDone v);
                         runs := runs s; rets := rets s ++ [(t, v)]; bad := bad s |}).
    { rewrite S0 in H. inversion H. rewrite S0. reflexivity. }
    subst s'. clear H.
    constructor; cbn [st_once flag slot threads runs rets bad upd].
    + f_closure_out Icl t.
    + keep.
    + keep.
    + f_running_out Iru Hp t.
    + keep.
    + keep.
    + intros; assumption.
    + f_thr Ido t; try solve [assumption].
    + intros q r Hin. apply in_app_or in Hin. destruct Hin as [Hin|[E|[]]]; [eauto|]. inversion E; subst. auto.
    + keep.
    + f_thr Iva t; try solve [match goal with Hc : carries _ _ |- _ => cbn in Hc; tauto end].
    + keep.
    + rewrite set_nth_len. assumption.
  - discriminate.
Qed.

Theorem run_inv vals sched : forall s, Inv vals s -> Inv vals (run s sched).
Proof.
  induction sched as [|t r IH]; intros s I; cbn; auto.
  destruct (step s t) eqn:E; auto. apply IH. eapply step_inv; eauto.
Qed.

(* ---- the statements *)
Theorem once_at_most_one_execution vals sched :
  (length (runs (run (init vals) sched)) <= 1)%nat.
Proof.
  pose proof (run_inv vals sched _ (init_inv vals)) as I. set (s := run (init vals) sched) in *.
  destruct (runs s) as [|x [|y l]] eqn:R; cbn; try lia.
  exfalso. destruct (st_once s) eqn:O.
  - destruct (i_idle _ _ I O) as (A & _). congruence.
  - destruct (i_running _ _ I O) as (t & p & Hq & Hc). destruct (i_closure _ _ I t p Hq Hc) as (_ & Ph & _).
    destruct p; try discriminate; cbn in Ph; [destruct Ph as (A & _) | destruct Ph as (A & _) | destruct Ph as (v & A & _) | destruct Ph as (v & A & _)]; congruence.
  - destruct (i_flag _ _ I (i_complete _ _ I O)) as (w & v & A & _). congruence.
Qed.

Theorem once_every_call_returns_the_initialised_value vals sched t r :
  let s := run (init vals) sched in
  In (t, r) (rets s) \/ nth_error (threads s) t = Some (PDone r) ->
  exists w, runs s = [(w, r)] /\ nth_error vals w = Some r /\ slot s = Some r.
Proof.
  intros s H. pose proof (run_inv vals sched _ (init_inv vals)) as I. fold s in I.
  assert (S : slot s = Some r) by (destruct H; [eapply i_rets | eapply i_done]; eauto).
  destruct (i_slot _ _ I r S) as (w & R). exists w. repeat split; auto.
  eapply i_runs; eauto. rewrite R. left. reflexivity.
Qed.

Corollary once_calls_agree vals sched t r t' r' :
  let s := run (init vals) sched in
  In (t, r) (rets s) -> In (t', r') (rets s) -> r = r'.
Proof.
  intros s H H'.
  destruct (once_every_call_returns_the_initialised_value vals sched t r (or_introl H)) as (_ & _ & _ & A).
  destruct (once_every_call_returns_the_initialised_value vals sched t' r' (or_introl H')) as (_ & _ & _ & B).
  fold s in A, B. congruence.
Qed.

Theorem once_never_reads_an_uninitialised_slot vals sched : bad (run (init vals) sched) = false.
Proof. apply (i_bad vals). apply run_inv, init_inv. Qed.

(* nobody stays blocked: a thread that has not returned can step itself, or it waits for the thread inside
   the closure, which can *)
Theorem once_no_deadlock vals s t p :
  Inv vals s -> nth_error (threads s) t = Some p -> (forall r, p <> PDone r) ->
  exists q s', step s q = Some s'.
Proof.
  intros I Hp Hn.
  assert (Self : (exists s', step s t = Some s') \/ (exists v, p = PCall v /\ st_once s = Running)).
  { unfold step. rewrite Hp. destruct p; try (left; eexists; reflexivity).
    - destruct (st_once s) eqn:O; [left; eexists; reflexivity | right; eauto | left; eexists; reflexivity].
    - destruct (slot s); left; eexists; reflexivity.
    - exfalso. eapply Hn; eauto. }
  destruct Self as [(s' & E)|(v & -> & O)]; [eauto|].
  destruct (i_running _ _ I O) as (q & p' & Hq & Hc). exists q. unfold step. rewrite Hq.
  destruct p'; try discriminate; eexists; reflexivity.
Qed.

(* non-vacuity: three threads, the second one starts first and initialises; the others return its value *)
Example once_example :
  let s := run (init [10; 20; 30]) [1; 1; 1; 0; 0; 0; 1; 1; 2; 2; 1; 1; 0; 0; 1; 2; 2; 0; 0]%nat in
  runs s = [(1%nat, 20)] /\ map (ret_of s) [0; 1; 2]%nat = [20; 20; 20] /\ bad s = false.
Proof. vm_compute. repeat split. Qed.

Example once_line_example :
  once_line [3; 10; 20; 30; 2; 0; 4; 3] = [1; 1; 1; 1; 0; 20; 20; 20].
Proof. vm_compute. reflexivity. Qed.
