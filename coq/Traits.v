(* Traits.v -- executable model of the comparison / hashing traits of circ's `Rc<T>` and
   `Snapshot<'g, T>` (property C19).

   Source anchors (/repo/src/strong.rs):
     impl PartialEq / Eq / Hash / PartialOrd / Ord for Rc<T>        (lines ~665-690)
     impl PartialEq / Eq / Hash / PartialOrd / Ord for Snapshot<T>  (lines ~891-916)
     Rc::as_ref / Snapshot::as_ref, ptr_eq, with_tag, tag, is_null
   Both families of impls have literally the same bodies:
       eq          = self.as_ref() == other.as_ref()
       hash        = self.as_ref().hash(state)
       partial_cmp = self.as_ref().partial_cmp(&other.as_ref())
       cmp         = self.as_ref().cmp(&other.as_ref())
   so one model serves both pointer kinds.

   A pointer word is `Tagged` (src/ebr_impl/pointers.rs): address | low tag bits | 4 high
   timestamp bits.  The bit-level facts (the three fields are independent, `is_null` looks at the
   address only, `ptr_eq` masks the timestamp) are property C11 (TaggedP.v); here a pointer is
   the already decoded triple.

   The payload type T is arbitrary.  Rust's `Ord` contract obliges the user to make `T::eq`,
   `T::partial_cmp` and `T::cmp` agree (`a == b` iff `cmp a b = Equal`, `partial_cmp = Some cmp`),
   and the `Hash` contract obliges `a == b -> hash a = hash b`; the model therefore takes ONE
   three-way comparison `cmpT` and a hash `hashT` and derives `eqT` / `partial_cmpT` from `cmpT`.
   The laws of `cmpT` / `hashT` are hypotheses of the theorems in TraitsP.v, not of this file.

   Coq stdlib only. *)
From Coq Require Import ZArith List Bool.
Import ListNotations.
Local Open Scope Z_scope.

(* obj = 0 is the null address, otherwise an object identity; tag = low tag bits (what
   `tag()` returns, i.e. after truncation by `with_tag`); ts = the 4 high timestamp bits
   written by AtomicRc stores. *)
Record ptr : Type := mkptr { obj : Z; tag : Z; ts : Z }.

Definition is_null (p : ptr) : bool := obj p =? 0.

(* Tagged::ptr_eq : compare the words after clearing the timestamp bits *)
Definition ptr_eq (p q : ptr) : bool := (obj p =? obj q) && (tag p =? tag q).

(* with_tag replaces the tag field only (truncation to the alignment bits is C11's business) *)
Definition with_tag (p : ptr) (t : Z) : ptr := mkptr (obj p) t (ts p).
(* Tagged::with_high_tag, used by AtomicRc stores through with_timestamp (null is left alone) *)
Definition with_timestamp (p : ptr) (e : Z) : ptr :=
  if is_null p then p else mkptr (obj p) (tag p) (e mod 16).

Definition null : ptr := mkptr 0 0 0.

(* ---------- Option<&T> as Rust sees it ---------- *)
Section OptionOps.
  Variable T : Type.
  Variable cmpT : T -> T -> comparison.
  Variable hashT : T -> Z.

  Definition eqT (x y : T) : bool :=
    match cmpT x y with Eq => true | _ => false end.

  (* derived `PartialEq for Option<T>` *)
  Definition opt_eq (a b : option T) : bool :=
    match a, b with
    | None, None => true
    | Some x, Some y => eqT x y
    | _, _ => false
    end.

  (* derived `Ord for Option<T>`: None < Some _ *)
  Definition opt_cmp (a b : option T) : comparison :=
    match a, b with
    | None, None => Eq
    | None, Some _ => Lt
    | Some _, None => Gt
    | Some x, Some y => cmpT x y
    end.

  (* derived `PartialOrd for Option<T>` with `T::partial_cmp = Some . T::cmp` *)
  Definition opt_partial_cmp (a b : option T) : option comparison := Some (opt_cmp a b).

  (* derived `Hash for Option<T>`: the discriminant, then the payload; the list of words
     written to the Hasher *)
  Definition opt_hash (a : option T) : list Z :=
    match a with
    | None => [0]
    | Some x => [1; hashT x]
    end.

  (* ---------- the pointer traits ---------- *)
  (* a heap maps object identities to payloads; identity 0 is never allocated *)
  Definition heap := Z -> option T.

  (* p is null or points to a live object of h (as_ref on anything else is UB in Rust) *)
  Definition valid (h : heap) (p : ptr) : Prop :=
    is_null p = true \/ exists x, h (obj p) = Some x.

  Definition as_ref (h : heap) (p : ptr) : option T :=
    if is_null p then None else h (obj p).

  Definition eq (h : heap) (p q : ptr) : bool := opt_eq (as_ref h p) (as_ref h q).
  Definition cmp (h : heap) (p q : ptr) : comparison := opt_cmp (as_ref h p) (as_ref h q).
  Definition partial_cmp (h : heap) (p q : ptr) : option comparison :=
    opt_partial_cmp (as_ref h p) (as_ref h q).
  Definition hash (h : heap) (p : ptr) : list Z := opt_hash (as_ref h p).

  (* `<=` as provided by PartialOrd from partial_cmp *)
  Definition le (h : heap) (p q : ptr) : bool :=
    match cmp h p q with Gt => false | _ => true end.
End OptionOps.

(* ---------- concrete instance T := Z, for execution ---------- *)
Definition cmpZ : Z -> Z -> comparison := Z.compare.
Definition hashZ (x : Z) : Z := x.

Definition heapZ := heap Z.

(* the heap described by an association list (first binding wins; identity 0 is never bound) *)
Fixpoint heap_of_list (l : list (Z * Z)) : heapZ :=
  fun id =>
    match l with
    | [] => None
    | (k, v) :: l' => if (negb (k =? 0)) && (k =? id) then Some v else heap_of_list l' id
    end.

Definition eqZ := eq Z cmpZ.
Definition cmpPZ := cmp Z cmpZ.
Definition partial_cmpZ := partial_cmp Z cmpZ.
Definition hashPZ := hash Z hashZ.

Definition b2z (b : bool) : Z := if b then 1 else 0.
Definition c2z (c : comparison) : Z := match c with Lt => -1 | Eq => 0 | Gt => 1 end.

Fixpoint list_eqb (a b : list Z) : bool :=
  match a, b with
  | [], [] => true
  | x :: a', y :: b' => (x =? y) && list_eqb a' b'
  | _, _ => false
  end.

(* One line of the differential stream:
     input  [obj1; tag1; ts1; payload1; obj2; tag2; ts2; payload2]  (payload ignored when obj = 0)
     output [eq; cmp as -1/0/1; partial_cmp_is_some; hash_equal; ptr_eq; is_null1; is_null2] *)
Definition traits_line (l : list Z) : list Z :=
  match l with
  | [o1; t1; s1; p1; o2; t2; s2; p2] =>
      let h := heap_of_list [(o1, p1); (o2, p2)] in
      let p := mkptr o1 t1 s1 in
      let q := mkptr o2 t2 s2 in
      [ b2z (eqZ h p q);
        c2z (cmpPZ h p q);
        match partial_cmpZ h p q with Some _ => 1 | None => 0 end;
        b2z (list_eqb (hashPZ h p) (hashPZ h q));
        b2z (ptr_eq p q);
        b2z (is_null p);
        b2z (is_null q) ]
  | _ => []
  end.
