(* M9 -- the OnceLock of src/ebr_impl/sync/once_lock.rs (the cell behind the default collector: the first
   `cs()` of the process initialises it) as a small-step machine.

   A thread performs one `get_or_init(|| v)`:
     fast path   : load is_initialized; if set go to get_unchecked
     initialize  : Once::call_once: if the Once is Incomplete it becomes Running and the caller runs the closure
                   (f() yields v; slot.write(v); is_initialized.store(true)), then the Once becomes Complete;
                   if it is Running the caller BLOCKS (no step) until it is Complete; if Complete it returns
     get_unchecked: reads the slot
   std::sync::Once is an atomic object here (trusted: std).  Memory model: SC.
   Ghost: [runs] = the closure executions (thread, value), [rets] = what every call returned,
   [bad] = a get_unchecked found the slot uninitialised. *)
From Coq Require Import ZArith List Bool Lia.
Import ListNotations.
Local Open Scope Z_scope.

Inductive once := Incomplete | Running | Complete.

Inductive pc :=
| PStart (v : Z)        (* not yet called *)
| PFast (v : Z)         (* about to load is_initialized *)
| PCall (v : Z)         (* about to enter Once::call_once *)
| PInF (v : Z)          (* inside the closure: about to run f *)
| PWrite (v : Z)        (* f returned v: about to write the slot *)
| PFlag                 (* about to store is_initialized = true *)
| PLeave                (* closure done: the Once becomes Complete *)
| PGet                  (* get_unchecked *)
| PDone (r : Z).        (* returned r *)

Record state := {
  st_once : once;
  flag : bool;
  slot : option Z;
  threads : list pc;
  runs : list (nat * Z);
  rets : list (nat * Z);
  bad : bool;
}.

Fixpoint set_nth {A} (l : list A) (n : nat) (x : A) : list A :=
  match l, n with
  | [], _ => []
  | _ :: r, O => x :: r
  | a :: r, S m => a :: set_nth r m x
  end.

Definition upd (s : state) (t : nat) (p : pc) : state :=
  {| st_once := st_once s; flag := flag s; slot := slot s; threads := set_nth (threads s) t p;
     runs := runs s; rets := rets s; bad := bad s |}.

(* one atomic step of thread t; None: no such thread, finished, or blocked on the Once *)
Definition step (s : state) (t : nat) : option state :=
  match nth_error (threads s) t with
  | None => None
  | Some p =>
    match p with
    | PStart v => Some (upd s t (PFast v))
    | PFast v => Some (upd s t (if flag s then PGet else PCall v))
    | PCall v =>
        match st_once s with
        | Incomplete => Some {| st_once := Running; flag := flag s; slot := slot s; threads := set_nth (threads s) t (PInF v);
                                runs := runs s; rets := rets s; bad := bad s |}
        | Running => None
        | Complete => Some (upd s t PGet)
        end
    | PInF v => Some {| st_once := st_once s; flag := flag s; slot := slot s; threads := set_nth (threads s) t (PWrite v);
                        runs := runs s ++ [(t, v)]; rets := rets s; bad := bad s |}
    | PWrite v => Some {| st_once := st_once s; flag := flag s; slot := Some v; threads := set_nth (threads s) t PFlag;
                          runs := runs s; rets := rets s; bad := bad s |}
    | PFlag => Some {| st_once := st_once s; flag := true; slot := slot s; threads := set_nth (threads s) t PLeave;
                       runs := runs s; rets := rets s; bad := bad s |}
    | PLeave => Some {| st_once := Complete; flag := flag s; slot := slot s; threads := set_nth (threads s) t PGet;
                        runs := runs s; rets := rets s; bad := bad s |}
    | PGet =>
        match slot s with
        | Some v => Some {| st_once := st_once s; flag := flag s; slot := slot s; threads := set_nth (threads s) t (PDone v);
                            runs := runs s; rets := rets s ++ [(t, v)]; bad := bad s |}
        | None => Some {| st_once := st_once s; flag := flag s; slot := slot s; threads := set_nth (threads s) t (PDone (-1));
                          runs := runs s; rets := rets s; bad := true |}
        end
    | PDone _ => None
    end
  end.

Definition init (vals : list Z) : state :=
  {| st_once := Incomplete; flag := false; slot := None; threads := map PStart vals; runs := []; rets := []; bad := false |}.

Fixpoint run (s : state) (sched : list nat) : state :=
  match sched with
  | [] => s
  | t :: r => match step s t with Some s' => run s' r | None => run s r end
  end.

(* ---- the coarse events the harness can realise on real threads (the closure is gated, nothing else is):
        2*t   = thread t starts its call and runs until it is inside the closure (f has been entered), blocked, or back;
        2*t+1 = the closure of thread t is released; t runs to its return, then every other thread runs as far as it can *)
Definition gated (p : pc) : bool := match p with PWrite _ => true | _ => false end.

Fixpoint run_until_gate (fuel : nat) (s : state) (t : nat) : state :=
  match fuel with
  | O => s
  | S n =>
      match nth_error (threads s) t with
      | Some p => if gated p then s else match step s t with Some s' => run_until_gate n s' t | None => s end
      | None => s
      end
  end.

Fixpoint run_to_end (fuel : nat) (s : state) (t : nat) : state :=
  match fuel with
  | O => s
  | S n => match step s t with Some s' => run_to_end n s' t | None => s end
  end.

Fixpoint others (s : state) (ts : list nat) : state :=
  match ts with
  | [] => s
  | q :: r => others (run_until_gate 12 s q) r
  end.

Definition started (p : pc) : bool := match p with PStart _ => false | _ => true end.

Definition event (s : state) (e : Z) : state :=
  let t := Z.to_nat (e / 2) in
  if e mod 2 =? 0 then run_until_gate 12 s t
  else
    match nth_error (threads s) t with
    | Some p =>
        if gated p then
          let s1 := run_to_end 12 s t in
          (* the threads that had started and were blocked wake up *)
          others s1 (filter (fun q => match nth_error (threads s1) q with Some p' => started p' | None => false end)
                            (seq 0 (length (threads s1))))
        else s
    | None => s
    end.

Definition ret_of (s : state) (t : nat) : Z :=
  match nth_error (threads s) t with Some (PDone r) => r | _ => -2 end.

Fixpoint events (s : state) (es : list Z) : state * list Z :=
  match es with
  | [] => (s, [])
  | e :: r => let s1 := event s e in
              let (s2, o) := events s1 r in (s2, Z.of_nat (length (runs s1)) :: o)
  end.

(* input: n :: v_0 .. v_{n-1} :: events ;  output: closure executions after every event, then the bad flag, then every thread's result *)
Definition once_line (inp : list Z) : list Z :=
  match inp with
  | n :: r =>
      let k := Z.to_nat n in
      let vals := firstn k r in
      let es := skipn k r in
      let (s, o) := events (init vals) es in
      o ++ [Z.b2z (bad s)] ++ map (ret_of s) (seq 0 k)
  | [] => []
  end.
