(* C14, machine level: the generated image of ebr_impl/epoch.rs (Gen/EpochW.v) agrees with +1, the
   pinned flag and subtraction on true epochs g < 2^62, and SealedBag::is_expired is `>= EXPIRE_AFTER`. *)
From Coq Require Import ZArith Lia Bool.
Require Import Params EpochW Bits.
Local Open Scope Z_scope.

Definition ep (g : Z) : Prop := 0 <= g < 2 ^ 62.

Lemma land_1 x : Z.land x 1 = x mod 2.
Proof. change 1 with (Z.ones 1). rewrite Z.land_ones by lia. reflexivity. Qed.

Lemma bnot1 : bnot 64 1 = 2 ^ 64 - 2.
Proof. reflexivity. Qed.

Lemma land_even_mask x : 0 <= x < 2 ^ 64 -> Z.land x (bnot 64 1) = x - x mod 2.
Proof. intros H. rewrite land_bnot by (auto; vm_compute; split; congruence). rewrite land_1. reflexivity. Qed.

Lemma lor_1_even g : 0 <= g -> Z.lor (2 * g) 1 = 2 * g + 1.
Proof.
  intros H. assert (Hd : Z.land (2 * g) 1 = 0) by (rewrite land_1; lia).
  rewrite <- (Z.lxor_lor _ _ Hd). symmetry. apply Z.add_nocarry_lxor. exact Hd.
Qed.
Lemma lor_1_odd g : 0 <= g -> Z.lor (2 * g + 1) 1 = 2 * g + 1.
Proof.
  intros H. apply Z.bits_inj'. intros n Hn. rewrite Z.lor_spec.
  destruct (Z.eq_dec n 0) as [->|Hne].
  - rewrite Z.bit0_odd. replace (2 * g + 1) with (1 + 2 * g) by lia. rewrite Z.odd_add_mul_2. reflexivity.
  - replace (Z.testbit 1 n) with false; [apply orb_false_r|].
    symmetry. change 1 with (2 ^ 0). apply Z.pow2_bits_false. lia.
Qed.

Theorem e_pinned_spec g b : ep g -> e_pinned (2 * g + Z.b2z b) = 2 * g + 1.
Proof. intros [H _]. unfold e_pinned. destruct b; cbn [Z.b2z]; [apply lor_1_odd | rewrite Z.add_0_r; apply lor_1_even]; auto. Qed.

Theorem e_unpinned_spec g b : ep g -> e_unpinned (2 * g + Z.b2z b) = 2 * g.
Proof.
  intros [H H2]. unfold e_unpinned. rewrite land_even_mask by (destruct b; cbn [Z.b2z]; lia).
  destruct b; cbn [Z.b2z]; lia.
Qed.

Theorem e_is_pinned_spec g b : ep g -> e_is_pinned (2 * g + Z.b2z b) = b.
Proof.
  intros [H H2]. unfold e_is_pinned. rewrite land_1.
  (* robust against the way the source writes the test (`== 1`, `!= 0`): decide every comparison, then arithmetic *)
  destruct b; cbn [Z.b2z];
    repeat match goal with |- context [?a =? ?c] => destruct (Z.eqb_spec a c) end; cbn [negb]; try reflexivity; exfalso; lia.
Qed.

Theorem e_value_spec g b : ep g -> e_value (2 * g + Z.b2z b) = g.
Proof.
  intros Hg. unfold e_value. rewrite e_unpinned_spec by auto. rewrite Z.shiftr_div_pow2 by lia.
  change (2 ^ 1) with 2. destruct Hg. lia.
Qed.

Theorem e_successor_spec g b : ep g -> e_successor (2 * g + Z.b2z b) = 2 * (g + 1) + Z.b2z b.
Proof. intros [H H2]. unfold e_successor, wrap. destruct b; cbn [Z.b2z]; rewrite Z.mod_small; lia. Qed.

Theorem e_wrapping_sub_spec g e b b' : ep g -> ep e ->
  e_wrapping_sub (2 * g + Z.b2z b) (2 * e + Z.b2z b') = g - e.
Proof.
  intros [G1 G2] [E1 E2]. unfold e_wrapping_sub.
  rewrite land_even_mask by (destruct b'; cbn [Z.b2z]; lia).
  replace (2 * e + Z.b2z b' - (2 * e + Z.b2z b') mod 2) with (2 * e) by (destruct b'; cbn [Z.b2z]; lia).
  rewrite Z.shiftr_div_pow2 by lia. change (2 ^ 1) with 2.
  unfold wrap, sext. change (2 ^ (64 - 1)) with (2 ^ 63).
  set (x := 2 * g + Z.b2z b - 2 * e).
  assert (Hx : - 2 ^ 63 < x < 2 ^ 63) by (subst x; destruct b; cbn [Z.b2z]; lia).
  assert (Hpar : x = 2 * (g - e) + Z.b2z b) by (subst x; lia).
  destruct (Z.ltb_spec (x mod 2 ^ 64) (2 ^ 63)); destruct b; cbn [Z.b2z] in *; lia.
Qed.

(* SealedBag::is_expired on true epochs: expired iff at least EXPIRE_AFTER epochs old (the model's [expired]) *)
Theorem is_expired_spec g e : ep g -> ep e -> is_expired (2 * e) (2 * g) = (g - e >=? EXPIRE_AFTER).
Proof.
  intros Hg He. unfold is_expired.
  rewrite <- (Z.add_0_r (2 * g)) at 1. rewrite <- (Z.add_0_r (2 * e)) at 1.
  change 0 with (Z.b2z false). rewrite e_wrapping_sub_spec by auto. reflexivity.
Qed.
